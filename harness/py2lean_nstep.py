#!/usr/bin/env python3
"""
py2lean_nstep.py — translate `MultiStepReplayBuffer.add` and `MultiStepReplayBuffer._get_n_step_info`
of REPO/agilerl/components/replay_buffer.py into Lean 4.

    python3 harness/py2lean_nstep.py [--repo DIR] [--out FILE] [--stdout] [--force]

Reads the *source text* only (Python `ast`; agilerl is never imported) and writes
lean/Gen/NStepGen.lean (namespace NStepGen, core Lean only).  `Proofs/NStepGenEq.lean` proves the
generated definitions equal to the hand-written model functions of `Model/NStep.lean`
(`fuseRow true`, `push`, the storing part of `State.add`), `Props/C10.lean` restates the C10 theorems
over the generated definitions (`C10_source_translation_*`).

What is read: class `MultiStepReplayBuffer(ReplayBuffer)`; of `__init__` only the assignments
`self.n_step = <param>`, `self.gamma = <param>`, `self.n_step_buffer = deque(maxlen=<int expr>)`,
`self.reward_key / self.ns_key / self.done_key = <str | None>` (parameter defaults are not read: the
theorems quantify over every n_step and gamma); the whole bodies of `add` and `_get_n_step_info`.
Everything else in the file is outside the translated range.

Data model (fixed prelude of the output — Python / torch / tensordict runtime semantics, assumed):
  * a transition (`TensorDict` with `batch_size = [m]`, as built by `Transition(...).to_tensordict()`)
    is `structure TD` with the fixed keys obs, action, reward, next_obs, done; every field is a vector
    with one entry per environment: `reward : List Rat` (exact), `done : List Bool`, obs / action /
    next_obs : `List Nat` (opaque identifiers — the code only copies them);
  * tensor arithmetic is element-wise over the environment axis: `x + y`, `x - y`, `x * y` on reward
    tensors are `tAdd / tSub / tMul` (`List.zipWith`), tensor * scalar is `tScale`, scalar * tensor is
    `tScaleL`; `.any()` / `.all()` are `tAny / tAll` over the environments; `.bool()` of a Bool tensor,
    `.clone()`, `.to(self.device)` are the identity.  Python floats are exact rationals;
  * `self.n_step_buffer` is `buf : List TD` (oldest first); `deque(maxlen=k).append(x)` is
    `dequeAppend k buf x` (append, then drop from the left down to `k` entries); `buf[i]` on a missing
    index (IndexError) makes the function answer `none`;
  * `super().add(x)` (the ring storage of `ReplayBuffer`, property C09) is not translated: `add`
    reports the record handed to it as `AddResult.stored` (at most one call per path).
Aliasing is checked, not modelled: `x[key] = e` and in-place `x op= e` on a tensor are accepted only if
`x` was bound to a fresh object (`… .clone()`, an arithmetic result, the result of `_get_n_step_info`);
otherwise the statement could write into a row of the deque and the translator raises Unsupported.

Keys: `first_transition[self.reward_key]` etc. become field accesses.  `self.reward_key`, `self.ns_key`
are the string constants of `__init__`; the key-discovery block `if not self.initialized:` is *executed
at translation time* on the fixed key set of `TD` (its asserts must hold for that key set, its loop picks
the first candidate that is a key of `TD`, `self.done_key = …` records the result).  So the keys are
treated as fixed fields, selected by the source text; a key that is not a field of `TD`, a failing
assert or a value that is not a string raise Unsupported.

Supported subset (anything else raises Unsupported naming the construct and the line):
  * statements: docstring, `x = e`, `x: T = e`, `x op= e` (normalised to `x = x op e`), `x[key] = e`,
    `self.n_step_buffer.append(e)` (only in `add`), `super().add(e)` (only in `add`),
    `if / elif / else` whose taken-or-not branches end in return / break / continue or that is the last
    statement of its block, `return`, `return e`, `for x in seq` / `for i, x in enumerate(seq[, start])`
    with `break` / `continue` (no `else`, no `return` inside, not nested), the key-discovery block;
  * `seq`: `self.n_step_buffer`, `list(seq)`, `seq[a:]`, `seq[:b]`, `seq[a:b]` (non-negative ints);
  * expressions: int / float constants, locals, parameters, `self.n_step`, `self.gamma`,
    `self.n_step_buffer[i]`, `len(seq)`, `x[key]`, `+ - *` on reward tensors / rationals, `+ *` on ints,
    `**` with an int exponent, comparisons (chained) of ints / rationals, `and / or / not`,
    `.clone() .to(self.device) .bool() .any() .all()`, `self._get_n_step_info()`.

Shape of the output:
  * `get_n_step_info n_step gamma buf : Option TD`, `add n_step gamma buf a0 : Option AddResult`
    (`buf` afterwards, `stored`, `ret`; `ret = none` is Python's `None`);
  * a `for` loop becomes `<method>_loopN` by structural recursion over the remaining rows, carrying the
    enumerate counter and the locals defined before the loop that the body assigns; `break` returns the
    current values, `continue` / the end of the body recurse on the rest; the loop result is bound back
    to the same names (`l0.1`, `l0.2`, … when there are several);
  * fallible reads / calls are bound (`match … with | none => none | some rK =>`) in evaluation order
    before the statement that uses them;
  * Python locals are renamed canonically: parameters `a0, …`, locals `v0, v1, …` in order of first
    assignment (loop targets included), bound values `r0, r1, …`.
The header carries the sha256 of the source file; `write_if_changed` compares everything *but* that line.
"""
from __future__ import annotations

import ast
import hashlib
import os
import sys
from pathlib import Path

HERE = Path(__file__).resolve().parent
DEFAULT_OUT = HERE.parent / "lean" / "Gen" / "NStepGen.lean"
REL_SOURCE = "agilerl/components/replay_buffer.py"
SHA_PREFIX = "-- sha256(source) = "
CLASS = "MultiStepReplayBuffer"

TD, DEQUE, INT, RAT, NUM, BOOL = "td", "deque", "int", "rat", "num", "bool"
TRAT, TNAT, TBOOL = "t:Rat", "t:Nat", "t:Bool"
FIELDS = {"obs": TNAT, "action": TNAT, "reward": TRAT, "next_obs": TNAT, "done": TBOOL}
LEAN_TY = {TD: "TD", DEQUE: "List TD", INT: "Nat", RAT: "Rat", TRAT: "List Rat", TNAT: "List Nat",
           TBOOL: "List Bool"}
CMPOPS = {ast.Eq: "=", ast.NotEq: "≠", ast.Lt: "<", ast.LtE: "≤", ast.Gt: ">", ast.GtE: "≥"}
TENSOR_OPS = {ast.Add: "tAdd", ast.Sub: "tSub", ast.Mult: "tMul"}
SCALAR_OPS = {ast.Add: "+", ast.Sub: "-", ast.Mult: "*"}

PRELUDE = '''namespace NStepGen

/-- one vectorised transition (a TensorDict with `batch_size = [m]`): one entry per environment -/
structure TD where
  obs : List Nat
  action : List Nat
  reward : List Rat
  next_obs : List Nat
  done : List Bool
deriving Repr, DecidableEq, Inhabited

/-- `.any()` / `.all()` of a Bool tensor -/
def tAny (x : List Bool) : Bool := x.any id
def tAll (x : List Bool) : Bool := x.all id

/-- element-wise tensor arithmetic; `tScale x c` is `x * c`, `tScaleL c x` is `c * x` for a scalar `c` -/
def tAdd (x y : List Rat) : List Rat := List.zipWith (fun a b => a + b) x y
def tSub (x y : List Rat) : List Rat := List.zipWith (fun a b => a - b) x y
def tMul (x y : List Rat) : List Rat := List.zipWith (fun a b => a * b) x y
def tScale (x : List Rat) (c : Rat) : List Rat := x.map (fun a => a * c)
def tScaleL (c : Rat) (x : List Rat) : List Rat := x.map (fun a => c * a)

/-- `collections.deque(maxlen = k).append(x)` -/
def dequeAppend (k : Nat) (buf : List TD) (x : TD) : List TD :=
  let l := buf ++ [x]
  l.drop (l.length - k)

/-- what one `add` call does: the deque afterwards, the record handed to `super().add`
    (`ReplayBuffer.add`; `none` = not called), the return value (`none` = `None`) -/
structure AddResult where
  buf : List TD
  stored : Option TD
  ret : Option TD
deriving Repr, DecidableEq
'''


class Unsupported(Exception):
    pass


def fail(node, what: str):
    line = getattr(node, "lineno", "?")
    raise Unsupported(f"{REL_SOURCE}:{line}: unsupported construct: {what}")


def ind(lines: list[str], n: int = 2) -> list[str]:
    return [" " * n + ln for ln in lines]


def is_docstring(st) -> bool:
    return isinstance(st, ast.Expr) and isinstance(st.value, ast.Constant) and isinstance(st.value.value, str)


def self_attr(n, name: str | None = None) -> bool:
    return isinstance(n, ast.Attribute) and isinstance(n.value, ast.Name) and n.value.id == "self" \
        and (name is None or n.attr == name)


def is_super(n) -> bool:
    return isinstance(n, ast.Call) and isinstance(n.func, ast.Name) and n.func.id == "super" \
        and not n.args and not n.keywords


def rat_literal(x: float) -> str:
    n, dn = x.as_integer_ratio()
    if dn == 1:
        return f"({n} : Rat)" if n >= 0 else f"(({n}) : Rat)"
    return f"(mkRat {n} {dn})" if n >= 0 else f"(mkRat ({n}) {dn})"


class _Break(Exception):
    pass


# ----------------------------------------------------------------------------------------------
class Translator:
    def __init__(self, src: str):
        self.mod = ast.parse(src)
        self.out: list[str] = []
        self.keys: dict[str, object] = {}          # self.<x>_key -> str | None
        self.maxlen: ast.expr | None = None         # expression of deque(maxlen=…) over __init__ parameters
        self.init_params: dict[str, str] = {}       # __init__ parameter -> field it is stored in

    def run(self) -> str:
        cls = [st for st in self.mod.body if isinstance(st, ast.ClassDef) and st.name == CLASS]
        if len(cls) != 1:
            raise Unsupported(f"{REL_SOURCE}: class {CLASS} not found exactly once")
        cls = cls[0]
        bases = [b.id if isinstance(b, ast.Name) else fail(b, "class base expression") for b in cls.bases]
        if bases != ["ReplayBuffer"] or cls.keywords or cls.decorator_list:
            fail(cls, f"class {CLASS}({', '.join(bases)}) (expected base ReplayBuffer, no decorators)")
        methods = {st.name: st for st in cls.body if isinstance(st, ast.FunctionDef)}
        for m in ("__init__", "add", "_get_n_step_info"):
            if m not in methods:
                raise Unsupported(f"{REL_SOURCE}: method {CLASS}.{m} not found")
            if methods[m].decorator_list:
                fail(methods[m], f"decorator on {m}")
        self.read_init(methods["__init__"])
        self.out += [PRELUDE]
        info = MethodCtx(self, methods["_get_n_step_info"], "info")
        info_lines = info.emit()
        self.keys_after_info = dict(self.keys)
        add = MethodCtx(self, methods["add"], "add")
        add_lines = add.emit()
        self.out += info_lines + add_lines
        return "\n".join(self.out).rstrip() + "\n\nend NStepGen\n"

    # ------------------------------------------------------------------ __init__
    def read_init(self, fn: ast.FunctionDef):
        a = fn.args
        if a.vararg or a.kwarg or a.kwonlyargs or a.posonlyargs or not a.args or a.args[0].arg != "self":
            fail(fn, "parameter list of __init__")
        params = [x.arg for x in a.args[1:]]
        fields: dict[str, ast.expr] = {}
        for st in fn.body:
            if is_docstring(st):
                continue
            if isinstance(st, ast.Expr) and isinstance(st.value, ast.Call) and isinstance(st.value.func, ast.Attribute) \
                    and st.value.func.attr == "__init__" and is_super(st.value.func.value):
                continue                                        # ReplayBuffer.__init__: storage, outside the range
            tg = val = None
            if isinstance(st, ast.Assign) and len(st.targets) == 1:
                tg, val = st.targets[0], st.value
            elif isinstance(st, ast.AnnAssign) and st.value is not None:
                tg, val = st.target, st.value
            if tg is None or not self_attr(tg):
                fail(st, f"{type(st).__name__} in __init__ (only `self.x = …` and super().__init__(…))")
            if tg.attr in fields:
                fail(st, f"self.{tg.attr} assigned twice in __init__")
            fields[tg.attr] = val
        for f, want in (("n_step", "n_step"), ("gamma", "gamma")):
            v = fields.get(f)
            if not (isinstance(v, ast.Name) and v.id in params):
                fail(v or fn, f"self.{f} = <not a parameter of __init__>")
            self.init_params[v.id] = f
        for k in ("reward_key", "ns_key", "done_key"):
            v = fields.get(k)
            if not (isinstance(v, ast.Constant) and (v.value is None or isinstance(v.value, str))):
                fail(v or fn, f"self.{k} = <not a string constant / None> in __init__")
            self.keys[k] = v.value
        v = fields.get("n_step_buffer")
        ok = isinstance(v, ast.Call) and isinstance(v.func, ast.Name) and v.func.id == "deque" and not v.args \
            and len(v.keywords) == 1 and v.keywords[0].arg == "maxlen"
        if not ok:
            fail(v or fn, "self.n_step_buffer = <not `deque(maxlen=…)`>")
        self.maxlen = v.keywords[0].value
        extra = set(fields) - {"n_step", "gamma", "reward_key", "ns_key", "done_key", "n_step_buffer"}
        if extra:
            fail(fn, f"fields {sorted(extra)} set in __init__")

    def maxlen_text(self) -> str:
        """the `maxlen` expression of __init__, over the fields its parameters are stored in"""
        def go(n) -> str:
            if isinstance(n, ast.Constant) and type(n.value) is int and n.value >= 0:
                return str(n.value)
            if isinstance(n, ast.Name) and self.init_params.get(n.id) == "n_step":
                return "n_step"
            if isinstance(n, ast.BinOp) and isinstance(n.op, (ast.Add, ast.Mult)):
                return f"({go(n.left)} {'+' if isinstance(n.op, ast.Add) else '*'} {go(n.right)})"
            fail(n, "deque(maxlen=<not an expression of n_step, non-negative int constants, + and *>)")
        return go(self.maxlen)


# ----------------------------------------------------------------------------------------------
class MethodCtx:
    def __init__(self, tr: Translator, fn: ast.FunctionDef, kind: str):
        self.tr, self.fn, self.kind = tr, fn, kind
        self.lean = "get_n_step_info" if kind == "info" else "add"
        self.canon: dict[str, str] = {}
        self.types: dict[str, str] = {}
        self.fresh: set[str] = set()
        self.binds: list[tuple[str, str]] | None = None
        self.nbind = 0
        self.nloop = 0
        self.loop_defs: list[str] = []
        self.in_loop = False
        self.loop_exit: tuple | None = None           # (break lines, continue lines)
        self.loop_targets: set[str] = set()
        self.stored = "none"                           # Lean text of what was handed to super().add so far
        self.discovery_locals: set[str] = set()

    # ---------------- entry
    def emit(self) -> list[str]:
        fn = self.fn
        a = fn.args
        if a.vararg or a.kwarg or a.kwonlyargs or a.posonlyargs or a.defaults or not a.args or a.args[0].arg != "self":
            fail(fn, f"parameter list of {fn.name}")
        params = a.args[1:]
        if self.kind == "info" and params:
            fail(fn, "_get_n_step_info with parameters")
        if self.kind == "add" and len(params) != 1:
            fail(fn, "add with other than one parameter (the transition)")
        for i, p in enumerate(params):
            self.canon[p.arg] = f"a{i}"
            self.types[p.arg] = TD
        self.collect_locals(fn.body)
        stmts = [s for s in fn.body if not is_docstring(s)]
        body = self.block(stmts, self.end_of_method)
        sig = "(n_step : Nat) (gamma : Rat) (buf : List TD)" + "".join(f" ({self.canon[p.arg]} : TD)" for p in params)
        rt = "Option TD" if self.kind == "info" else "Option AddResult"
        hdr = [f"/-- `{CLASS}.{fn.name}` (source line {fn.lineno}) -/", f"def {self.lean} {sig} : {rt} :="]
        return self.loop_defs + hdr + ind(body) + [""]

    def collect_locals(self, stmts):
        k = 0

        def name(t):
            nonlocal k
            if isinstance(t, ast.Name) and t.id not in self.canon:
                self.canon[t.id] = f"v{k}"
                k += 1
            elif isinstance(t, ast.Tuple):
                for x in t.elts:
                    name(x)

        def visit(sts):
            for st in sts:
                if isinstance(st, ast.If) and self.is_discovery(st):
                    continue                                  # executed at translation time
                if isinstance(st, ast.Assign):
                    for t in st.targets:
                        name(t)
                elif isinstance(st, (ast.AugAssign, ast.AnnAssign)):
                    name(st.target)
                elif isinstance(st, ast.For):
                    name(st.target)
                if isinstance(st, (ast.If, ast.For, ast.While)):
                    visit(st.body)
                    visit(st.orelse)
        visit(stmts)

    # ---------------- key discovery (executed at translation time)
    def is_discovery(self, st: ast.If) -> bool:
        t = st.test
        return isinstance(t, ast.UnaryOp) and isinstance(t.op, ast.Not) and self_attr(t.operand, "initialized")

    def first_row(self, n) -> bool:
        return isinstance(n, ast.Subscript) and self_attr(n.value, "n_step_buffer") \
            and isinstance(n.slice, ast.Constant) and n.slice.value == 0

    def discover(self, st: ast.If):
        if st.orelse:
            fail(st, "`if not self.initialized:` with else")
        env: dict[str, object] = {}

        def val(n):
            if isinstance(n, ast.Constant) and (n.value is None or isinstance(n.value, str)):
                return n.value
            if isinstance(n, ast.Name) and n.id in env:
                return env[n.id]
            if self_attr(n) and n.attr in self.tr.keys:
                return self.tr.keys[n.attr]
            fail(n, f"key expression {ast.unparse(n)} in the key-discovery block")

        def test(n) -> bool:
            if isinstance(n, ast.UnaryOp) and isinstance(n.op, ast.Not):
                return not test(n.operand)
            if isinstance(n, ast.Compare) and len(n.ops) == 1:
                op, r = n.ops[0], n.comparators[0]
                if isinstance(op, (ast.In, ast.NotIn)) and self.first_row(r):
                    k = val(n.left)
                    if not isinstance(k, str):
                        fail(n, "`<None> in transition` in the key-discovery block")
                    return (k in FIELDS) != isinstance(op, ast.NotIn)
                if isinstance(op, (ast.Is, ast.IsNot)) and isinstance(r, ast.Constant) and r.value is None:
                    return (val(n.left) is None) != isinstance(op, ast.IsNot)
            fail(n, f"condition {ast.unparse(n)} in the key-discovery block")

        def run(sts):
            for s in sts:
                if is_docstring(s):
                    continue
                if isinstance(s, ast.Assert):
                    if not test(s.test):
                        fail(s, f"assertion `{ast.unparse(s.test)}` fails on a transition with the keys {sorted(FIELDS)}")
                elif isinstance(s, ast.Assign) and len(s.targets) == 1 and isinstance(s.targets[0], ast.Name):
                    env[s.targets[0].id] = val(s.value)
                elif isinstance(s, ast.Assign) and len(s.targets) == 1 and self_attr(s.targets[0]) \
                        and s.targets[0].attr in self.tr.keys:
                    self.tr.keys[s.targets[0].attr] = val(s.value)
                elif isinstance(s, ast.If):
                    run(s.body if test(s.test) else s.orelse)
                elif isinstance(s, ast.Break):
                    raise _Break()
                elif isinstance(s, ast.For) and isinstance(s.target, ast.Name) and isinstance(s.iter, (ast.List, ast.Tuple)) \
                        and not s.orelse:
                    try:
                        for e in s.iter.elts:
                            env[s.target.id] = val(e)
                            run(s.body)
                    except _Break:
                        pass
                else:
                    fail(s, f"{type(s).__name__} in the key-discovery block")
        try:
            run(st.body)
        except _Break:
            fail(st, "break outside a loop in the key-discovery block")

    def key_of(self, n) -> str:
        if isinstance(n, ast.Constant) and isinstance(n.value, str):
            k = n.value
        elif self_attr(n) and n.attr in self.tr.keys:
            k = self.tr.keys[n.attr]
            if k is None:
                fail(n, f"self.{n.attr} is None here (the key-discovery block has not set it)")
        else:
            fail(n, f"key expression {ast.unparse(n)}")
        if k not in FIELDS:
            fail(n, f"key {k!r} is not a field of the transition ({sorted(FIELDS)})")
        return k

    # ---------------- expressions: (text, type, fresh)
    def ex(self, n, top: bool = False) -> tuple[str, str, bool]:
        par = (lambda s: s) if top else (lambda s: f"({s})")
        if isinstance(n, ast.Constant):
            if type(n.value) is int and n.value >= 0:
                return str(n.value), NUM, True
            if type(n.value) is float and n.value == n.value and abs(n.value) != float("inf"):
                return rat_literal(n.value), RAT, True
            fail(n, f"constant {n.value!r}")
        if isinstance(n, ast.Name):
            if n.id not in self.types:
                fail(n, f"name {n.id} (not a parameter / local assigned before on every path)")
            return self.canon[n.id], self.types[n.id], n.id in self.fresh
        if isinstance(n, ast.Attribute):
            if self_attr(n, "n_step"):
                return "n_step", INT, True
            if self_attr(n, "gamma"):
                return "gamma", RAT, True
            if self_attr(n, "n_step_buffer"):
                return "buf", DEQUE, False
            fail(n, f"attribute .{n.attr}")
        if isinstance(n, ast.Subscript):
            base, bt, bfresh = self.ex(n.value)
            if bt == TD:
                k = self.key_of(n.slice)
                return f"{base}.{k}", FIELDS[k], False
            if bt == DEQUE:
                if isinstance(n.slice, ast.Slice):
                    if n.slice.step is not None:
                        fail(n, "slice with a step")
                    txt = base
                    if n.slice.upper is not None:
                        txt = f"({txt}.take {self.idx(n.slice.upper)})"
                    if n.slice.lower is not None:
                        txt = f"({txt}.drop {self.idx(n.slice.lower)})"
                    return txt, DEQUE, False
                i = self.idx(n.slice)
                if self.binds is None:
                    fail(n, "deque[i] in a position where the IndexError cannot be bound")
                r = f"r{self.nbind}"
                self.nbind += 1
                self.binds.append((r, f"{base}[{i}]?"))
                return r, TD, False
            fail(n, f"subscript of a value of type {bt}")
        if isinstance(n, ast.BinOp):
            (a, ta, _), (b, tb, _) = self.ex(n.left), self.ex(n.right)
            if isinstance(n.op, ast.Pow):
                if tb not in (INT, NUM) or ta not in (RAT, INT, NUM):
                    fail(n, f"`**` on ({ta}, {tb})")
                return par(f"{a} ^ {b}"), (INT if ta in (INT, NUM) else RAT), True
            if type(n.op) not in SCALAR_OPS:
                fail(n, f"operator {type(n.op).__name__}")
            if ta == TRAT and tb == TRAT:
                return par(f"{TENSOR_OPS[type(n.op)]} {a} {b}"), TRAT, True
            if isinstance(n.op, ast.Mult) and ta == TRAT and tb in (RAT, NUM, INT):
                return par(f"tScale {a} {self.as_rat(b, tb)}"), TRAT, True
            if isinstance(n.op, ast.Mult) and tb == TRAT and ta in (RAT, NUM, INT):
                return par(f"tScaleL {self.as_rat(a, ta)} {b}"), TRAT, True
            if ta in (INT, NUM) and tb in (INT, NUM):
                if isinstance(n.op, ast.Sub):
                    fail(n, "integer subtraction (could be negative)")
                return par(f"{a} {SCALAR_OPS[type(n.op)]} {b}"), (NUM if ta == tb == NUM else INT), True
            if ta in (RAT, NUM, INT) and tb in (RAT, NUM, INT):
                return par(f"{self.as_rat(a, ta)} {SCALAR_OPS[type(n.op)]} {self.as_rat(b, tb)}"), RAT, True
            fail(n, f"`{SCALAR_OPS[type(n.op)]}` on ({ta}, {tb})")
        if isinstance(n, ast.Compare):
            parts, (ltxt, lt, _) = [], self.ex(n.left)
            for o, r in zip(n.ops, n.comparators):
                op = CMPOPS.get(type(o)) or fail(n, f"comparison {type(o).__name__}")
                rtxt, rt, _ = self.ex(r)
                if lt in (INT, NUM) and rt in (INT, NUM):
                    parts.append(f"{ltxt} {op} {rtxt}")
                elif lt in (RAT, NUM, INT) and rt in (RAT, NUM, INT):
                    parts.append(f"{self.as_rat(ltxt, lt)} {op} {self.as_rat(rtxt, rt)}")
                else:
                    fail(n, f"comparison of ({lt}, {rt})")
                ltxt, lt = rtxt, rt
            return par(" ∧ ".join(parts)), BOOL, True
        if isinstance(n, ast.BoolOp):
            op = " ∧ " if isinstance(n.op, ast.And) else " ∨ "
            vs = []
            for v in n.values:
                t, ty, _ = self.ex(v)
                if ty != BOOL:
                    fail(v, "non-boolean operand of and / or")
                vs.append(t)
            return par(op.join(vs)), BOOL, True
        if isinstance(n, ast.UnaryOp) and isinstance(n.op, ast.Not):
            t, ty, _ = self.ex(n.operand)
            if ty != BOOL:
                fail(n, "not <non-boolean>")
            return par(f"¬ {t}"), BOOL, True
        if isinstance(n, ast.Call):
            return self.call(n, par)
        fail(n, type(n).__name__)

    def as_rat(self, txt: str, ty: str) -> str:
        return f"({txt} : Rat)" if ty in (NUM, INT) else txt

    def idx(self, n) -> str:
        t, ty, _ = self.ex(n)
        if ty not in (INT, NUM):
            fail(n, f"index of type {ty}")
        return t

    def call(self, n: ast.Call, par) -> tuple[str, str, bool]:
        f = n.func
        if n.keywords and not (isinstance(f, ast.Name) and f.id == "enumerate"):
            fail(n, "keyword arguments")
        if isinstance(f, ast.Name) and f.id == "len" and len(n.args) == 1:
            t, ty, _ = self.ex(n.args[0])
            if ty != DEQUE:
                fail(n, f"len of a value of type {ty}")
            return par(f"{t}.length"), INT, True
        if isinstance(f, ast.Name) and f.id == "list" and len(n.args) == 1:
            t, ty, _ = self.ex(n.args[0], top=True)
            if ty != DEQUE:
                fail(n, f"list of a value of type {ty}")
            return (t if t.startswith("(") or " " not in t else f"({t})"), DEQUE, False
        if isinstance(f, ast.Attribute) and self_attr(f, "_get_n_step_info"):
            if n.args:
                fail(n, "arguments of _get_n_step_info")
            if self.kind != "add" or self.in_loop or self.binds is None:
                fail(n, "call of _get_n_step_info outside a statement of add")
            r = f"r{self.nbind}"
            self.nbind += 1
            self.binds.append((r, "get_n_step_info n_step gamma buf"))
            return r, TD, True
        if isinstance(f, ast.Attribute) and not self_attr(f) and not is_super(f.value):
            m = f.attr
            t, ty, fresh = self.ex(f.value)
            if m == "clone" and not n.args and ty in (TD, TRAT, TNAT, TBOOL):
                return t, ty, True
            if m == "to" and len(n.args) == 1 and self_attr(n.args[0], "device") and ty in (TD, TRAT, TNAT, TBOOL):
                return t, ty, fresh
            if m == "bool" and not n.args and ty == TBOOL:
                return t, ty, fresh
            if m in ("any", "all") and not n.args and ty == TBOOL:
                return par(f"{'tAny' if m == 'any' else 'tAll'} {t}"), BOOL, True
            fail(n, f"method .{m}(…) on a value of type {ty}")
        fail(n, "call of " + ast.unparse(f))

    def with_binds(self, build) -> list[str]:
        saved, self.binds = self.binds, ([] if not self.in_loop else None)
        lines = build()
        binds, self.binds = self.binds or [], saved
        for r, txt in reversed(binds):
            lines = [f"match {txt} with", "| none => none", f"| some {r} =>"] + ind(lines)
        return lines

    # ---------------- statements
    def result(self, ret: str) -> list[str]:
        return [f"some {{ buf := buf, stored := {self.stored}, ret := {ret} }}"]

    def end_of_method(self) -> list[str]:
        if self.kind == "info":
            fail(self.fn, "_get_n_step_info: a path reaches the end without `return <transition>`")
        return self.result("none")

    def exits(self, stmts) -> bool:
        if not stmts:
            return False
        last = stmts[-1]
        if isinstance(last, (ast.Return, ast.Break, ast.Continue)):
            return True
        if isinstance(last, ast.If):
            return self.exits(last.body) and self.exits(last.orelse)
        return False

    def snapshot(self):
        return dict(self.types), set(self.fresh), self.stored

    def restore(self, s):
        self.types, self.fresh, self.stored = dict(s[0]), set(s[1]), s[2]

    def bind_local(self, st, name: str, txt: str, ty: str, fresh: bool) -> str:
        if name in self.loop_targets:
            fail(st, f"assignment to the loop variable {name}")
        if ty == BOOL:
            fail(st, "boolean local variable")
        if ty == NUM:
            ty = self.types.get(name, INT)
            if ty == RAT:
                txt = f"({txt} : Rat)"
        if name in self.types and self.types[name] != ty:
            fail(st, f"variable {name} changes its type ({self.types[name]} -> {ty})")
        self.types[name] = ty
        (self.fresh.add if fresh else self.fresh.discard)(name)
        return f"let {self.canon[name]} : {LEAN_TY[ty]} := {txt}"

    def block(self, stmts, k) -> list[str]:
        if not stmts:
            return k()
        st, rest = stmts[0], stmts[1:]
        cont = lambda: self.block(rest, k)                      # noqa: E731
        if is_docstring(st):
            return cont()
        if isinstance(st, ast.AnnAssign):
            if st.value is None or not isinstance(st.target, ast.Name):
                fail(st, "annotation without a value / on a non-local")
            st = ast.copy_location(ast.Assign(targets=[st.target], value=st.value), st)
        if isinstance(st, ast.AugAssign):
            if not isinstance(st.target, ast.Name):
                fail(st, "augmented assignment to other than a local variable")
            x = st.target.id
            if self.types.get(x) in (TRAT, TNAT, TBOOL, TD) and x not in self.fresh:
                fail(st, f"in-place `{x} op= …` on a tensor that may alias a row of the deque (no .clone() before)")
            load = ast.copy_location(ast.Name(id=x, ctx=ast.Load()), st)
            st = ast.copy_location(ast.Assign(targets=[st.target], value=ast.copy_location(
                ast.BinOp(left=load, op=st.op, right=st.value), st)), st)
        if isinstance(st, ast.Assign):
            if len(st.targets) != 1:
                fail(st, "chained assignment")
            tg = st.targets[0]
            if isinstance(tg, ast.Name):
                def build():
                    txt, ty, fresh = self.ex(st.value, top=True)
                    return [self.bind_local(st, tg.id, txt, ty, fresh)] + cont()
                return self.with_binds(build)
            if isinstance(tg, ast.Subscript) and isinstance(tg.value, ast.Name):
                x = tg.value.id
                def build():
                    if self.types.get(x) != TD:
                        fail(st, f"item assignment on {x} (not a transition)")
                    if x not in self.fresh:
                        fail(st, f"`{x}[…] = …` where {x} may alias a row of the deque (no .clone() before)")
                    key = self.key_of(tg.slice)
                    v, tv, _ = self.ex(st.value, top=True)
                    if tv != FIELDS[key]:
                        fail(st, f"`{x}[{key!r}] = <{tv}>` (the field holds {FIELDS[key]})")
                    return [f"let {self.canon[x]} : TD := {{ {self.canon[x]} with {key} := {v} }}"] + cont()
                return self.with_binds(build)
            fail(st, f"assignment to {ast.unparse(tg)}")
        if isinstance(st, ast.Expr) and isinstance(st.value, ast.Call):
            c = st.value
            f = c.func
            if isinstance(f, ast.Attribute) and f.attr == "append" and self_attr(f.value, "n_step_buffer"):
                if self.kind != "add" or self.in_loop or len(c.args) != 1 or c.keywords:
                    fail(st, "self.n_step_buffer.append(…) outside the straight-line part of add")
                def build():
                    v, tv, _ = self.ex(c.args[0])
                    if tv != TD:
                        fail(st, f"append of a value of type {tv}")
                    return [f"let buf : List TD := dequeAppend {self.tr.maxlen_text()} buf {v}"] + cont()
                return self.with_binds(build)
            if isinstance(f, ast.Attribute) and f.attr == "add" and is_super(f.value):
                if self.kind != "add" or self.in_loop or len(c.args) != 1 or c.keywords:
                    fail(st, "super().add(…) outside the straight-line part of add")
                if self.stored != "none":
                    fail(st, "second super().add(…) on one path")
                def build():
                    v, tv, _ = self.ex(c.args[0])
                    if tv != TD:
                        fail(st, f"super().add of a value of type {tv}")
                    self.stored = f"some {v}"
                    return cont()
                return self.with_binds(build)
            fail(st, f"expression statement {ast.unparse(c.func)}(…)")
        if isinstance(st, ast.Return):
            if rest:
                fail(rest[0], "statement after return")
            if self.in_loop:
                fail(st, "return inside for")
            if st.value is None or (isinstance(st.value, ast.Constant) and st.value.value is None):
                if self.kind == "info":
                    fail(st, "_get_n_step_info returns None")
                return self.result("none")
            def build():
                v, tv, _ = self.ex(st.value)
                if tv != TD:
                    fail(st, f"return of a value of type {tv}")
                return [f"some {v}"] if self.kind == "info" else self.result(f"some {v}")
            return self.with_binds(build)
        if isinstance(st, ast.Break) or isinstance(st, ast.Continue):
            if not self.in_loop:
                fail(st, "break / continue outside for")
            if rest:
                fail(rest[0], "statement after break / continue")
            return self.loop_exit[0 if isinstance(st, ast.Break) else 1]()
        if isinstance(st, ast.If):
            if self.is_discovery(st):
                if self.kind != "info" or self.in_loop:
                    fail(st, "key-discovery block outside the straight-line part of _get_n_step_info")
                self.discover(st)
                return cont()
            def build():
                c, ty, _ = self.ex(st.test, top=True)
                if ty != BOOL:
                    fail(st, f"if <{ty}>")
                snap = self.snapshot()
                if self.exits(st.body):
                    a = self.block(st.body, k)
                    self.restore(snap)
                    b = self.block(list(st.orelse) + list(rest), k)
                elif self.exits(st.orelse):
                    b = self.block(st.orelse, k)
                    self.restore(snap)
                    a = self.block(list(st.body) + list(rest), k)
                elif not rest:
                    a = self.block(st.body, k)
                    self.restore(snap)
                    b = self.block(st.orelse, k)
                else:
                    fail(st, "if (followed by statements) none of whose branches ends in return / break / continue")
                return [f"if {c} then"] + ind(a) + ["else"] + ind(b)
            return self.with_binds(build)
        if isinstance(st, ast.For):
            return self.for_loop(st, rest, k)
        fail(st, type(st).__name__)

    # ---------------- for
    def assigned(self, stmts) -> list[str]:
        out = []
        for s in stmts:
            for n in ast.walk(s):
                tg = []
                if isinstance(n, ast.Assign):
                    tg = n.targets
                elif isinstance(n, (ast.AugAssign, ast.AnnAssign)):
                    tg = [n.target]
                for t in tg:
                    if isinstance(t, ast.Subscript):
                        t = t.value
                    if isinstance(t, ast.Name) and t.id not in out:
                        out.append(t.id)
        return out

    def for_loop(self, st: ast.For, rest, k) -> list[str]:
        if self.in_loop:
            fail(st, "nested for")
        if st.orelse:
            fail(st, "for … else")
        for n in ast.walk(st):
            if isinstance(n, (ast.Return, ast.While)) or (isinstance(n, ast.For) and n is not st):
                fail(n, f"{type(n).__name__.lower()} inside for")
        it, counter, start = st.iter, None, "0"
        if isinstance(it, ast.Call) and isinstance(it.func, ast.Name) and it.func.id == "enumerate":
            args = list(it.args)
            kw = {x.arg: x.value for x in it.keywords}
            if not (1 <= len(args) <= 2) or set(kw) - {"start"} or (len(args) == 2 and kw):
                fail(it, "arguments of enumerate")
            s = args[1] if len(args) == 2 else kw.get("start")
            if s is not None:
                start = self.idx(s)
            if not (isinstance(st.target, ast.Tuple) and len(st.target.elts) == 2
                    and all(isinstance(e, ast.Name) for e in st.target.elts)):
                fail(st, "target of `for … in enumerate(…)` other than `i, x`")
            counter, elem = st.target.elts[0].id, st.target.elts[1].id
            it = args[0]
        elif isinstance(st.target, ast.Name):
            elem = st.target.id
        else:
            fail(st, "for target")
        if counter == elem:
            fail(st, "for target uses one name twice")
        for x in (counter, elem):
            if x is not None and x in self.types:
                fail(st, f"loop variable {x} re-uses a name that is already defined")

        def build():
            seq, ty, _ = self.ex(it)
            if ty != DEQUE:
                fail(st, f"for over a value of type {ty}")
            assigned = self.assigned(st.body)
            carried = sorted([x for x in assigned if x in self.types],
                             key=lambda x: (self.canon[x][0], int(self.canon[x][1:])))
            if not carried:
                fail(st, "for loop that assigns no variable defined before it")
            for x in carried:
                if x in (p for p in self.canon if self.canon[p].startswith("a")):
                    fail(st, f"for loop assigns the parameter {x}")
            reads = {n.id for s in st.body for n in ast.walk(s) if isinstance(n, ast.Name)}
            extra = sorted([x for x in reads if x in self.types and x not in carried],
                           key=lambda x: (self.canon[x][0], int(self.canon[x][1:])))
            uses_buf = any(self_attr(n, "n_step_buffer") for s in st.body for n in ast.walk(s))
            name = f"{self.lean}_loop{self.nloop}"
            self.nloop += 1
            fixed = "(n_step : Nat) (gamma : Rat)" + (" (buf : List TD)" if uses_buf else "") \
                + "".join(f" ({self.canon[x]} : {LEAN_TY[self.types[x]]})" for x in extra)
            fixed_args = "n_step gamma" + (" buf" if uses_buf else "") + "".join(f" {self.canon[x]}" for x in extra)
            cnames = [self.canon[x] for x in carried]
            ctys = [LEAN_TY[self.types[x]] for x in carried]
            tup = cnames[0] if len(cnames) == 1 else "(" + ", ".join(cnames) + ")"
            out_ty = ctys[0] if len(ctys) == 1 else " × ".join(ctys)
            cn = self.canon[counter] if counter else None
            en = self.canon[elem]
            pats = ([cn] if cn else []) + ["{}"] + cnames
            rec_call = f"{name} {fixed_args}" + (f" ({cn} + 1)" if cn else "") + " xs" + "".join(f" {c}" for c in cnames)
            snap = self.snapshot()
            if counter:
                self.types[counter] = INT
            self.types[elem] = TD
            self.fresh.discard(elem)
            self.in_loop, self.loop_exit = True, (lambda: [tup], lambda: [rec_call])
            self.loop_targets = {x for x in (counter, elem) if x}
            saved_binds, self.binds = self.binds, None
            body = self.block([s for s in st.body if not is_docstring(s)], lambda: [rec_call])
            self.binds = saved_binds
            self.in_loop, self.loop_exit, self.loop_targets = False, None, set()
            fresh_after = set(self.fresh)
            self.restore(snap)
            for x in carried:                                  # freshness as left by the body (conservative)
                if x not in fresh_after:
                    self.fresh.discard(x)
            arrow = " → ".join((["Nat"] if cn else []) + ["List TD"] + ctys + [out_ty])
            self.loop_defs += [
                f"/-- the `for` loop of `{CLASS}.{self.fn.name}` at source line {st.lineno}"
                f" (`break` = stop with the current values) -/",
                f"def {name} {fixed} : {arrow}",
                "  | " + ", ".join(p.format("[]") for p in pats) + f" => {tup}",
                "  | " + ", ".join(p.format(f"{en} :: xs") for p in pats) + " =>",
            ] + ind(body, 4) + [""]
            call = f"{name} {fixed_args}" + (f" {start}" if cn else "") + f" {seq}" + "".join(f" {c}" for c in cnames)
            if len(carried) == 1:
                lines = [f"let {cnames[0]} : {ctys[0]} := {call}"]
            else:
                l = f"l{self.nloop - 1}"
                lines = [f"let {l} := {call}"]
                for j, (c, t) in enumerate(zip(cnames, ctys)):
                    proj = l + ".2" * j + (".1" if j < len(cnames) - 1 else "")
                    lines.append(f"let {c} : {t} := {proj}")
            return lines + self.block(rest, k)
        return self.with_binds(build)


# ----------------------------------------------------------------------------------------------
def repo_dir(arg: str | None = None) -> Path:
    if arg:
        return Path(arg)
    return Path(os.environ.get("VERIF_REPO", "/repo"))


def translate(repo: Path) -> tuple[str, str]:
    """returns (lean text, sha256 of the source); raises Unsupported"""
    path = Path(repo) / REL_SOURCE
    try:
        raw = path.read_bytes()
    except OSError as e:
        raise Unsupported(f"cannot read {path}: {e}") from e
    sha = hashlib.sha256(raw).hexdigest()
    try:
        body = Translator(raw.decode("utf-8")).run()
    except SyntaxError as e:
        raise Unsupported(f"{REL_SOURCE}:{e.lineno}: not parseable: {e.msg}") from e
    header = "\n".join([
        "/-",
        "  Gen/NStepGen.lean — GENERATED by harness/py2lean_nstep.py from",
        f"  {REL_SOURCE} (class {CLASS}: add, _get_n_step_info); do not edit.  Core Lean only.",
        "  `Proofs/NStepGenEq.lean` proves the definitions equal to their counterparts in `Model/NStep.lean`.",
        "-/",
        SHA_PREFIX + sha,
        "set_option linter.unusedVariables false",
        "",
    ])
    return header + "\n" + body, sha


def strip_sha(text: str) -> str:
    return "\n".join(ln for ln in text.split("\n") if not ln.startswith(SHA_PREFIX))


def write_if_changed(text: str, out: Path, force: bool = False) -> bool:
    """writes `text` unless the file already holds the same translation (sha line ignored)"""
    out = Path(out)
    old = out.read_text() if out.exists() else None
    if old is not None and not force and strip_sha(old) == strip_sha(text):
        return False
    if old == text:
        return False
    out.parent.mkdir(parents=True, exist_ok=True)
    tmp = out.with_suffix(".lean.tmp")
    tmp.write_text(text)
    os.replace(tmp, out)
    return True


def main(argv: list[str]) -> int:
    import argparse
    ap = argparse.ArgumentParser()
    ap.add_argument("--repo", default=None)
    ap.add_argument("--out", default=str(DEFAULT_OUT))
    ap.add_argument("--stdout", action="store_true")
    ap.add_argument("--force", action="store_true", help="rewrite even if only the sha256 line differs")
    a = ap.parse_args(argv)
    try:
        text, sha = translate(repo_dir(a.repo))
    except Unsupported as e:
        print(f"py2lean_nstep: {e}", file=sys.stderr)
        return 1
    if a.stdout:
        sys.stdout.write(text)
        return 0
    changed = write_if_changed(text, Path(a.out), a.force)
    print(f"{a.out}: {'written' if changed else 'unchanged'} (source sha256 {sha[:16]}…, "
          f"translation sha256 {hashlib.sha256(strip_sha(text).encode()).hexdigest()[:16]}…)")
    return 0


if __name__ == "__main__":
    sys.exit(main(sys.argv[1:]))
