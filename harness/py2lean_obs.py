#!/usr/bin/env python3
"""
py2lean_obs.py — translate the SHAPE LOGIC of observation handling in
REPO/agilerl/utils/algo_utils.py into Lean 4:

    obs_channels_to_first, obs_to_tensor, maybe_add_batch_dim, get_vect_dim, preprocess_observation

    python3 harness/py2lean_obs.py [--repo DIR] [--out FILE] [--stdout] [--force]

Reads the *source text* only (Python `ast`; agilerl, numpy, torch, gymnasium are never imported) and writes
lean/Gen/ObsGen.lean (namespace ObsGen, core Lean only, imports nothing).  `Proofs/ObsGenEq.lean` proves the
generated definitions equal to the shape projection of the hand-written model `Model/Obs.lean`
(`maybeAddBatchDim`, `getVectDim`, `getVectDimAll`, `preprocess`, `preprocessAll`), and `Props/C15.lean`
restates the C15 shape theorems over the generated definitions (`C15_source_translation_*`), so they are
re-checked against what the code says now.

Abstraction (the fixed prelude of the generated file).  An observation is abstracted to its container and
SHAPE, a space to its kind, parameters and children — values (one-hot contents, scaled pixels) are cut here:

    inductive Obs   | arr (kind : ndarray | tensor | number) (shape : List Nat)
                    | dict (td : Bool) (items : List (String × Obs))      -- td: a TensorDict
                    | tuple (items : List Obs)
    inductive Space | box shape | discrete n | multiDiscrete nvec | multiBinary n
                    | dict members | tuple members | other shape          -- other: any further space class

Every function returns `Except Exn _`; `Exn` tags the exception: `raised "<Class>"` for a `raise Class(…)` of
the translated source (the class name flows from the AST), `assertion` for a failed `assert`, `attribute` /
`index` / `reshape` / `cat` for what numpy / torch / Python raise inside the prelude operations, `fuel` for a
recursion deeper than the fuel given (self-recursive functions get a leading `fuel : Nat` parameter and
recurse structurally on it; every recursive call passes `fuel`).

What is read of the file: the five `def`s named above (module level, exactly one each, no decorators).  The
types of their parameters come from the annotations: `NumpyObsType` / `ObservationType` / `TorchObsType` /
`ArrayOrTensor` → `Obs`; `spaces.Space` / `spaces.Box` → `Space`; `Tuple[int, ...]` → `List Nat`; `bool` →
`Bool`; `int` → `Nat`; `Union[str, torch.device]` → a device (erased: shapes do not depend on it; the
parameter is dropped from the generated signature).  Arguments of calls between the translated functions are
matched to the callee's parameters by position / keyword / default as Python does.

Supported subset (anything else raises `Unsupported` naming the construct and its line):
  * statements: docstring; `x = e` / `x: T = e`; `a, b = e` for a pair-valued `e`; `d = {}` followed (not
    necessarily immediately) by `for <targets> in <iterable>: d[k] = e` (the loop body is exactly one item
    assignment; → the prelude's `compM`, a structural recursion that stops at the first exception; the
    items are appended in iteration order); `assert e[, msg]`; `raise Class(...)`; `return e` (tail
    position); `if / elif / else` — either a branch returns / raises and the rest of the function is the
    other branch, or the statement is followed by others and its branches only assign (or raise): the
    variables assigned in a branch are joined (`let (x, y) ← if c then do …; pure (x, y) else …`), a
    variable that is new after the `if` must be assigned on every path that does not raise.
  * conditions: comparisons `== != < <= > >=` of numbers (also chained) and `==` / `!=` of shapes;
    `and` / `or` / `not`; a `bool` variable; `isinstance(x, C)` / `isinstance(x, (C1, C2))` for an
    observation (`np.ndarray`, `torch.Tensor`, `TensorDict`, `dict`, `tuple`, `Number`) or a space
    (`spaces.{Box, Discrete, MultiDiscrete, MultiBinary, Dict, Tuple}`) — an unknown class is rejected.
    `isinstance` chains stay `if … else if …` in source order.
  * expressions: int literals (natural numbers; a negative literal only as the axis / leading size of the
    calls below), names, `+` and `*` of numbers, `len(e)`, `sum(e)`, `int(e)`, tuple displays of numbers
    (`(n,)` → `[n]`), `a if c else b`, `x.shape`, `x.ndim`, `np.shape(x)`, `s[i]`, `space.n`, `space.nvec`,
    `space.spaces`, `space[key]`, `space[i]`, `obs[i]`, `x.items()`, `next(iter(e))`, `zip(a, b)`,
    `enumerate(e)`, list / dict comprehensions and `tuple(<generator>)` with one `for` and no `if`
    (→ `compM`), calls of the five translated functions, of `apply_image_normalization` (NOT translated: its
    tests read the bounds' values; prelude: identity on the shape, `TypeError` unless the space is a Box),
    and the numpy / torch operations listed below.  Operations that can raise are bound in evaluation order
    (`let r ← op …`); an operation already bound in the same statement on the same operands is reused.
    `a if <test on the device> else b` is accepted only when both branches translate to the same text.
  * numpy / torch operations (prelude; each is a total function on shapes that returns the exception):
    `np.expand_dims(x, k)` / `x.unsqueeze(k)` (insert a dimension of size 1 at axis `k`, negative axes count
    from the end; `unsqueeze` is a tensor method: `attribute` on an ndarray), `x.reshape(l, *shape)` (`l = -1`
    infers the size: `reshape` when the element count is not divisible or the rest has no elements),
    `x.squeeze()`, `x.long()` / `x.float()` (identity on tensors), `x.to(device)` (identity, cannot raise), `torch.as_tensor(x, device=…)`
    / `torch.tensor(x, device=…)` (array or number → tensor of the same shape), `F.one_hot(x, num_classes=n)`
    (appends a dimension `n`; the VALUE check `0 ≤ v < n` is cut), `torch.split(x, k, dim=d)`,
    `torch.cat(xs, dim=-1)`, `np.moveaxis(x, a, b)`.

Assumptions (listed again in the header of the generated file): shapes do not depend on device / dtype;
element-wise arithmetic keeps the shape (normalisation); the keys of a dict observation are distinct; numpy
scalars count as Python numbers; `np.shape` of a dict / tuple observation and `.shape` of a TensorDict are
outside the model (`attribute`).

Shape of the output: one `def f [fuel] <params> : Except Exn R` per function, in source order, `do` notation.
Parameters keep their Python names (they are keywords of the API); locals are renamed canonically `v0, v1, …`
in order of first binding, bound operations `r0, r1, …`.  The header carries the sha256 of the source file;
`write_if_changed` compares everything *but* that line, so an edit of algo_utils.py outside the translated
functions does not touch the file.
"""
from __future__ import annotations

import ast
import hashlib
import os
import sys
from pathlib import Path

HERE = Path(__file__).resolve().parent
DEFAULT_OUT = HERE.parent / "lean" / "Gen" / "ObsGen.lean"
REL_SOURCE = "agilerl/utils/algo_utils.py"
SHA_PREFIX = "-- sha256(source) = "

TARGETS = ["obs_channels_to_first", "obs_to_tensor", "maybe_add_batch_dim", "get_vect_dim",
           "preprocess_observation"]


class Unsupported(Exception):
    pass


class Opaque(Exception):
    """a condition that reads the device (erased)"""


def fail(node, what: str):
    line = getattr(node, "lineno", "?")
    raise Unsupported(f"{REL_SOURCE}:{line}: unsupported construct: {what}")


# types
OBS, SPACE, SHAPE, NAT, BOOL, DEV, STR, ACC = "obs", "space", "shape", "nat", "bool", "dev", "str", "acc"


def LIST(t):
    return ("list", t)


def PAIR(a, b):
    return ("pair", a, b)


def lean_ty(t, atom=False) -> str:
    if t == OBS:
        return "Obs"
    if t == SPACE:
        return "Space"
    if t == SHAPE:
        return "List Nat" if not atom else "(List Nat)"
    if t == NAT:
        return "Nat"
    if t == BOOL:
        return "Bool"
    if t == STR:
        return "String"
    if t == ACC:
        s = "List (String × Obs)"
    elif isinstance(t, tuple) and t[0] == "list":
        s = "List " + lean_ty(t[1], True)
    elif isinstance(t, tuple) and t[0] == "pair":
        s = lean_ty(t[1], True) + " × " + lean_ty(t[2], True)
    else:
        raise Unsupported(f"{REL_SOURCE}: no Lean type for {t!r}")
    return f"({s})" if atom else s


OBS_ANN = ("NumpyObsType", "ObservationType", "TorchObsType", "ArrayOrTensor")
OBS_CLASSES = {"np.ndarray": "ndarray", "numpy.ndarray": "ndarray", "torch.Tensor": "tensor",
               "TensorDict": "tensorDict", "dict": "dict", "tuple": "tuple", "Number": "number"}
SPACE_CLASSES = {"spaces.Box": "box", "spaces.Discrete": "discrete", "spaces.MultiDiscrete": "multiDiscrete",
                 "spaces.MultiBinary": "multiBinary", "spaces.Dict": "dict", "spaces.Tuple": "tuple"}
CMPOPS = {ast.Eq: "=", ast.NotEq: "≠", ast.Lt: "<", ast.LtE: "≤", ast.Gt: ">", ast.GtE: "≥"}

PRELUDE = r'''
namespace ObsGen

/-- what `isinstance(obs, np.ndarray)` / `torch.Tensor` / `Number` distinguishes -/
inductive ArrKind where
  | ndarray | tensor | number
deriving DecidableEq, Repr

/-- the exception a call ends with -/
inductive Exn where
  | raised (cls : String)   -- `raise cls(...)` in the translated source (or the named class, from numpy / torch)
  | assertion               -- a failed `assert`
  | attribute               -- the object has no such attribute / method / item access
  | index                   -- IndexError / KeyError / StopIteration
  | reshape                 -- `reshape` impossible (element count)
  | cat                     -- `torch.split` / `torch.cat` operands do not line up
  | fuel                    -- recursion deeper than the fuel given
deriving DecidableEq, Repr

/-- an observation, abstracted to container and shape (`td`: a TensorDict) -/
inductive Obs where
  | arr (kind : ArrKind) (shape : List Nat)
  | dict (td : Bool) (items : List (String × Obs))
  | tuple (items : List Obs)

/-- a gymnasium space, abstracted to kind, parameters and children (`other`: any further class) -/
inductive Space where
  | box (shape : List Nat)
  | discrete (n : Nat)
  | multiDiscrete (nvec : List Nat)
  | multiBinary (n : Nat)
  | dict (members : List (String × Space))
  | tuple (members : List Space)
  | other (shape : List Nat)

inductive ObsCls where
  | ndarray | tensor | tensorDict | dict | tuple | number

inductive SpaceCls where
  | box | discrete | multiDiscrete | multiBinary | dict | tuple

def Obs.isinstance : Obs → ObsCls → Bool
  | .arr .ndarray _, .ndarray => true
  | .arr .tensor _, .tensor => true
  | .arr .number _, .number => true
  | .dict true _, .tensorDict => true
  | .dict false _, .dict => true
  | .tuple _, .tuple => true
  | _, _ => false

def Space.isinstance : Space → SpaceCls → Bool
  | .box _, .box => true
  | .discrete _, .discrete => true
  | .multiDiscrete _, .multiDiscrete => true
  | .multiBinary _, .multiBinary => true
  | .dict _, .dict => true
  | .tuple _, .tuple => true
  | _, _ => false

/-- number of elements of a shape -/
def numel : List Nat → Nat
  | [] => 1
  | d :: r => d * numel r

/-- a comprehension / loop whose element expression can raise: stops at the first exception -/
def compM {α β : Type} (f : α → Except Exn β) : List α → Except Exn (List β)
  | [] => .ok []
  | x :: r =>
    match f x with
    | .error e => .error e
    | .ok y =>
      match compM f r with
      | .error e => .error e
      | .ok ys => .ok (y :: ys)

/-- `l[i]` for a natural `i` -/
def pyIndex {α : Type} (l : List α) (i : Nat) : Except Exn α :=
  match l[i]? with
  | some x => .ok x
  | none => .error .index

/-- `next(iter(l))` -/
def pyFirst {α : Type} : List α → Except Exn α
  | [] => .error .index
  | x :: _ => .ok x

def pyEnumerateFrom {α : Type} : Nat → List α → List (Nat × α)
  | _, [] => []
  | i, x :: r => (i, x) :: pyEnumerateFrom (i + 1) r

/-- `enumerate(l)` -/
def pyEnumerate {α : Type} (l : List α) : List (Nat × α) := pyEnumerateFrom 0 l

/-- `d[key]` -/
def pyLookup {α : Type} (key : String) : List (String × α) → Except Exn α
  | [] => .error .index
  | (k, v) :: r => if k = key then .ok v else pyLookup key r

/-- `x.shape` (ndarray / tensor; a Python number has no such attribute) -/
def Obs.shape : Obs → Except Exn (List Nat)
  | .arr .ndarray s => .ok s
  | .arr .tensor s => .ok s
  | _ => .error .attribute

/-- `np.shape(x)` (arrays and numbers) -/
def Obs.npShape : Obs → Except Exn (List Nat)
  | .arr _ s => .ok s
  | _ => .error .attribute

/-- `x.ndim` -/
def Obs.ndim (o : Obs) : Except Exn Nat :=
  match Obs.shape o with
  | .ok s => .ok s.length
  | .error e => .error e

/-- `x.items()` of a dict / TensorDict -/
def Obs.items : Obs → Except Exn (List (String × Obs))
  | .dict _ items => .ok items
  | _ => .error .attribute

/-- iterating a tuple observation -/
def Obs.iter : Obs → Except Exn (List Obs)
  | .tuple items => .ok items
  | _ => .error .attribute

/-- `x[i]`: member `i` of a tuple, row `i` of an array -/
def Obs.getIndex : Obs → Nat → Except Exn Obs
  | .tuple items, i => pyIndex items i
  | .arr .number _, _ => .error .attribute
  | .arr k (d :: s), i => if i < d then .ok (.arr k s) else .error .index
  | _, _ => .error .index

/-- insert a dimension of size 1 at axis `k` (Python axis semantics) -/
def insertDim (s : List Nat) (k : Int) : Option (List Nat) :=
  let pos : Int := if k < 0 then k + (s.length : Int) + 1 else k
  if 0 ≤ pos ∧ pos ≤ (s.length : Int) then some (s.take pos.toNat ++ 1 :: s.drop pos.toNat) else none

/-- `x.unsqueeze(k)` (a tensor method) -/
def Obs.unsqueeze : Obs → Int → Except Exn Obs
  | .arr .tensor s, k =>
    match insertDim s k with
    | some s' => .ok (.arr .tensor s')
    | none => .error .index
  | _, _ => .error .attribute

/-- `np.expand_dims(x, k)` (the result is an ndarray) -/
def Obs.expandDims : Obs → Int → Except Exn Obs
  | .arr _ s, k =>
    match insertDim s k with
    | some s' => .ok (.arr .ndarray s')
    | none => .error .index
  | _, _ => .error .attribute

/-- the shape `x.reshape(lead, *rest)` gives; `lead = -1` is inferred -/
def pyReshapeLead (s : List Nat) (lead : Int) (rest : List Nat) : Option (List Nat) :=
  if lead = -1 then
    if numel rest = 0 ∨ numel s % numel rest ≠ 0 then none else some (numel s / numel rest :: rest)
  else if lead < 0 then none
  else if lead.toNat * numel rest = numel s then some (lead.toNat :: rest) else none

/-- `x.reshape(lead, *rest)` (ndarray / tensor) -/
def Obs.reshape : Obs → Int → List Nat → Except Exn Obs
  | .arr .number _, _, _ => .error .attribute
  | .arr k s, lead, rest =>
    match pyReshapeLead s lead rest with
    | some s' => .ok (.arr k s')
    | none => .error .reshape
  | _, _, _ => .error .attribute

/-- `x.squeeze()`: drop every dimension of size one -/
def Obs.squeeze : Obs → Except Exn Obs
  | .arr .number _ => .error .attribute
  | .arr k s => .ok (.arr k (s.filter (· ≠ 1)))
  | _ => .error .attribute

/-- `x.long()` / `x.float()` (tensor methods; identity on the shape) -/
def Obs.long : Obs → Except Exn Obs
  | .arr .tensor s => .ok (.arr .tensor s)
  | _ => .error .attribute

def Obs.float : Obs → Except Exn Obs
  | .arr .tensor s => .ok (.arr .tensor s)
  | _ => .error .attribute

/-- `torch.as_tensor(x)` / `torch.tensor(x)`: array or number → tensor of the same shape -/
def Obs.asTensor : Obs → Except Exn Obs
  | .arr _ s => .ok (.arr .tensor s)
  | _ => .error (.raised "RuntimeError")

/-- `F.one_hot(x, num_classes = n)`: appends a dimension of size `n` (value check cut) -/
def Obs.one_hot : Obs → Nat → Except Exn Obs
  | .arr .tensor s, n => .ok (.arr .tensor (s ++ [n]))
  | _, _ => .error .attribute

/-- sizes of the pieces of `torch.split` of a dimension of size `n` in chunks of `k` -/
def splitSizes (n k : Nat) : List Nat :=
  List.replicate (n / k) k ++ (if n % k = 0 then [] else [n % k])

/-- `torch.split(x, k, dim = d)` -/
def Obs.split : Obs → Nat → Nat → Except Exn (List Obs)
  | .arr .tensor s, k, d =>
    if k = 0 ∨ s.length ≤ d then .error .cat
    else .ok ((splitSizes (s.getD d 0) k).map (fun z => .arr .tensor (s.set d z)))
  | _, _, _ => .error .attribute

def catLastAux (init : List Nat) : List Obs → Option Nat
  | [] => some 0
  | .arr .tensor s :: r =>
    if s ≠ [] ∧ s.dropLast = init then (catLastAux init r).map (s.getLastD 0 + ·) else none
  | _ :: _ => none

/-- `torch.cat(xs, dim = -1)`: all dimensions but the last agree; the last ones add up -/
def Obs.catLast : List Obs → Except Exn Obs
  | [] => .error .cat
  | .arr .tensor s :: r =>
    match catLastAux s.dropLast (.arr .tensor s :: r) with
    | some n => .ok (.arr .tensor (s.dropLast ++ [n]))
    | none => .error .cat
  | _ :: _ => .error .cat

/-- resolve a Python axis -/
def pyAxis (rank : Nat) (a : Int) : Option Nat :=
  let p : Int := if a < 0 then a + (rank : Int) else a
  if 0 ≤ p ∧ p < (rank : Int) then some p.toNat else none

/-- `np.moveaxis(x, src, dst)` -/
def Obs.moveaxis : Obs → Int → Int → Except Exn Obs
  | .arr .number _, _, _ => .error .attribute
  | .arr k s, src, dst =>
    match pyAxis s.length src, pyAxis s.length dst with
    | some i, some j =>
      let rest := s.eraseIdx i
      .ok (.arr k (rest.take j ++ s.getD i 0 :: rest.drop j))
    | _, _ => .error .index
  | _, _, _ => .error .attribute

/-- `space.shape` (`None` for Dict / Tuple: `len(None)` raises) -/
def Space.shape : Space → Except Exn (List Nat)
  | .box p => .ok p
  | .discrete _ => .ok []
  | .multiDiscrete nv => .ok [nv.length]
  | .multiBinary n => .ok [n]
  | .other p => .ok p
  | _ => .error .attribute

/-- `space.n` -/
def Space.n : Space → Except Exn Nat
  | .discrete n => .ok n
  | .multiBinary n => .ok n
  | _ => .error .attribute

/-- `space.nvec` -/
def Space.nvec : Space → Except Exn (List Nat)
  | .multiDiscrete nv => .ok nv
  | _ => .error .attribute

/-- `space.spaces` (of a Tuple space) -/
def Space.spaces : Space → Except Exn (List Space)
  | .tuple ms => .ok ms
  | _ => .error .attribute

/-- `space[key]` (Dict space) -/
def Space.getItem : Space → String → Except Exn Space
  | .dict ms, key => pyLookup key ms
  | _, _ => .error .attribute

/-- `space[i]` (Tuple space) -/
def Space.getIndex : Space → Nat → Except Exn Space
  | .tuple ms, i => pyIndex ms i
  | _, _ => .error .attribute

/-- `apply_image_normalization(observation, space)` — NOT translated (its tests read the bounds' values):
    element-wise min-max scaling or bypass, identity on the shape; `TypeError` unless the space is a Box -/
def apply_image_normalization (observation : Obs) (observation_space : Space) : Except Exn Obs :=
  if Space.isinstance observation_space .box = true then .ok observation else .error (.raised "TypeError")
'''


def ind(lines, n: int = 2):
    return [" " * n + ln for ln in lines]


def is_docstring(st) -> bool:
    return isinstance(st, ast.Expr) and isinstance(st.value, ast.Constant) and isinstance(st.value.value, str)


def dotted(n) -> str | None:
    """`a.b.c` → "a.b.c" """
    parts = []
    while isinstance(n, ast.Attribute):
        parts.append(n.attr)
        n = n.value
    if isinstance(n, ast.Name):
        parts.append(n.id)
        return ".".join(reversed(parts))
    return None


def int_literal(n) -> int | None:
    if isinstance(n, ast.Constant) and type(n.value) is int:
        return n.value
    if isinstance(n, ast.UnaryOp) and isinstance(n.op, ast.USub) and isinstance(n.operand, ast.Constant) \
            and type(n.operand.value) is int:
        return -n.operand.value
    return None


def lean_int(k: int) -> str:
    return str(k) if k >= 0 else f"({k})"


# ----------------------------------------------------------------------------------------------
class FuncSpec:
    """signature of a translated function, read from its `def`"""

    def __init__(self, fn: ast.FunctionDef):
        self.fn, self.name = fn, fn.name
        if fn.decorator_list:
            fail(fn, f"decorator on {fn.name}")
        a = fn.args
        if a.vararg or a.kwarg or a.kwonlyargs or a.posonlyargs:
            fail(fn, f"*args / **kwargs / keyword-only / positional-only parameters of {fn.name}")
        self.params: list[tuple[str, object]] = []
        self.defaults: dict[str, ast.expr] = {}
        for arg in a.args:
            self.params.append((arg.arg, self.ann_type(arg)))
        for arg, d in zip(a.args[len(a.args) - len(a.defaults):], a.defaults):
            self.defaults[arg.arg] = d
        self.recursive = any(isinstance(n, ast.Call) and isinstance(n.func, ast.Name) and n.func.id == fn.name
                             for n in ast.walk(fn))
        self.ret = None          # filled by the translation of the body

    def ann_type(self, arg: ast.arg):
        a = arg.annotation
        if a is None:
            fail(arg, f"parameter {arg.arg} of {self.name} without annotation")
        d = dotted(a)
        if d in OBS_ANN:
            return OBS
        if d in ("spaces.Space", "spaces.Box"):
            return SPACE
        if d == "bool":
            return BOOL
        if d == "int":
            return NAT
        src = ast.unparse(a)
        if src in ("Tuple[int, ...]", "tuple[int, ...]"):
            return SHAPE
        if src in ("Union[str, torch.device]", "Optional[Union[str, torch.device]]", "torch.device", "str"):
            return DEV
        fail(arg, f"annotation `{src}` of parameter {arg.arg} of {self.name}")

    def lean_params(self):
        return [(p, t) for p, t in self.params if t != DEV]


class Translator:
    def __init__(self, src: str):
        self.mod = ast.parse(src)
        self.specs: dict[str, FuncSpec] = {}
        for name in TARGETS:
            found = [st for st in self.mod.body if isinstance(st, ast.FunctionDef) and st.name == name]
            if len(found) != 1:
                raise Unsupported(f"{REL_SOURCE}: {len(found)} module-level definitions of {name} (expected one)")
            self.specs[name] = FuncSpec(found[0])

    def run(self) -> str:
        out = [PRELUDE.strip("\n"), ""]
        order = sorted(self.specs.values(), key=lambda s: s.fn.lineno)
        done: set[str] = set()
        # a function may only call translated functions defined (textually) anywhere; emit callees first
        emitted: list[str] = []
        texts: dict[str, list[str]] = {}

        def emit(spec: FuncSpec, stack: tuple):
            if spec.name in done:
                return
            if spec.name in stack:
                fail(spec.fn, f"mutual recursion through {spec.name}")
            for n in ast.walk(spec.fn):
                if isinstance(n, ast.Call) and isinstance(n.func, ast.Name) and n.func.id in self.specs \
                        and n.func.id != spec.name:
                    emit(self.specs[n.func.id], stack + (spec.name,))
            texts[spec.name] = FuncCtx(self, spec).emit()
            done.add(spec.name)
            emitted.append(spec.name)
        for spec in order:
            emit(spec, ())
        for name in emitted:
            out += texts[name] + [""]
        return "\n".join(out).rstrip() + "\n\nend ObsGen\n"


# ----------------------------------------------------------------------------------------------
class FuncCtx:
    def __init__(self, tr: Translator, spec: FuncSpec):
        self.tr, self.spec, self.fn = tr, spec, spec.fn
        self.types: dict[str, object] = {p: t for p, t in spec.params}
        self.lean: dict[str, str] = {p: p for p, _ in spec.params}
        self.nv = 0
        self.nr = 0
        self.cse: dict[str, str] = {}
        self.ret = None

    # ---------------- names
    def name_of(self, py: str) -> str:
        if py not in self.lean:
            self.lean[py] = f"v{self.nv}"
            self.nv += 1
        return self.lean[py]

    def fresh_r(self) -> str:
        r = f"r{self.nr}"
        self.nr += 1
        return r

    def bind(self, pre: list, op: str) -> str:
        """`let r ← op` (an operation that can raise); reused if already bound in this statement"""
        if op in self.cse:
            return self.cse[op]
        r = self.fresh_r()
        pre.append([f"let {r} ← {op}"])
        self.cse[op] = r
        return r

    class _Scope:
        def __init__(self, ctx):
            self.ctx = ctx

        def __enter__(self):
            self.saved = dict(self.ctx.cse)

        def __exit__(self, *a):
            self.ctx.cse = self.saved

    def scope(self):
        return FuncCtx._Scope(self)

    # ---------------- expressions
    def ex(self, n, pre: list):
        """(text — an atom or a parenthesised pure term —, type); raising operations are appended to `pre`"""
        if isinstance(n, ast.Constant):
            if type(n.value) is int and n.value >= 0:
                return str(n.value), NAT
            if type(n.value) is bool:
                return ("true" if n.value else "false"), BOOL
            fail(n, f"constant {n.value!r}")
        if isinstance(n, ast.Name):
            if n.id not in self.types:
                fail(n, f"name {n.id} (not a parameter / local assigned before)")
            t = self.types[n.id]
            return ("()" if t == DEV else self.lean[n.id]), t
        if isinstance(n, ast.Tuple):
            if not n.elts:
                return "[]", SHAPE
            parts = []
            for e in n.elts:
                if isinstance(e, ast.Starred):
                    fail(e, "starred element in a tuple display")
                t, ty = self.ex(e, pre)
                if ty != NAT:
                    fail(e, f"tuple display of non-numbers ({ty})")
                parts.append(t)
            return "[" + ", ".join(parts) + "]", SHAPE
        if isinstance(n, ast.Dict):
            if n.keys:
                fail(n, "non-empty dict display")
            return "[]", ACC
        if isinstance(n, ast.BinOp):
            if not isinstance(n.op, (ast.Add, ast.Mult)):
                fail(n, f"operator {type(n.op).__name__}")
            (a, ta), (b, tb) = self.ex(n.left, pre), self.ex(n.right, pre)
            if ta != NAT or tb != NAT:
                fail(n, f"arithmetic on non-numbers ({ta}, {tb})")
            return f"({a} {'+' if isinstance(n.op, ast.Add) else '*'} {b})", NAT
        if isinstance(n, ast.Attribute):
            return self.attribute(n, pre)
        if isinstance(n, ast.Subscript):
            v, tv = self.ex(n.value, pre)
            if isinstance(n.slice, ast.Slice):
                fail(n, "slice")
            i, ti = self.ex(n.slice, pre)
            if tv == SHAPE and ti == NAT:
                return self.bind(pre, f"pyIndex {v} {i}"), NAT
            if isinstance(tv, tuple) and tv[0] == "list" and ti == NAT:
                return self.bind(pre, f"pyIndex {v} {i}"), tv[1]
            if tv == SPACE and ti == STR:
                return self.bind(pre, f"Space.getItem {v} {i}"), SPACE
            if tv == SPACE and ti == NAT:
                return self.bind(pre, f"Space.getIndex {v} {i}"), SPACE
            if tv == OBS and ti == NAT:
                return self.bind(pre, f"Obs.getIndex {v} {i}"), OBS
            fail(n, f"subscript <{tv}>[<{ti}>]")
        if isinstance(n, ast.IfExp):
            return self.ifexp(n, pre)
        if isinstance(n, ast.ListComp):
            return self.comprehension(n, n.elt, n.generators, pre, "list")
        if isinstance(n, ast.DictComp):
            return self.comprehension(n, (n.key, n.value), n.generators, pre, "dict")
        if isinstance(n, ast.Call):
            return self.call(n, pre)
        if isinstance(n, (ast.Compare, ast.BoolOp)) or (isinstance(n, ast.UnaryOp) and isinstance(n.op, ast.Not)):
            fail(n, "a comparison / boolean operation used as a value")
        fail(n, type(n).__name__)

    def attribute(self, n: ast.Attribute, pre):
        v, tv = self.ex(n.value, pre)
        if tv == OBS:
            if n.attr == "shape":
                return self.bind(pre, f"Obs.shape {v}"), SHAPE
            if n.attr == "ndim":
                return self.bind(pre, f"Obs.ndim {v}"), NAT
            if n.attr == "device":
                return "()", DEV
        if tv == SPACE:
            if n.attr == "shape":
                return self.bind(pre, f"Space.shape {v}"), SHAPE
            if n.attr == "n":
                return self.bind(pre, f"Space.n {v}"), NAT
            if n.attr == "nvec":
                return self.bind(pre, f"Space.nvec {v}"), SHAPE
            if n.attr == "spaces":
                return self.bind(pre, f"Space.spaces {v}"), LIST(SPACE)
        fail(n, f"attribute .{n.attr} of <{tv}>")

    def ifexp(self, n: ast.IfExp, pre):
        try:
            c = self.cond(n.test, pre)
        except Opaque:
            pa, pb = [], []
            with self.scope():
                a, ta = self.ex(n.body, pa)
            with self.scope():
                b, tb = self.ex(n.orelse, pb)
            if pa or pb or (a, ta) != (b, tb):
                fail(n, "conditional expression on the device whose branches are not the same shape-level term")
            return a, ta
        pa, pb = [], []
        with self.scope():
            a, ta = self.ex(n.body, pa)
        with self.scope():
            b, tb = self.ex(n.orelse, pb)
        if ta != tb:
            fail(n, f"conditional expression with branches of different types ({ta}, {tb})")
        if ta in (BOOL, DEV):
            fail(n, f"conditional expression of type {ta}")
        if not pa and not pb:
            return f"(if {c} then {a} else {b})", ta
        r = self.fresh_r()
        flat = lambda p: [ln for e in p for ln in e]          # noqa: E731
        pre.append([f"let {r} ←", f"  if {c} then do"] + ind(flat(pa) + [f"pure {a}"], 4)
                   + ["  else do"] + ind(flat(pb) + [f"pure {b}"], 4))
        return r, ta

    # ---------------- conditions
    def cond(self, n, pre) -> str:
        if isinstance(n, ast.BoolOp):
            parts = []
            for i, v in enumerate(n.values):
                p: list = []
                parts.append(self.cond(v, p))
                if p and i > 0:
                    fail(v, "`and` / `or` whose later operand contains an operation that can raise "
                            "(short-circuit evaluation)")
                pre.extend(p)
            return "(" + (" ∧ " if isinstance(n.op, ast.And) else " ∨ ").join(parts) + ")"
        if isinstance(n, ast.UnaryOp) and isinstance(n.op, ast.Not):
            return f"(¬ {self.cond(n.operand, pre)})"
        if isinstance(n, ast.Compare):
            parts = []
            l, lt = self.ex(n.left, pre)
            for o, r in zip(n.ops, n.comparators):
                op = CMPOPS.get(type(o)) or fail(n, f"comparison {type(o).__name__}")
                rt_pre: list = []
                rtxt, rt = self.ex(r, rt_pre)
                if rt_pre and parts:
                    fail(n, "chained comparison whose later operand can raise")
                pre.extend(rt_pre)
                if DEV in (lt, rt):
                    raise Opaque()
                if (lt, rt) == (NAT, NAT) or ((lt, rt) == (SHAPE, SHAPE) and op in ("=", "≠")):
                    parts.append(f"{l} {op} {rtxt}")
                else:
                    fail(n, f"comparison of <{lt}> and <{rt}>")
                l, lt = rtxt, rt
            return "(" + " ∧ ".join(parts) + ")"
        if isinstance(n, ast.Call) and isinstance(n.func, ast.Name) and n.func.id == "isinstance":
            if n.keywords or len(n.args) != 2:
                fail(n, "isinstance with other than two positional arguments")
            v, tv = self.ex(n.args[0], pre)
            classes = n.args[1].elts if isinstance(n.args[1], ast.Tuple) else [n.args[1]]
            table, fn = (OBS_CLASSES, "Obs.isinstance") if tv == OBS else \
                (SPACE_CLASSES, "Space.isinstance") if tv == SPACE else fail(n, f"isinstance(<{tv}>, …)")
            parts = []
            for c in classes:
                d = dotted(c)
                if d not in table:
                    fail(c, f"isinstance(<{tv}>, {ast.unparse(c)}): class outside the abstraction")
                parts.append(f"{fn} {v} .{table[d]} = true")
            return "(" + " ∨ ".join(parts) + ")"
        if isinstance(n, ast.Name) and self.types.get(n.id) == BOOL:
            return f"({self.lean[n.id]} = true)"
        if isinstance(n, ast.Constant) and type(n.value) is bool:
            return "True" if n.value else "False"
        fail(n, f"condition {type(n).__name__}")

    # ---------------- calls
    def args_of(self, n: ast.Call, names: list[str], required: int, what: str) -> dict:
        """match positional / keyword arguments to `names`; the first `required` must be given"""
        got: dict[str, ast.expr] = {}
        if len(n.args) > len(names):
            fail(n, f"{what} with {len(n.args)} positional arguments")
        for name, a in zip(names, n.args):
            if isinstance(a, ast.Starred):
                fail(a, f"starred argument of {what}")
            got[name] = a
        for kw in n.keywords:
            if kw.arg is None or kw.arg not in names or kw.arg in got:
                fail(n, f"keyword argument {kw.arg} of {what}")
            got[kw.arg] = kw.value
        for name in names[:required]:
            if name not in got:
                fail(n, f"{what} without argument `{name}`")
        return got

    def typed(self, n, pre, want, what: str) -> str:
        t, ty = self.ex(n, pre)
        if ty != want:
            fail(n, f"{what}: argument of type <{ty}>, expected <{want}>")
        return t

    def axis(self, n, what: str) -> str:
        k = int_literal(n)
        if k is None:
            fail(n, f"{what}: the axis / size must be an integer literal")
        return lean_int(k)

    def iterable(self, n, pre):
        """(text of a Lean list, element type)"""
        t, ty = self.ex(n, pre)
        if ty == OBS:
            return self.bind(pre, f"Obs.iter {t}"), OBS
        if isinstance(ty, tuple) and ty[0] == "list":
            return t, ty[1]
        if ty == SHAPE:
            return t, NAT
        fail(n, f"iteration over <{ty}>")

    def call(self, n: ast.Call, pre):
        f = n.func
        d = dotted(f)
        # ---- builtins
        if d in ("len", "sum", "int"):
            a = self.args_of(n, ["x"], 1, d)["x"]
            t, ty = self.ex(a, pre)
            if d == "len" and (ty in (SHAPE, ACC) or (isinstance(ty, tuple) and ty[0] == "list")):
                return f"{t}.length", NAT
            if d == "sum" and ty == SHAPE:
                return f"{t}.sum", NAT
            if d == "int" and ty == NAT:
                return t, NAT
            fail(n, f"{d}(<{ty}>)")
        if d == "next":
            a = self.args_of(n, ["it"], 1, "next")["it"]
            if not (isinstance(a, ast.Call) and dotted(a.func) == "iter"):
                fail(n, "next(<other than iter(…)>)")
            b = self.args_of(a, ["x"], 1, "iter")["x"]
            t, et = self.iterable(b, pre)
            return self.bind(pre, f"pyFirst {t}"), et
        if d == "zip":
            if n.keywords or len(n.args) != 2:
                fail(n, "zip with other than two positional arguments")
            (a, ta), (b, tb) = self.iterable(n.args[0], pre), self.iterable(n.args[1], pre)
            return f"(List.zip {a} {b})", LIST(PAIR(ta, tb))
        if d == "enumerate":
            a = self.args_of(n, ["x"], 1, "enumerate")["x"]
            t, et = self.iterable(a, pre)
            return f"(pyEnumerate {t})", LIST(PAIR(NAT, et))
        if d == "tuple":
            a = self.args_of(n, ["x"], 1, "tuple")["x"]
            if not isinstance(a, ast.GeneratorExp):
                fail(n, "tuple(<other than a generator expression>)")
            t, ty = self.comprehension(a, a.elt, a.generators, pre, "list")
            if ty != LIST(OBS):
                fail(n, f"tuple of <{ty}>")
            return f"(Obs.tuple {t})", OBS
        if d == "isinstance":
            fail(n, "isinstance used as a value")
        # ---- numpy / torch
        if d == "np.shape":
            a = self.args_of(n, ["a"], 1, d)["a"]
            return self.bind(pre, f"Obs.npShape {self.typed(a, pre, OBS, d)}"), SHAPE
        if d == "np.expand_dims":
            g = self.args_of(n, ["a", "axis"], 2, d)
            return self.bind(pre, f"Obs.expandDims {self.typed(g['a'], pre, OBS, d)} {self.axis(g['axis'], d)}"), OBS
        if d == "np.moveaxis":
            g = self.args_of(n, ["a", "source", "destination"], 3, d)
            return self.bind(pre, f"Obs.moveaxis {self.typed(g['a'], pre, OBS, d)} {self.axis(g['source'], d)} "
                                  f"{self.axis(g['destination'], d)}"), OBS
        if d in ("torch.as_tensor", "torch.tensor"):
            g = self.args_of(n, ["data", "device"], 1, d)
            if "device" in g:
                self.typed(g["device"], pre, DEV, d)
            return self.bind(pre, f"Obs.asTensor {self.typed(g['data'], pre, OBS, d)}"), OBS
        if d == "F.one_hot":
            g = self.args_of(n, ["tensor", "num_classes"], 2, d)
            x = self.typed(g["tensor"], pre, OBS, d)
            k = self.typed(g["num_classes"], pre, NAT, d)
            return self.bind(pre, f"Obs.one_hot {x} {k}"), OBS
        if d == "torch.split":
            g = self.args_of(n, ["tensor", "split_size_or_sections", "dim"], 3, d)
            x = self.typed(g["tensor"], pre, OBS, d)
            k = self.typed(g["split_size_or_sections"], pre, NAT, d)
            dim = int_literal(g["dim"])
            if dim is None or dim < 0:
                fail(n, "torch.split: dim must be a non-negative integer literal")
            return self.bind(pre, f"Obs.split {x} {k} {dim}"), LIST(OBS)
        if d == "torch.cat":
            g = self.args_of(n, ["tensors", "dim"], 2, d)
            if int_literal(g["dim"]) != -1:
                fail(n, "torch.cat with dim other than the literal -1")
            x = self.typed(g["tensors"], pre, LIST(OBS), d)
            return self.bind(pre, f"Obs.catLast {x}"), OBS
        # ---- translated functions
        if d in self.tr.specs:
            return self.call_translated(n, self.tr.specs[d], pre)
        if d == "apply_image_normalization":
            g = self.args_of(n, ["observation", "observation_space"], 2, d)
            return self.bind(pre, f"apply_image_normalization {self.typed(g['observation'], pre, OBS, d)} "
                                  f"{self.typed(g['observation_space'], pre, SPACE, d)}"), OBS
        # ---- methods
        if isinstance(f, ast.Attribute):
            v, tv = self.ex(f.value, pre)
            m = f.attr
            if tv == OBS:
                if m == "items":
                    self.args_of(n, [], 0, ".items")
                    return self.bind(pre, f"Obs.items {v}"), LIST(PAIR(STR, OBS))
                if m in ("squeeze", "long", "float"):
                    self.args_of(n, [], 0, f".{m}")
                    return self.bind(pre, f"Obs.{m} {v}"), OBS
                if m == "to":
                    g = self.args_of(n, ["device"], 1, ".to")
                    self.typed(g["device"], pre, DEV, ".to")
                    return v, OBS
                if m == "unsqueeze":
                    g = self.args_of(n, ["dim"], 1, ".unsqueeze")
                    return self.bind(pre, f"Obs.unsqueeze {v} {self.axis(g['dim'], '.unsqueeze')}"), OBS
                if m == "reshape":
                    if n.keywords or len(n.args) != 2 or not isinstance(n.args[1], ast.Starred):
                        fail(n, ".reshape with other than (<integer literal>, *<shape>)")
                    lead = self.axis(n.args[0], ".reshape")
                    rest = self.typed(n.args[1].value, pre, SHAPE, ".reshape")
                    return self.bind(pre, f"Obs.reshape {v} {lead} {rest}"), OBS
            fail(n, f"method .{m} of <{tv}>")
        fail(n, f"call of {ast.unparse(f)}")

    def call_translated(self, n: ast.Call, spec: FuncSpec, pre):
        names = [p for p, _ in spec.params]
        required = len(names) - len(spec.defaults)
        g = self.args_of(n, names, required, spec.name)
        args = []
        for p, t in spec.params:
            if p in g:
                txt = self.typed(g[p], pre, t, f"{spec.name}({p}=…)")
            else:
                dflt = spec.defaults[p]
                if t == DEV:
                    continue
                if not (isinstance(dflt, ast.Constant) and type(dflt.value) in (bool, int)):
                    fail(n, f"default value of parameter {p} of {spec.name}")
                txt = ("true" if dflt.value else "false") if type(dflt.value) is bool else str(dflt.value)
            if t != DEV:
                args.append(txt)
        if spec.recursive:
            if spec is not self.spec:
                args.insert(0, "fuel") if self.spec.recursive else fail(
                    n, f"call of the recursive function {spec.name} from a function without fuel")
            else:
                args.insert(0, "fuel")
        if spec is self.spec:
            rt = self.spec_ret_guess()
        else:
            rt = spec.ret
        return self.bind(pre, f"{spec.name} " + " ".join(args)), rt

    def spec_ret_guess(self):
        """return type of the function being translated (needed at a recursive call before the first return)"""
        a = self.fn.returns
        if a is not None:
            d = dotted(a)
            if d == "int":
                return NAT
            if d in OBS_ANN:
                return OBS
        fail(self.fn, f"return annotation of the recursive function {self.fn.name}")

    # ---------------- comprehensions
    def target_pattern(self, t, et):
        """bind the loop targets; returns the Lean pattern"""
        if isinstance(t, ast.Name):
            self.types[t.id] = et
            return self.name_of(t.id)
        if isinstance(t, ast.Tuple) and len(t.elts) == 2 and isinstance(et, tuple) and et[0] == "pair" \
                and all(isinstance(e, ast.Name) for e in t.elts):
            parts = []
            for e, ty in zip(t.elts, et[1:]):
                self.types[e.id] = ty
                parts.append(self.name_of(e.id))
            return "(" + ", ".join(parts) + ")"
        fail(t, f"loop target for elements of type <{et}>")

    def comprehension(self, n, elt, generators, pre, kind: str):
        if len(generators) != 1 or generators[0].ifs or generators[0].is_async:
            fail(n, "comprehension with several `for` / with `if`")
        g = generators[0]
        it, et = self.iterable(g.iter, pre)
        saved_types = dict(self.types)
        pat = self.target_pattern(g.target, et)
        body: list = []
        with self.scope():
            if kind == "dict":
                k, tk = self.ex(elt[0], body)
                v, tv = self.ex(elt[1], body)
                if (tk, tv) != (STR, OBS):
                    fail(n, f"dict comprehension of <{tk}> : <{tv}>")
                res, rty = f"({k}, {v})", None
            else:
                res, rty = self.ex(elt, body)
        self.types = saved_types
        flat = [ln for e in body for ln in e]
        r = self.fresh_r()
        pre.append([f"let {r} ← compM (fun {pat} => do"] + ind(flat + [f"pure {res})"], 4) + [f"  {it}"])
        if kind == "dict":
            return f"(Obs.dict false {r})", OBS
        return r, LIST(rty)

    # ---------------- statements
    @staticmethod
    def flat(pre) -> list[str]:
        return [ln for e in pre for ln in e]

    def terminates(self, stmts) -> bool:
        if not stmts:
            return False
        last = stmts[-1]
        if isinstance(last, (ast.Return, ast.Raise)):
            return True
        if isinstance(last, ast.If):
            return self.terminates(last.body) and self.terminates(last.orelse)
        return False

    def assigned(self, stmts) -> list[str]:
        """names assigned at statement level (comprehension targets are local to the comprehension)"""
        out: list[str] = []

        def add(t):
            if isinstance(t, ast.Name):
                if t.id not in out:
                    out.append(t.id)
            elif isinstance(t, ast.Tuple):
                for e in t.elts:
                    add(e)
            elif isinstance(t, ast.Subscript) and isinstance(t.value, ast.Name):
                add(t.value)
            else:
                fail(t, f"assignment target {type(t).__name__}")
        for st in stmts:
            if isinstance(st, ast.Assign):
                for t in st.targets:
                    add(t)
            elif isinstance(st, ast.AnnAssign):
                add(st.target)
            elif isinstance(st, ast.AugAssign):
                fail(st, "augmented assignment")
            elif isinstance(st, ast.If):
                for x in self.assigned(st.body) + self.assigned(st.orelse):
                    if x not in out:
                        out.append(x)
            elif isinstance(st, ast.For):
                for x in self.assigned(st.body):
                    if x not in out:
                        out.append(x)
            elif isinstance(st, (ast.While, ast.With, ast.Try, ast.Delete, ast.Global, ast.Nonlocal,
                                 ast.FunctionDef, ast.ClassDef, ast.Import, ast.ImportFrom)):
                fail(st, type(st).__name__)
        return out

    def ret_text(self, st, txt, ty) -> str:
        if ty == ACC:
            txt, ty = f"(Obs.dict false {txt})", OBS
        if ty not in (OBS, NAT):
            fail(st, f"returning a value of type <{ty}>")
        if self.ret is not None and self.ret != ty:
            fail(st, f"returns of different types ({self.ret}, {ty})")
        self.ret = ty
        return txt

    def block(self, stmts, k, tail: bool) -> list[str]:
        """lines of a `do` sequence for `stmts` followed by the continuation `k()`"""
        if not stmts:
            return k()
        st, rest = stmts[0], stmts[1:]
        self.cse = {}
        cont = lambda: self.block(rest, k, tail)          # noqa: E731
        if is_docstring(st):
            return cont()
        if isinstance(st, ast.AnnAssign):
            if st.value is None:
                fail(st, "annotation without value")
            st = ast.copy_location(ast.Assign(targets=[st.target], value=st.value), st)
        if isinstance(st, ast.Assign):
            if len(st.targets) != 1:
                fail(st, "chained assignment")
            tg = st.targets[0]
            pre: list = []
            txt, ty = self.ex(st.value, pre)
            if ty in (BOOL, DEV):
                fail(st, f"variable of type <{ty}>")
            if isinstance(tg, ast.Name):
                self.types[tg.id] = ty
                x = self.name_of(tg.id)
                if ty == ACC:
                    return self.flat(pre) + [f"let {x} : {lean_ty(ACC)} := {txt}"] + cont()
                if pre and pre[-1][0].startswith(f"let {txt} ← "):
                    pre[-1][0] = f"let {x} ← " + pre[-1][0][len(f"let {txt} ← "):]
                    return self.flat(pre) + cont()
                return self.flat(pre) + [f"let {x} := {txt}"] + cont()
            if isinstance(tg, ast.Tuple) and len(tg.elts) == 2 and all(isinstance(e, ast.Name) for e in tg.elts) \
                    and isinstance(ty, tuple) and ty[0] == "pair":
                names = []
                for e, t in zip(tg.elts, ty[1:]):
                    self.types[e.id] = t
                    names.append(self.name_of(e.id))
                return self.flat(pre) + [f"let ({', '.join(names)}) := {txt}"] + cont()
            fail(st, f"assignment target {ast.unparse(tg)} for a value of type <{ty}>")
        if isinstance(st, ast.For):
            return self.for_stmt(st, cont)
        if isinstance(st, ast.Assert):
            pre = []
            try:
                c = self.cond(st.test, pre)
            except Opaque:
                fail(st, "assertion on the device")
            return self.flat(pre) + [f"if {c} then"] + ind(cont()) + ["else", "  throw Exn.assertion"]
        if isinstance(st, ast.Raise):
            if rest:
                fail(rest[0], "statement after raise")
            e = st.exc
            cls = dotted(e.func) if isinstance(e, ast.Call) else dotted(e) if e is not None else None
            if cls is None or st.cause is not None:
                fail(st, "raise without a named exception class / with a cause")
            return [f'throw (Exn.raised "{cls}")']
        if isinstance(st, ast.Return):
            if rest:
                fail(rest[0], "statement after return")
            if not tail:
                fail(st, "return inside a branch that is followed by other statements")
            if st.value is None:
                fail(st, "bare return")
            pre = []
            txt, ty = self.ex(st.value, pre)
            out = self.ret_text(st, txt, ty)
            if pre and out == txt and pre[-1][0].startswith(f"let {txt} ← ") and len(pre[-1]) == 1:
                op = pre.pop()[0][len(f"let {txt} ← "):]
                return self.flat(pre) + [op]
            return self.flat(pre) + [f"pure {out}"]
        if isinstance(st, ast.If):
            return self.if_stmt(st, rest, k, tail)
        fail(st, "expression statement" if isinstance(st, ast.Expr) else type(st).__name__)

    def for_stmt(self, st: ast.For, cont) -> list[str]:
        if st.orelse or len(st.body) != 1:
            fail(st, "for loop whose body is not exactly one item assignment `d[k] = e`")
        b = st.body[0]
        if not (isinstance(b, ast.Assign) and len(b.targets) == 1 and isinstance(b.targets[0], ast.Subscript)
                and isinstance(b.targets[0].value, ast.Name) and self.types.get(b.targets[0].value.id) == ACC):
            fail(b, "for loop whose body is not exactly one item assignment `d[k] = e` into a dict started as {}")
        acc = b.targets[0].value.id
        pre: list = []
        it, et = self.iterable(st.iter, pre)
        saved = dict(self.types)
        pat = self.target_pattern(st.target, et)
        body: list = []
        with self.scope():
            key, tk = self.ex(b.targets[0].slice, body)
            val, tv = self.ex(b.value, body)
        if (tk, tv) != (STR, OBS):
            fail(b, f"item assignment <{tk}> : <{tv}>")
        self.types = saved
        r = self.fresh_r()
        x = self.lean[acc]
        lines = self.flat(pre) + [f"let {r} ← compM (fun {pat} => do"] \
            + ind(self.flat(body) + [f"pure ({key}, {val}))"], 4) + [f"  {it}", f"let {x} := {x} ++ {r}"]
        return lines + cont()

    def if_stmt(self, st: ast.If, rest, k, tail: bool) -> list[str]:
        pre: list = []
        try:
            c = self.cond(st.test, pre)
        except Opaque:
            fail(st, "if on the device")
        has_return = lambda ss: any(isinstance(n, ast.Return) for s in ss for n in ast.walk(s))   # noqa: E731
        t_body, t_else = self.terminates(st.body), self.terminates(st.orelse)
        if t_body or t_else:
            if t_body and t_else and rest:
                fail(rest[0], "statement after an if whose branches all return / raise")
            if not tail and has_return(st.body + st.orelse):
                fail(st, "return inside a branch that is followed by other statements")
            snap = dict(self.types)
            if t_body:
                a = self.block(st.body, k, tail)
                self.types = dict(snap)
                b = self.block(list(st.orelse) + list(rest), k, tail)
            else:
                a = self.block(list(st.body) + list(rest), k, tail)
                after = dict(self.types)
                self.types = dict(snap)
                b = self.block(st.orelse, k, tail)
                self.types = after
            return self.flat(pre) + [f"if {c} then"] + ind(a) + ["else"] + ind(b)
        if has_return(st.body + st.orelse):
            fail(st, "return in only some paths of an if")
        keys = self.assigned(list(st.body) + list(st.orelse))
        if not keys:
            fail(st, "if without effect (its branches assign nothing)")
        for x in keys:
            self.name_of(x)
        pnames = [p for p, _ in self.spec.params]
        keys.sort(key=lambda x: (0, pnames.index(x)) if x in pnames else (1, int(self.lean[x][1:])))
        names = [self.lean[x] for x in keys]
        tup = names[0] if len(names) == 1 else "(" + ", ".join(names) + ")"
        snaps: list[dict] = []

        def join():
            snaps.append(dict(self.types))
            missing = [x for x in keys if x not in self.types]
            if missing:
                fail(st, f"variable {missing[0]} is assigned in only some paths of this if and not before it")
            return [f"pure {tup}"]
        snap = dict(self.types)
        a = self.block(st.body, join, False)
        self.types = dict(snap)
        b = self.block(st.orelse, join, False)
        for s in snaps[1:]:
            for x in keys:
                if s[x] != snaps[0][x]:
                    fail(st, f"{x} has different types after the branches of this if ({snaps[0][x]}, {s[x]})")
        self.types = dict(snap)
        for x in keys:
            self.types[x] = snaps[0][x]
        head = self.flat(pre) + [f"let {tup} ←", f"  if {c} then do"] + ind(a, 4) + ["  else do"] + ind(b, 4)
        return head + self.block(rest, k, tail)

    # ---------------- the definition
    def emit(self) -> list[str]:
        def end():
            fail(self.fn, f"{self.fn.name}: a path reaches the end without `return`")
        body = self.block([s for s in self.fn.body if not is_docstring(s)], end, True)
        if self.ret is None:
            fail(self.fn, f"{self.fn.name} never returns a value")
        if self.spec.recursive and self.ret != self.spec_ret_guess():
            fail(self.fn, f"{self.fn.name}: the return annotation does not match the returned values")
        self.spec.ret = self.ret
        params = "".join(f" ({p} : {lean_ty(t)})" for p, t in self.spec.lean_params())
        erased = [p for p, t in self.spec.params if t == DEV]
        doc = f"/-- `{self.fn.name}`"
        if erased:
            doc += " (erased: " + ", ".join(f"`{p}`" for p in erased) + ")"
        doc += " -/"
        rt = f"Except Exn {lean_ty(self.ret, True)}"
        if self.spec.recursive:
            return [doc, f"def {self.fn.name} (fuel : Nat){params} : {rt} :=", "  match fuel with",
                    "  | 0 => throw Exn.fuel", "  | fuel + 1 => do"] + ind(body, 4)
        return [doc, f"def {self.fn.name}{params} : {rt} := do"] + ind(body, 2)


# ----------------------------------------------------------------------------------------------
def repo_dir(arg: str | None = None) -> Path:
    if arg:
        return Path(arg)
    return Path(os.environ.get("VERIF_REPO", "/repo"))


def translate(repo: Path) -> tuple[str, str]:
    """returns (lean text, sha256 of the source); raises Unsupported"""
    path = Path(repo) / REL_SOURCE
    try:
        raw = path.read_bytes()
    except OSError as e:
        raise Unsupported(f"cannot read {path}: {e}") from e
    sha = hashlib.sha256(raw).hexdigest()
    try:
        body = Translator(raw.decode("utf-8")).run()
    except SyntaxError as e:
        raise Unsupported(f"{REL_SOURCE}:{e.lineno}: not parseable: {e.msg}") from e
    header = "\n".join([
        "/-",
        "  Gen/ObsGen.lean — GENERATED by harness/py2lean_obs.py from " + ", ".join(f"`{t}`" for t in TARGETS),
        f"  of {REL_SOURCE}; do not edit.  Core Lean only.  SHAPE LOGIC only: an observation is its container",
        "  and shape, a space its kind / parameters / children; values (one-hot contents, scaled pixels) are cut.",
        "  Assumed: shapes do not depend on device / dtype (`device` parameters are erased, `.to(device)` is the",
        "  identity); element-wise arithmetic keeps the shape; the keys of a dict observation are distinct.",
        "  `Proofs/ObsGenEq.lean` proves the definitions equal to the shape projection of `Model/Obs.lean`.",
        "-/",
        SHA_PREFIX + sha,
        "set_option linter.unusedVariables false",
        "",
    ])
    return header + "\n" + body, sha


def strip_sha(text: str) -> str:
    return "\n".join(ln for ln in text.split("\n") if not ln.startswith(SHA_PREFIX))


def write_if_changed(text: str, out: Path, force: bool = False) -> bool:
    """writes `text` unless the file already holds the same translation (sha line ignored)"""
    out = Path(out)
    old = out.read_text() if out.exists() else None
    if old is not None and not force and strip_sha(old) == strip_sha(text):
        return False
    if old == text:
        return False
    out.parent.mkdir(parents=True, exist_ok=True)
    tmp = out.with_suffix(".lean.tmp")
    tmp.write_text(text)
    os.replace(tmp, out)
    return True


def main(argv: list[str]) -> int:
    import argparse
    ap = argparse.ArgumentParser()
    ap.add_argument("--repo", default=None)
    ap.add_argument("--out", default=str(DEFAULT_OUT))
    ap.add_argument("--stdout", action="store_true")
    ap.add_argument("--force", action="store_true", help="rewrite even if only the sha256 line differs")
    a = ap.parse_args(argv)
    try:
        text, sha = translate(repo_dir(a.repo))
    except Unsupported as e:
        print(f"py2lean_obs: {e}", file=sys.stderr)
        return 1
    if a.stdout:
        sys.stdout.write(text)
        return 0
    changed = write_if_changed(text, Path(a.out), a.force)
    print(f"{a.out}: {'written' if changed else 'unchanged'} (source sha256 {sha[:16]}…, "
          f"translation sha256 {hashlib.sha256(strip_sha(text).encode()).hexdigest()[:16]}…)")
    return 0


if __name__ == "__main__":
    sys.exit(main(sys.argv[1:]))
