#!/usr/bin/env python3
"""
py2lean_obsma.py — translate the multi-agent DICT LOOPS of observation handling (property C15) into Lean 4.

  * REPO/agilerl/algorithms/core/base.py  `MultiAgentRLAlgorithm.preprocess_observation` (which space is paired with
                                          which agent's observation, key order), `.sum_shared_rewards`
  * REPO/agilerl/algorithms/ippo.py       `IPPO.preprocess_observation` (per-group batching in `agent_ids` order),
                                          `IPPO.assemble_shared_inputs` (the loop over `self.agent_ids` with the
                                          membership test)

    python3 harness/py2lean_obsma.py [--repo DIR] [--out FILE] [--stdout] [--force]

Reads the *source text* only (Python `ast`; agilerl is never imported) and writes lean/Gen/ObsMaGen.lean (namespace
`ObsMaGen`, core Lean; it imports Gen/ObsValGen.lean for the Python-dict prelude `PyDict / pyGet / pySet / pyForM /
pySortedByM` and the already translated `get_homo_id` / `_agent_position` / `assemble_homogeneous_outputs` /
`disassemble_homogeneous_outputs`, whose full loops Proofs/ObsMaGenEq.lean ties to the model as well).
`Proofs/ObsMaGenEq.lean` proves the generated definitions equal to `Model/Obs.lean` (`maPreprocess`, `sumShared`,
`ippoPreprocess`, `assembleShared`); `Props/C15.lean` restates the theorems (`C15_source_translation_ma_*`).

Supported subset (everything else raises `Unsupported` with the construct and the line)
  statements   `x = e`; `d[k] = e`; `d[k1][k2] = e`; `d[k] += e`; `d[k].append(e)`; `for t in it:` (t a name or a tuple
               of names; the names re-bound in the body are threaded as the loop state); `if c: continue` (the rest of
               the loop body becomes the else branch); `return e` as the last statement; docstrings
  expressions  names, int / str constants, `{}`; `[]`; `{k: c for k in ids}` with a constant `c` (`[]`, `{}`, `0`);
               `d[k]` (a dict read; on the result of a call: a list index); `a in d`, `a not in d`;
               `d.keys()`, `list(d.keys())`, `d.items()`; `sorted(l, key=self._agent_position)`;
               `self.get_homo_id(a)`; `self.agent_ids`, `self.shared_agent_ids`;
               `self.observation_space.get(a)`; the calls `preprocess_observation(observation=…,
               observation_space=…, device=self.device, normalize_images=self.normalize_images)`,
               `concatenate_tensors(x)`, `stack_experiences(x, to_torch=False)`
Assumed (explicit parameters of the generated definitions)
  * the per-leaf `preprocess_observation` of agilerl/utils/algo_utils.py is the function parameter
    `preprocess_observation : O → Option S → M P` (its correctness: the leaf theorems of C15; `device` and
    `normalize_images` are the fixed attributes of `self` and are part of that parameter)
  * `concatenate_tensors : List P → M (List P)` (the batch of a group has the carrier of the list of its blocks: the
    Python code re-binds `preprocessed[homo_id]` from a list to a tensor), `stack_experiences : E → Bool → M (List V)`
  * rewards: any type with `+` and `0` (`0 + reward` is numpy broadcasting of the scalar)
  * `self.observation_space` is a `spaces.Dict`: `.get` is `Mapping.get`; agent ids are strings
"""
from __future__ import annotations

import ast
import hashlib
import os
import sys
from pathlib import Path

HERE = Path(__file__).resolve().parent
DEFAULT_OUT = HERE.parent / "lean" / "Gen" / "ObsMaGen.lean"
BASE = "agilerl/algorithms/core/base.py"
IPPO = "agilerl/algorithms/ippo.py"
REL_SOURCES = (BASE, IPPO)
REL_SOURCE = "agilerl/algorithms/{core/base,ippo}.py"
SHA_PREFIX = "-- sha256(source) = "
LEAN_KEYWORDS = {"at", "from", "end", "in", "fun", "let", "do", "then", "else", "if", "match", "with", "open", "show",
                 "input", "prefix", "local", "where", "have", "by", "type", "Type", "deriving", "instance", "class"}


class Unsupported(Exception):
    pass


def bad(node, what):
    raise Unsupported(f"{what} (line {getattr(node, 'lineno', '?')})")


def lname(n: str) -> str:
    return n + "_" if n in LEAN_KEYWORDS else n


PRELUDE = r'''set_option linter.unusedVariables false
namespace ObsMaGen
open ObsValGen

/-- `d.get(k)` of a Mapping -/
def pyGetOpt {V} (d : PyDict V) (k : String) : Option V :=
  match pyGet d k with
  | .ok v => some v
  | .error _ => none
'''

# name -> (class, lean name, binders, return type, typed locals)
SPECS = {
    "ma_pre": ("MultiAgentRLAlgorithm", "preprocess_observation", "ma_preprocess_observation",
               "{O S P : Type} (self_agent_ids : List String) (self_observation_space : PyDict S) "
               "(preprocess_observation : O → Option S → M P) (observation : PyDict O)",
               "PyDict P", {"preprocessed": "PyDict P"}),
    "sum": ("MultiAgentRLAlgorithm", "sum_shared_rewards", "sum_shared_rewards",
            "{R : Type} [Add R] [OfNat R 0] (self_shared_agent_ids : List String) (rewards : PyDict R)",
            "PyDict R", {"summed_rewards": "PyDict R"}),
    "ippo_pre": ("IPPO", "preprocess_observation", "ippo_preprocess_observation",
                 "{O S P : Type} (self_agent_ids self_shared_agent_ids : List String) "
                 "(self_observation_space : PyDict S) (preprocess_observation : O → Option S → M P) "
                 "(concatenate_tensors : List P → M (List P)) (observation : PyDict O)",
                 "PyDict (List P)", {"preprocessed": "PyDict (List P)"}),
    "shared": ("IPPO", "assemble_shared_inputs", "assemble_shared_inputs",
               "{E V : Type} (self_agent_ids self_shared_agent_ids : List String) "
               "(stack_experiences : E → Bool → M (List V)) (input_ : PyDict E)",
               "PyDict (PyDict V)", {"shared": "PyDict (PyDict V)"}),
}
SELF_IDS = {"agent_ids": "self_agent_ids", "shared_agent_ids": "self_shared_agent_ids"}


def attr_chain(e):
    parts = []
    while isinstance(e, ast.Attribute):
        parts.append(e.attr)
        e = e.value
    if isinstance(e, ast.Name):
        parts.append(e.id)
        return ".".join(reversed(parts))
    return None


def const_cell(e) -> str:
    if isinstance(e, ast.List) and not e.elts:
        return "[]"
    if isinstance(e, ast.Dict) and not e.keys:
        return "pyEmpty"
    if isinstance(e, ast.Constant) and isinstance(e.value, int) and not isinstance(e.value, bool):
        return str(e.value)
    bad(e, "dict comprehension with a non-constant value")


def kwargs_exact(call, names):
    """the call's arguments by name, positional ones matched against `names`; nothing else allowed"""
    got = {}
    for i, a in enumerate(call.args):
        if i >= len(names):
            bad(call, "too many positional arguments")
        got[names[i]] = a
    for k in call.keywords:
        if k.arg not in names or k.arg in got:
            bad(call, f"unexpected keyword `{k.arg}`")
        got[k.arg] = k.value
    return got


def expr(e) -> str:
    X = expr
    if isinstance(e, ast.Constant):
        if isinstance(e.value, bool):
            return "true" if e.value else "false"
        if isinstance(e.value, int):
            return str(e.value)
        if isinstance(e.value, str):
            return '"' + e.value.replace("\\", "\\\\").replace('"', '\\"') + '"'
        bad(e, f"constant {e.value!r}")
    if isinstance(e, ast.Name):
        return lname(e.id)
    if isinstance(e, ast.List) and not e.elts:
        return "[]"
    if isinstance(e, ast.Dict) and not e.keys:
        return "pyEmpty"
    if isinstance(e, ast.DictComp):
        if len(e.generators) != 1 or e.generators[0].ifs or not isinstance(e.generators[0].target, ast.Name):
            bad(e, "dict comprehension form")
        g = e.generators[0]
        if not (isinstance(e.key, ast.Name) and e.key.id == g.target.id):
            bad(e, "dict comprehension key is not the loop variable")
        return f"(pyDictOfPairs (({X(g.iter)}).map (fun {lname(g.target.id)} => ({lname(g.target.id)}, {const_cell(e.value)}))))"
    if isinstance(e, ast.Attribute):
        if isinstance(e.value, ast.Name) and e.value.id == "self" and e.attr in SELF_IDS:
            return SELF_IDS[e.attr]
        bad(e, f"attribute `{ast.unparse(e)}`")
    if isinstance(e, ast.Compare):
        if len(e.ops) != 1 or not isinstance(e.ops[0], (ast.In, ast.NotIn)):
            bad(e, "comparison other than `in` / `not in`")
        r = e.comparators[0]
        if not isinstance(r, ast.Name):
            bad(e, "`in` on something else than a dict variable")
        t = f"(pyInDict {X(e.left)} {X(r)})"
        return t if isinstance(e.ops[0], ast.In) else f"(!{t})"
    if isinstance(e, ast.Subscript):
        if isinstance(e.value, ast.Call) or (isinstance(e.value, ast.Attribute) and e.value.attr in SELF_IDS):
            return f"(← pyIndex {X(e.value)} {X(e.slice)})"
        return f"(← pyGet {X(e.value)} {X(e.slice)})"
    if isinstance(e, ast.Call):
        c = attr_chain(e.func)
        if c == "list" and len(e.args) == 1 and not e.keywords:
            a = e.args[0]
            if isinstance(a, ast.Call) and isinstance(a.func, ast.Attribute) and a.func.attr == "keys":
                return X(a)
            bad(e, "list(…) of something else than d.keys()")
        if c == "sorted":
            if len(e.args) != 1 or len(e.keywords) != 1 or e.keywords[0].arg != "key":
                bad(e, "sorted(…) form")
            if attr_chain(e.keywords[0].value) != "self._agent_position":
                bad(e, "sorted key other than self._agent_position")
            return f"(← pySortedByM {X(e.args[0])} (_agent_position self_agent_ids))"
        if c == "self.get_homo_id" and len(e.args) == 1 and not e.keywords:
            return f"(← get_homo_id {X(e.args[0])})"
        if c == "self.observation_space.get" and len(e.args) == 1 and not e.keywords:
            return f"(pyGetOpt self_observation_space {X(e.args[0])})"
        if c == "preprocess_observation":
            g = kwargs_exact(e, ["observation", "observation_space", "device", "normalize_images"])
            if set(g) != {"observation", "observation_space", "device", "normalize_images"}:
                bad(e, "preprocess_observation: missing argument")
            if attr_chain(g["device"]) != "self.device" or attr_chain(g["normalize_images"]) != "self.normalize_images":
                bad(e, "preprocess_observation: device / normalize_images other than the attributes of self")
            return f"(← preprocess_observation {X(g['observation'])} {X(g['observation_space'])})"
        if c == "concatenate_tensors" and len(e.args) == 1 and not e.keywords:
            return f"(← concatenate_tensors {X(e.args[0])})"
        if c == "stack_experiences":
            g = kwargs_exact(e, ["x", "to_torch"])
            if set(g) != {"x", "to_torch"}:
                bad(e, "stack_experiences form")
            return f"(← stack_experiences {X(g['x'])} {X(g['to_torch'])})"
        if isinstance(e.func, ast.Attribute) and not e.args and not e.keywords and isinstance(e.func.value, ast.Name):
            if e.func.attr == "keys":
                return f"(pyKeys {X(e.func.value)})"
            if e.func.attr == "items":
                return f"(pyItems {X(e.func.value)})"
        bad(e, f"call of `{ast.unparse(e.func)}`")
    bad(e, f"expression {type(e).__name__}")


def assigned(stmts) -> list[str]:
    out = []

    def add(n):
        if n not in out:
            out.append(n)

    for s in stmts:
        for n in ast.walk(s):
            if isinstance(n, (ast.Assign, ast.AugAssign)):
                for t in (n.targets if isinstance(n, ast.Assign) else [n.target]):
                    while isinstance(t, ast.Subscript):
                        t = t.value
                    if isinstance(t, ast.Name):
                        add(t.id)
            if isinstance(n, ast.Expr) and isinstance(n.value, ast.Call) and isinstance(n.value.func, ast.Attribute) \
                    and n.value.func.attr == "append":
                t = n.value.func.value
                while isinstance(t, ast.Subscript):
                    t = t.value
                if isinstance(t, ast.Name):
                    add(t.id)
    return out


def tup(names) -> str:
    names = [lname(n) for n in names]
    return names[0] if len(names) == 1 else "(" + ", ".join(names) + ")"


def is_doc(s) -> bool:
    return isinstance(s, ast.Expr) and isinstance(s.value, ast.Constant) and isinstance(s.value.value, str)


def block(stmts, ind: int, bound: set, typed: dict, tail: str | None) -> list[str]:
    """lines of a `do` block; `tail` is the final `pure …` of a loop body (None at function level: `return`)"""
    p = "  " * ind
    out = []
    for i, s in enumerate(stmts):
        if is_doc(s):
            continue
        if isinstance(s, ast.Return):
            if tail is not None or i != len(stmts) - 1 or s.value is None:
                bad(s, "return inside a loop / not last")
            out.append(f"{p}pure ({expr(s.value)})")
            return out
        if isinstance(s, ast.If):
            if tail is None or s.orelse or len(s.body) != 1 or not isinstance(s.body[0], ast.Continue):
                bad(s, "if statement other than `if c: continue` in a loop")
            rest = block(stmts[i + 1:], ind + 1, set(bound), typed, tail)
            out.append(f"{p}if {expr(s.test)} then {tail} else do")
            out.extend(rest)
            return out
        if isinstance(s, ast.Assign):
            if len(s.targets) != 1:
                bad(s, "chained assignment")
            t = s.targets[0]
            if isinstance(t, ast.Name):
                ty = f" : {typed[t.id]}" if t.id in typed and t.id not in bound else ""
                out.append(f"{p}let {lname(t.id)}{ty} := {expr(s.value)}")
                bound.add(t.id)
                continue
            if isinstance(t, ast.Subscript) and isinstance(t.value, ast.Name):
                d = lname(t.value.id)
                out.append(f"{p}let {d} := pySet {d} {expr(t.slice)} {expr(s.value)}")
                continue
            if isinstance(t, ast.Subscript) and isinstance(t.value, ast.Subscript) and isinstance(t.value.value, ast.Name):
                d = lname(t.value.value.id)
                k1, k2 = expr(t.value.slice), expr(t.slice)
                out.append(f"{p}let rhs_ := {expr(s.value)}")      # Python evaluates the right-hand side first
                out.append(f"{p}let {d} := pySet {d} {k1} (pySet (← pyGet {d} {k1}) {k2} rhs_)")
                continue
            bad(s, "assignment target")
        if isinstance(s, ast.AugAssign):
            t = s.target
            if not isinstance(s.op, ast.Add) or not (isinstance(t, ast.Subscript) and isinstance(t.value, ast.Name)):
                bad(s, "augmented assignment other than `d[k] += e`")
            d, k = lname(t.value.id), expr(t.slice)
            out.append(f"{p}let {d} := pySet {d} {k} ((← pyGet {d} {k}) + {expr(s.value)})")
            continue
        if isinstance(s, ast.Expr) and isinstance(s.value, ast.Call) and isinstance(s.value.func, ast.Attribute) \
                and s.value.func.attr == "append" and len(s.value.args) == 1 and not s.value.keywords:
            t = s.value.func.value
            if not (isinstance(t, ast.Subscript) and isinstance(t.value, ast.Name)):
                bad(s, "append on something else than `d[k]`")
            d, k = lname(t.value.id), expr(t.slice)
            out.append(f"{p}let {d} := pySet {d} {k} ((← pyGet {d} {k}) ++ [{expr(s.value.args[0])}])")
            continue
        if isinstance(s, ast.For):
            if s.orelse:
                bad(s, "for … else")
            if isinstance(s.target, ast.Name):
                pat, tnames = lname(s.target.id), [s.target.id]
            elif isinstance(s.target, ast.Tuple) and all(isinstance(x, ast.Name) for x in s.target.elts):
                pat, tnames = "(" + ", ".join(lname(x.id) for x in s.target.elts) + ")", [x.id for x in s.target.elts]
            else:
                bad(s, "loop target")
            state = [n for n in assigned(s.body) if n in bound]
            if not state:
                bad(s, "loop without an effect on an outer variable")
            st = tup(state)
            body = block(s.body, ind + 2, set(bound) | set(tnames), typed, f"pure {st}")
            out.append(f"{p}let {st} ← pyForM {expr(s.iter)} {st} (fun {pat} {st} => do")
            out.extend(body)
            out.append(f"{p}  )")
            continue
        bad(s, f"statement {type(s).__name__}")
    if tail is None:
        bad(stmts[-1] if stmts else None, "function without a final return")
    out.append(f"{p}{tail}")
    return out


def find_method(tree, cls, name):
    for n in tree.body:
        if isinstance(n, ast.ClassDef) and n.name == cls:
            hits = [m for m in n.body if isinstance(m, ast.FunctionDef) and m.name == name]
            if len(hits) != 1:
                raise Unsupported(f"{cls}.{name}: {len(hits)} definitions")
            return hits[0]
    raise Unsupported(f"class {cls} not found")


def emit(tree, rel, key) -> str:
    cls, py, lean, binders, ret, typed = SPECS[key]
    fn = find_method(tree, cls, py)
    args = [a.arg for a in fn.args.args]
    want = {"ma_pre": ["self", "observation"], "ippo_pre": ["self", "observation"], "sum": ["self", "rewards"],
            "shared": ["self", "input"]}[key]
    if args != want or fn.args.vararg or fn.args.kwarg or fn.args.kwonlyargs or fn.decorator_list:
        bad(fn, f"{cls}.{py}: signature {args}")
    body = block(fn.body, 1, set(want[1:]), typed, None)
    return (f"/-- `{cls}.{py}` ({rel}:{fn.lineno}) -/\n"
            f"def {lean} {binders} : M ({ret}) := do\n" + "\n".join(body) + "\n")


def translate_sources(base_src: str, ippo_src: str) -> str:
    tb, ti = ast.parse(base_src), ast.parse(ippo_src)
    return "\n".join([emit(tb, BASE, "ma_pre"), emit(tb, BASE, "sum"), emit(ti, IPPO, "ippo_pre"),
                      emit(ti, IPPO, "shared")])


HEADER = """/-
  Gen/ObsMaGen.lean — GENERATED by harness/py2lean_obsma.py from
  {src}
  (MultiAgentRLAlgorithm.preprocess_observation / sum_shared_rewards, IPPO.preprocess_observation /
  assemble_shared_inputs: the dict loops over agents); do not edit.  Core Lean only (prelude of Gen/ObsValGen.lean).
  `Proofs/ObsMaGenEq.lean` proves these definitions equal to their counterparts in `Model/Obs.lean`.
  Assumed: the per-leaf `preprocess_observation` (with the fixed `device` / `normalize_images` of `self`),
  `concatenate_tensors` and `stack_experiences` are function parameters; rewards are any type with `+` and `0`;
  `self.observation_space` is a Mapping (`.get`); `agent_ids` / `shared_agent_ids` are parameters; agent ids are strings.
-/
"""


def translate(repo: Path):
    srcs = []
    for rel in REL_SOURCES:
        p = Path(repo) / rel
        if not p.exists():
            raise Unsupported(f"{rel} not found under {repo}")
        srcs.append(p.read_text())
    sha = hashlib.sha256("\0".join(srcs).encode()).hexdigest()
    try:
        body = translate_sources(srcs[0], srcs[1])
    except SyntaxError as e:
        raise Unsupported(f"syntax error: {e}")
    text = (HEADER.format(src=REL_SOURCE) + SHA_PREFIX + sha + "\nimport Gen.ObsValGen\n" + PRELUDE
            + "\n/-! ### translated source -/\n\n" + body + "\nend ObsMaGen\n")
    return text, sha


def strip_sha(text: str) -> str:
    return "\n".join(l for l in text.splitlines() if not l.startswith(SHA_PREFIX)) + "\n"


def write_if_changed(text: str, out: Path, force: bool = False) -> bool:
    out = Path(out)
    if not force and out.exists() and strip_sha(out.read_text()) == strip_sha(text):
        return False
    out.parent.mkdir(parents=True, exist_ok=True)
    tmp = out.with_suffix(out.suffix + f".tmp{os.getpid()}")
    tmp.write_text(text)
    os.replace(tmp, out)
    return True


def repo_dir() -> Path:
    return Path(os.environ.get("VERIF_REPO", "/repo"))


def main(argv=None) -> int:
    import argparse
    ap = argparse.ArgumentParser()
    ap.add_argument("--repo", default=None)
    ap.add_argument("--out", default=str(DEFAULT_OUT))
    ap.add_argument("--stdout", action="store_true")
    ap.add_argument("--force", action="store_true")
    a = ap.parse_args(argv)
    try:
        text, sha = translate(Path(a.repo) if a.repo else repo_dir())
    except Unsupported as e:
        print(f"py2lean_obsma: unsupported: {e}", file=sys.stderr)
        return 3
    if a.stdout:
        sys.stdout.write(text)
        return 0
    changed = write_if_changed(text, Path(a.out), a.force)
    print(f"py2lean_obsma: {'wrote' if changed else 'unchanged'} {a.out} (sha256 {sha[:12]})")
    return 0


if __name__ == "__main__":
    sys.exit(main())
