#!/usr/bin/env python3
"""
py2lean_obsval.py — translate the VALUE logic of observation handling (property C15) into Lean 4.

  * REPO/agilerl/utils/algo_utils.py      `maybe_add_batch_dim`, `apply_image_normalization`, and of
                                          `preprocess_observation` the leaf part: the `isinstance(observation_space,
                                          spaces.Box | Discrete | MultiDiscrete | MultiBinary)` chain, specialised per
                                          class (`preprocess_observation_Box`, `_Discrete`, `_MultiDiscrete`,
                                          `_MultiBinary`: the branch body followed by the statements after the chain)
  * REPO/agilerl/algorithms/core/base.py  `MultiAgentRLAlgorithm.get_homo_id`, `._agent_position`,
                                          `.assemble_homogeneous_outputs`, `.disassemble_homogeneous_outputs`,
                                          `.stack_critic_observations` (the two branches for a non-Dict, non-Tuple
                                          `single_space`: `stack_critic_observations_leaf`)

    python3 harness/py2lean_obsval.py [--repo DIR] [--out FILE] [--stdout] [--force]

Reads the *source text* only (Python `ast`; agilerl / numpy / torch are never imported) and writes
lean/Gen/ObsValGen.lean (namespace `ObsValGen`, core Lean only).  `Proofs/ObsValGenEq.lean` proves the generated
definitions equal to `Model/Obs.lean` (`applyNormV`, `preprocess`, `oneHotAll` / `mdRow`, `assembleHomogeneous`,
`disassembleHomogeneous`, `stackCritic` / `stackCriticImg`, `homoId`); `Props/C15.lean` restates the value theorems
over them (`C15_source_translation_*`).  py2lean_obs.py / Gen/ObsGen.lean translate the SHAPE logic of the same
file (containers, Dict / Tuple recursion); this file adds the values.

Representation (the fixed prelude of the generated file)
  * a tensor / ndarray is `T α` = shape + flat row-major data; a float is `X` = an exact rational or `pinf / ninf / nan`
    with IEEE-like `-` and `/` (`0/0 = nan`, `c/0 = ±inf`; signed zeros are not distinguished), so a division by zero
    in the source is visible in the generated result, not totalised away; `.long()` truncates towards zero and is
    `Exn.cast` on a non-finite value; integer tensors are `T Int`;
  * `spaces.Box` is `Box` (shape, flat `low` / `high` over `X`), Discrete `Disc`, MultiDiscrete `MDisc`, MultiBinary `MBin`;
  * element-wise `a - b`, `a / b` are `tSub`, `tDiv`: `b` is broadcast over the LEADING dimensions of `a` (`a.shape`
    ends with `b.shape`; numpy's size-1 broadcasting is not modelled: `Exn.broadcast`);
  * a dict keyed by strings is `PyDict V`: the pairs in insertion order; `d[k]` is `pyGet` (`Exn.key`), `d[k] = v` `pySet`;
  * every generated function is `M = Except Exn`-valued, `do` notation, statements in source order; a Python
    exception is `.error`; `raise C(…)` is `throw (Exn.raised "C")`.
  * statements are translated in single-assignment style: `x = e` is `let x ← e` (shadowing); an `if` whose branches
    re-bind variables returns the tuple of those variables; an `if` with a branch that ends in `return` / `raise`
    takes the rest of the block into the other branch; `for x in it` is `pyForM it <state> (fun x <state> => …)`
    where the state is the tuple of outer variables the body re-binds (also through `d[k] = …`, `.append`).

Supported subset (anything else raises `Unsupported` naming construct and line — never a guess)
  * statements: docstring, `warnings.warn(…)` (no effect on values: skipped), `x = e`, `x: T = e`, `d[k] = e`,
    `x.append(e)`, `if / elif / else`, `for x in e` / `for i, x in enumerate(e)`, `raise C(…)`, `return e`;
  * expressions: naturals, `-1`, strings, names, `self.<attr>` (table SELF), tuples `(a,)` (a shape / reshape dims,
    `-1` = the free dimension), `a if c else b`, `and / or / not`, `== != < <= > >=` on naturals, `x == c` of an
    array against a number, `in` (ndarray / list of ids / dict), `np.inf`, `-np.inf`, `len`, `int`, `sum`,
    `enumerate`, `range`, `list(d.values())`, `x.shape`, `len(x.shape)`, `.low .high .n .nvec .shape` of a space, `l[i]`, `d[k]`, `x[i]`,
    one-`for` list comprehensions, `isinstance(x, C)` (table ISINSTANCE: decided by typing or an explicit Bool
    parameter), and the calls in table CALLS (`np.all`, `np.where / torch.where`, `np.ones_like / torch.ones_like`,
    `torch.tensor`, `np.expand_dims`, `.unsqueeze`, `.reshape(-1, *s)`, `.squeeze()`, `.long()`, `.float()`, `F.one_hot`,
    `torch.split`, `torch.cat`, `torch.stack`, `np.stack`, `np.reshape`, `.rsplit(sep, 1)`, `.index`,
    `is_image_space` (a Bool parameter), the translated functions themselves).

Assumptions (listed again in the header of the generated file)
  * `device=` / `dtype=` arguments are erased: `torch.tensor(bounds, dtype=observation.dtype)` keeps the values (true for
    float32 observations and bounds; the correspondence run checks uint8 / int8 / float64 spaces against the model);
  * in `apply_image_normalization` every array derived from the bounds is a tensor exactly when the observation is
    (`isinstance(<local>, torch.Tensor)` = parameter `observation_is_tensor`); in `preprocess_observation` the
    observation is a tensor after `obs_to_tensor` (Gen/ObsGen.lean) — the part before the leaf chain is not repeated here;
  * the gymnasium space classes are disjoint, so the order of the `isinstance` chain does not matter;
  * agent ids are strings; `self.shared_agent_ids`, `self.homogeneous_agents`, `self.agent_ids`, `self.n_agents` are
    parameters (built in `__init__`, not translated); `is_image_space(self.single_space)` is a Bool parameter.
"""
from __future__ import annotations

import ast
import hashlib
import os
import sys
from pathlib import Path

HERE = Path(__file__).resolve().parent
DEFAULT_OUT = HERE.parent / "lean" / "Gen" / "ObsValGen.lean"
UTILS = "agilerl/utils/algo_utils.py"
BASE = "agilerl/algorithms/core/base.py"
REL_SOURCES = (UTILS, BASE)
REL_SOURCE = "agilerl/{utils/algo_utils,algorithms/core/base}.py"
SHA_PREFIX = "-- sha256(source) = "
BASE_CLASS = "MultiAgentRLAlgorithm"
LEAN_KEYWORDS = {"at", "from", "end", "in", "fun", "let", "do", "then", "else", "if", "match", "with", "open", "show",
                 "have", "input", "output", "instance", "class", "structure", "where", "deriving", "theorem", "def"}


class Unsupported(Exception):
    pass


def bad(node, what):
    raise Unsupported(f"{what} (line {getattr(node, 'lineno', '?')})")


PRELUDE = r'''set_option linter.unusedVariables false
namespace ObsValGen

/-! ### torch / numpy / Python semantics used by the translation (fixed text) -/

/-- a float: an exact rational or one of the IEEE specials -/
inductive X where
  | fin (q : Rat) | pinf | ninf | nan
deriving DecidableEq, Repr

/-- the exception a call ends with -/
inductive Exn where
  | raised (cls : String)   -- `raise cls(...)` in the translated source (or the named class from numpy)
  | broadcast               -- operands of an element-wise operation do not line up (see header)
  | reshape                 -- `reshape` impossible (element count)
  | index                   -- IndexError
  | key                     -- KeyError
  | onehot                  -- `F.one_hot`: class value negative or ≥ num_classes
  | cast                    -- `.long()` of a non-finite float (undefined behaviour in torch)
  | cat                     -- `torch.cat` / `torch.stack` / `torch.split` / `np.stack` operands or arguments outside the modelled forms
deriving DecidableEq, Repr

abbrev M := Except Exn

/-- a tensor / ndarray: shape and flat row-major data -/
structure T (α : Type) where
  shape : List Nat
  data : List α
deriving Repr, DecidableEq

/-- `spaces.Box`: shape and the flat `low` / `high` arrays -/
structure Box where
  shape : List Nat
  lowData : List X
  highData : List X
def Box.low (s : Box) : T X := ⟨s.shape, s.lowData⟩
def Box.high (s : Box) : T X := ⟨s.shape, s.highData⟩
structure Disc where
  n : Nat
structure MDisc where
  nvec : List Nat
def MDisc.shape (s : MDisc) : List Nat := [s.nvec.length]
structure MBin where
  n : Nat

/-- a Python dict with string keys: (key, value) pairs in insertion order -/
structure PyDict (V : Type) where
  items : List (String × V)
deriving Repr

def numel : List Nat → Nat
  | [] => 1
  | d :: r => d * numel r
def chunkAux {α} (k : Nat) : Nat → List α → List (List α)
  | 0, _ => []
  | _ + 1, [] => []
  | f + 1, x :: xs => ((x :: xs).take k) :: chunkAux k f ((x :: xs).drop k)
def chunk {α} (k : Nat) (l : List α) : List (List α) := chunkAux k l.length l

/-! IEEE arithmetic (signed zeros are not distinguished: `x - x` is `+0`) -/
def X.neg : X → X
  | .fin q => .fin (-q) | .pinf => .ninf | .ninf => .pinf | .nan => .nan
def X.sub : X → X → X
  | .fin a, .fin b => .fin (a - b)
  | .nan, _ => .nan
  | _, .nan => .nan
  | .pinf, .pinf => .nan
  | .ninf, .ninf => .nan
  | .pinf, _ => .pinf
  | .ninf, _ => .ninf
  | .fin _, .pinf => .ninf
  | .fin _, .ninf => .pinf
def X.div : X → X → X
  | .fin a, .fin b =>
    if b = 0 then (if a = 0 then .nan else if 0 < a then .pinf else .ninf) else .fin (a / b)
  | .nan, _ => .nan
  | _, .nan => .nan
  | .fin _, _ => .fin 0
  | _, .pinf => .nan
  | _, .ninf => .nan
  | .pinf, .fin b => if 0 ≤ b then .pinf else .ninf
  | .ninf, .fin b => if 0 ≤ b then .ninf else .pinf
/-- `==` of floats (`nan` equals nothing) -/
def X.eq : X → X → Bool
  | .nan, _ => false
  | _, .nan => false
  | a, b => decide (a = b)

/-- `c in a` for an ndarray: `(a == c).any()` -/
def npIn (c : X) (a : T X) : Bool := a.data.any (fun x => X.eq x c)
/-- `a == c` against a scalar -/
def npEqS (a : T X) (c : X) : T Bool := ⟨a.shape, a.data.map (fun x => X.eq x c)⟩
def npAll (a : T Bool) : Bool := a.data.all id
/-- `torch.tensor(a, device=…, dtype=…)`: the values (see header) -/
def torchTensor {α} (a : T α) : T α := a

/-- is `p` a suffix of `s` -/
def endsWith (s p : List Nat) : Bool := s.drop (s.length - p.length) == p
/-- element-wise `f a b`, `b` broadcast over the leading dimensions of `a` (`a.shape` ends with `b.shape`) -/
def bcast (f : X → X → X) (a b : T X) : M (T X) :=
  if b.data.length ≠ numel b.shape ∨ numel b.shape = 0 ∨ !(endsWith a.shape b.shape) then .error .broadcast
  else .ok ⟨a.shape, ((chunk (numel b.shape) a.data).map (fun r => List.zipWith f r b.data)).flatten⟩
def tSub (a b : T X) : M (T X) := bcast X.sub a b
def tDiv (a b : T X) : M (T X) := bcast X.div a b

/-- `torch.ones_like(a)` / `np.ones_like(a)` -/
def onesLike (a : T X) : T X := ⟨a.shape, a.data.map (fun _ => X.fin 1)⟩
/-- `torch.where(c, a, b)` / `np.where(c, a, b)` of same-shape operands -/
def tWhere (c : T Bool) (a b : T X) : M (T X) :=
  if c.shape = a.shape ∧ a.shape = b.shape then
    .ok ⟨a.shape, List.zipWith (fun (cx : Bool × X) y => if cx.1 then cx.2 else y) (List.zip c.data a.data) b.data⟩
  else .error .broadcast

/-- position at which `unsqueeze(d)` / `expand_dims(·, d)` inserts the new axis -/
def unsqDim (rank : Nat) (d : Int) : Option Nat :=
  if 0 ≤ d then (if d.toNat ≤ rank then some d.toNat else none)
  else if (-d).toNat ≤ rank + 1 then some (rank + 1 - (-d).toNat) else none
def tUnsqueeze {α} (t : T α) (d : Int) : M (T α) :=
  match unsqDim t.shape.length d with
  | some k => .ok ⟨t.shape.take k ++ [1] ++ t.shape.drop k, t.data⟩
  | none => .error .index
def npExpandDims {α} (t : T α) (d : Int) : M (T α) := tUnsqueeze t d
/-- `x.reshape(-1, *p)` -/
def tReshapeNeg1 {α} (t : T α) (p : List Nat) : M (T α) :=
  if numel p = 0 ∨ numel t.shape % numel p ≠ 0 then .error .reshape
  else .ok ⟨(numel t.shape / numel p) :: p, t.data⟩
/-- `x.squeeze()` -/
def tSqueeze {α} (t : T α) : T α := ⟨t.shape.filter (· ≠ 1), t.data⟩

/-- truncation towards zero -/
def ratTrunc (q : Rat) : Int := Int.tdiv q.num q.den
def xLong : X → M Int
  | .fin q => .ok (ratTrunc q)
  | _ => .error .cast
def mapM' {α β} (f : α → M β) : List α → M (List β)
  | [] => .ok []
  | x :: r =>
    match f x with
    | .error e => .error e
    | .ok y =>
      match mapM' f r with
      | .error e => .error e
      | .ok ys => .ok (y :: ys)
def tLongX (t : T X) : M (T Int) :=
  match mapM' xLong t.data with
  | .ok d => .ok ⟨t.shape, d⟩
  | .error e => .error e
class ToLong (α : Type) where
  toLong : T α → M (T Int)
instance : ToLong X := ⟨tLongX⟩
instance : ToLong Int := ⟨fun t => .ok t⟩
/-- `x.long()` -/
def tLong {α} [ToLong α] (t : T α) : M (T Int) := ToLong.toLong t
/-- `x.float()` -/
def tFloatI (t : T Int) : T X := ⟨t.shape, t.data.map (fun (v : Int) => X.fin (v : Rat))⟩
class ToFloat (α : Type) where
  toFloat : T α → T X
instance : ToFloat Int := ⟨tFloatI⟩
instance : ToFloat X := ⟨fun t => t⟩
/-- `x.float()` -/
def tFloat {α} [ToFloat α] (t : T α) : T X := ToFloat.toFloat t
def oneHotVec (n : Nat) (v : Nat) : List Int :=
  (List.range n).map (fun i => if i = v then 1 else 0)
def oneHot1 (n : Nat) (v : Int) : M (List Int) :=
  if 0 ≤ v ∧ v < (n : Int) then .ok (oneHotVec n v.toNat) else .error .onehot
/-- `F.one_hot(x, num_classes=n)`: appends a last dimension of size `n` -/
def fOneHot (t : T Int) (n : Nat) : M (T Int) :=
  match mapM' (oneHot1 n) t.data with
  | .ok d => .ok ⟨t.shape ++ [n], d.flatten⟩
  | .error e => .error e
/-- `torch.split(x, size, dim)` — modelled for `size = 1`, `dim = 1` on a rank-2 tensor: the columns, each `[B, 1]` -/
def torchSplit {α} (t : T α) (size : Nat) (dim : Nat) : M (List (T α)) :=
  match t.shape with
  | [b, c] =>
    if size = 1 ∧ dim = 1 ∧ 0 < c then
      .ok ((List.range c).map (fun j => ⟨[b, 1], (chunk c t.data).filterMap (fun r => r[j]?)⟩))
    else .error .cat
  | _ => .error .cat
/-- rows (along all dimensions but the last) of a tensor -/
def lastRows {α} (t : T α) : List (List α) := chunk (t.shape.getLastD 0) t.data
/-- `torch.cat(ts, dim)` along the LAST dimension (`dim = -1`, or `dim = rank - 1`): row `r` of the result is the
    concatenation of row `r` of every operand; the leading shapes must agree -/
def torchCat {α} (ts : List (T α)) (dim : Int) : M (T α) :=
  match ts with
  | [] => .error .cat
  | t0 :: _ =>
    let lead := t0.shape.dropLast
    if t0.shape = [] ∨ !(dim = -1 ∨ dim = (t0.shape.length : Int) - 1)
        ∨ ts.any (fun t => t.shape = [] ∨ t.shape.dropLast ≠ lead ∨ t.shape.getLastD 0 = 0) then .error .cat
    else .ok ⟨lead ++ [(ts.map (fun t => t.shape.getLastD 0)).sum],
              ((List.range (numel lead)).map (fun r => (ts.map (fun t => (lastRows t).getD r [])).flatten)).flatten⟩
/-- `torch.stack(ts, dim=2)` of `[B, C, H, W]` tensors: `[B, C, A, H, W]` -/
def torchStack {α} (ts : List (T α)) (dim : Nat) : M (T α) :=
  match ts with
  | [] => .error .cat
  | t0 :: _ =>
    match t0.shape with
    | [b, c, h, w] =>
      if dim ≠ 2 ∨ ts.any (fun t => t.shape ≠ t0.shape) then .error .cat
      else .ok ⟨[b, c, ts.length, h, w],
        ((List.range b).map (fun i =>
          ((List.range c).map (fun ch =>
            (ts.map (fun t => (chunk (h * w) ((chunk (c * (h * w)) t.data).getD i [])).getD ch [])).flatten)).flatten)).flatten⟩
    | _ => .error .cat
/-- `np.stack(xs, axis=0)` -/
def npStack {α} (xs : List (T α)) (axis : Nat) : M (T α) :=
  match xs with
  | [] => .error (.raised "ValueError")
  | x0 :: _ =>
    if axis ≠ 0 ∨ xs.any (fun x => x.shape ≠ x0.shape) then .error .cat
    else .ok ⟨xs.length :: x0.shape, (xs.map (·.data)).flatten⟩
/-- `np.reshape(x, dims)`, one `-1` (`none`) allowed -/
def npReshape {α} (x : T α) (dims : List (Option Nat)) : M (T α) :=
  let known := (dims.filterMap id).foldl (· * ·) 1
  let holes := (dims.filter Option.isNone).length
  if holes = 0 then (if known = x.data.length then .ok ⟨dims.filterMap id, x.data⟩ else .error .reshape)
  else if holes = 1 ∧ known ≠ 0 ∧ x.data.length % known = 0 then
    .ok ⟨dims.map (fun d => d.getD (x.data.length / known)), x.data⟩
  else .error .reshape
/-- `x[i]` along the first dimension -/
def tIdx0 {α} (x : T α) (i : Nat) : M (T α) :=
  match x.shape with
  | d :: r => if i < d then .ok ⟨r, (chunk (numel r) x.data).getD i []⟩ else .error .index
  | [] => .error .index
/-- `a + b` of same-shape arrays (`0 + b` is `b`: `none` is the Python number 0 of `sum_shared_rewards`) -/
def pyAddArr (a : Option (T Rat)) (b : T Rat) : M (Option (T Rat)) :=
  match a with
  | none => .ok (some b)
  | some a => if a.shape = b.shape then .ok (some ⟨a.shape, List.zipWith (· + ·) a.data b.data⟩) else .error .broadcast

/-! Python -/
def pySum (l : List Nat) : Nat := l.sum
def pyIndex {α} (l : List α) (i : Nat) : M α :=
  match l[i]? with
  | some x => .ok x
  | none => .error .index
def pyEnumerateFrom {α} : Nat → List α → List (Nat × α)
  | _, [] => []
  | i, x :: r => (i, x) :: pyEnumerateFrom (i + 1) r
def pyEnumerate {α} (l : List α) : List (Nat × α) := pyEnumerateFrom 0 l
def pyRange (n : Nat) : List Nat := List.range n
def pyInList (x : String) (l : List String) : Bool := l.contains x
def pyListIndex (l : List String) (x : String) : M Nat :=
  match l.findIdx? (· == x) with
  | some i => .ok i
  | none => .error (.raised "ValueError")
def pyGetAux {V} (k : String) : List (String × V) → M V
  | [] => .error .key
  | (k', v) :: r => if k' = k then .ok v else pyGetAux k r
def pyGet {V} (d : PyDict V) (k : String) : M V := pyGetAux k d.items
def pyInDict {V} (k : String) (d : PyDict V) : Bool := d.items.any (fun p => p.1 == k)
def pySetAux {V} (k : String) (v : V) : List (String × V) → List (String × V)
  | [] => [(k, v)]
  | (k', v') :: r => if k' = k then (k, v) :: r else (k', v') :: pySetAux k v r
/-- `d[k] = v` (an existing key keeps its place) -/
def pySet {V} (d : PyDict V) (k : String) (v : V) : PyDict V := ⟨pySetAux k v d.items⟩
def pyEmpty {V} : PyDict V := ⟨[]⟩
def pyDictOfPairs {V} (l : List (String × V)) : PyDict V := l.foldl (fun d p => pySet d p.1 p.2) pyEmpty
def pyKeys {V} (d : PyDict V) : List String := d.items.map (·.1)
def pyValues {V} (d : PyDict V) : List V := d.items.map (·.2)
def pyItems {V} (d : PyDict V) : List (String × V) := d.items
/-- `for x in l: <body>` threading the variables the body re-binds; the first exception aborts -/
def pyForM {β σ} : List β → σ → (β → σ → M σ) → M σ
  | [], s, _ => .ok s
  | x :: r, s, f =>
    match f x s with
    | .error e => .error e
    | .ok s' => pyForM r s' f
/-- `sorted(l, key=f)` (stable insertion sort; an exception of `f` propagates) -/
def insertByKey {β} (x : β × Nat) : List (β × Nat) → List (β × Nat)
  | [] => [x]
  | y :: r => if x.2 < y.2 then x :: y :: r else y :: insertByKey x r
def pySortedByM {β} (l : List β) (f : β → M Nat) : M (List β) :=
  match mapM' (fun x => match f x with | .ok k => .ok (x, k) | .error e => .error e) l with
  | .ok ks => .ok ((ks.foldl (fun acc x => insertByKey x acc) []).map (·.1))
  | .error e => .error e
/-- `s.rsplit(sep, 1)` -/
def pyRsplit1 (s sep : String) : List String :=
  match (s.splitOn sep).reverse with
  | last :: (p :: ps) => [sep.intercalate (p :: ps).reverse, last]
  | _ => [s]
'''


def lname(n: str) -> str:
    return n + "_" if n in LEAN_KEYWORDS else n


# ------------------------------------------------------------------------------------------------ function specs
class Spec:
    def __init__(self, lean_name, params, ret, isinst=None, selfattrs=None, kinds=None, implicit="", calls=None):
        self.lean_name = lean_name      # name of the generated definition
        self.params = params            # [(lean name, lean type)] in order, as printed
        self.ret = ret                  # lean return type (inside M)
        self.isinst = isinst or {}      # (python var or '*', class name) -> lean Bool term
        self.selfattrs = selfattrs or {}  # self.<attr> -> (lean term, kind)
        self.kinds = kinds or {}        # python name -> kind ('dict', 'list', 'ids', 'arr', 'space', 'other')
        self.implicit = implicit
        self.calls = calls or {}


SELF = {
    "agent_ids": ("self_agent_ids", "ids"),
    "shared_agent_ids": ("self_shared_agent_ids", "ids"),
    "homogeneous_agents": ("self_homogeneous_agents", "dict"),
    "n_agents": ("self_n_agents", "other"),
}


class Ctx:
    """compilation context of one function"""

    def __init__(self, spec: Spec, fname: str):
        self.spec, self.fname = spec, fname
        self.kinds = dict(spec.kinds)


# ------------------------------------------------------------------------------------------------ expressions
def attr_chain(e):
    parts = []
    while isinstance(e, ast.Attribute):
        parts.append(e.attr)
        e = e.value
    if isinstance(e, ast.Name):
        parts.append(e.id)
        return ".".join(reversed(parts))
    return None


def kw(call, name, pos=None, default=None):
    for k in call.keywords:
        if k.arg == name:
            return k.value
    if pos is not None and pos < len(call.args):
        return call.args[pos]
    if default is not None:
        return default
    bad(call, f"missing argument `{name}`")


def only_kw(call, allowed):
    for k in call.keywords:
        if k.arg not in allowed:
            bad(call, f"unexpected keyword `{k.arg}`")


def int_lit(e):
    """integer literal incl. negative"""
    if isinstance(e, ast.Constant) and isinstance(e.value, int) and not isinstance(e.value, bool):
        return e.value
    if isinstance(e, ast.UnaryOp) and isinstance(e.op, ast.USub):
        v = int_lit(e.operand)
        return None if v is None else -v
    return None


def lean_int(v: int) -> str:
    return f"({v})" if v < 0 else str(v)


def kind_of(cx: Ctx, e) -> str:
    if isinstance(e, ast.Name):
        return cx.kinds.get(e.id, "other")
    if isinstance(e, ast.Attribute) and isinstance(e.value, ast.Name) and e.value.id == "self":
        return SELF.get(e.attr, (None, "other"))[1]
    if isinstance(e, ast.Attribute) and e.attr in ("low", "high"):
        return "arr"
    if isinstance(e, ast.Attribute) and e.attr in ("nvec", "shape"):
        return "list"
    if isinstance(e, (ast.List, ast.ListComp)):
        return "list"
    if isinstance(e, ast.Dict):
        return "dict"
    if isinstance(e, ast.Subscript):
        k = kind_of(cx, e.value)
        if k == "dict":
            return cx.kinds.get("@value:" + (attr_chain(e.value) or ""), "arr")
        if k == "list":
            return "arr"
        return "arr"
    if isinstance(e, ast.Call):
        c = attr_chain(e.func)
        if c == "list":
            return "list"
    return "other"


def expr(cx: Ctx, e) -> str:
    """Lean term (inside a `do` block: failing operations appear as nested actions `(← …)`)"""
    X = lambda a: expr(cx, a)
    if isinstance(e, ast.Constant):
        if isinstance(e.value, bool):
            return "true" if e.value else "false"
        if isinstance(e.value, int):
            return str(e.value)
        if isinstance(e.value, str):
            return '"' + e.value.replace("\\", "\\\\").replace('"', '\\"') + '"'
        bad(e, f"constant {e.value!r}")
    if isinstance(e, ast.Name):
        return lname(e.id)
    if isinstance(e, ast.UnaryOp):
        if isinstance(e.op, ast.Not):
            return f"(!{X(e.operand)})"
        if isinstance(e.op, ast.USub):
            if attr_chain(e.operand) == "np.inf":
                return "(X.neg X.pinf)"
            v = int_lit(e)
            if v is not None:
                return lean_int(v)
        bad(e, "unary operator")
    if isinstance(e, ast.BoolOp):
        op = " && " if isinstance(e.op, ast.And) else " || "
        return "(" + op.join(X(v) for v in e.values) + ")"
    if isinstance(e, ast.IfExp):
        return f"(← (if {X(e.test)} then (do pure ({X(e.body)})) else (do pure ({X(e.orelse)}))))"
    if isinstance(e, ast.Tuple):
        return "[" + ", ".join(X(v) for v in e.elts) + "]"
    if isinstance(e, ast.List):
        return "[" + ", ".join(X(v) for v in e.elts) + "]"
    if isinstance(e, ast.Dict):
        if e.keys:
            bad(e, "non-empty dict literal")
        return "pyEmpty"
    if isinstance(e, ast.Attribute):
        c = attr_chain(e)
        if c == "np.inf":
            return "X.pinf"
        if isinstance(e.value, ast.Name) and e.value.id == "self":
            if e.attr in cx.spec.selfattrs:
                return cx.spec.selfattrs[e.attr][0]
            if e.attr in SELF:
                return SELF[e.attr][0]
            bad(e, f"self.{e.attr}")
        if e.attr in ("low", "high", "n", "nvec", "shape"):
            return f"{X(e.value)}.{e.attr}"
        bad(e, f"attribute .{e.attr}")
    if isinstance(e, ast.BinOp):
        a, b = X(e.left), X(e.right)
        ka, kb = kind_of(cx, e.left), kind_of(cx, e.right)
        arrish = ka == "arr" or kb == "arr" or isinstance(e.left, ast.BinOp) and isinstance(e.left.op, (ast.Sub, ast.Div))
        if isinstance(e.op, ast.Sub) and arrish:
            return f"(← tSub {a} {b})"
        if isinstance(e.op, ast.Div) and arrish:
            return f"(← tDiv {a} {b})"
        if isinstance(e.op, ast.Add):
            return f"({a} + {b})"
        if isinstance(e.op, ast.Mult):
            return f"({a} * {b})"
        bad(e, "binary operator")
    if isinstance(e, ast.Compare):
        if len(e.ops) != 1:
            bad(e, "chained comparison")
        op, l, r = e.ops[0], e.left, e.comparators[0]
        if isinstance(op, (ast.In, ast.NotIn)):
            kr = kind_of(cx, r)
            if kr == "arr":
                t = f"(npIn {X(l)} {X(r)})"
            elif kr == "ids":
                t = f"(pyInList {X(l)} {X(r)})"
            elif kr == "dict":
                t = f"(pyInDict {X(l)} {X(r)})"
            else:
                bad(e, "`in` on an operand of unknown kind")
            return t if isinstance(op, ast.In) else f"(!{t})"
        if kind_of(cx, l) == "arr" and isinstance(op, ast.Eq):
            v = int_lit(r)
            if v is None:
                bad(e, "array compared with a non-literal")
            return f"(npEqS {X(l)} (X.fin {lean_int(v)}))"
        sym = {ast.Eq: "==", ast.NotEq: "!=", ast.Lt: "<", ast.LtE: "≤", ast.Gt: ">", ast.GtE: "≥"}.get(type(op))
        if sym is None:
            bad(e, "comparison operator")
        if sym in ("==", "!="):
            return f"({X(l)} {sym} {X(r)})"
        return f"(decide ({X(l)} {sym} {X(r)}))"
    if isinstance(e, ast.Subscript):
        k = kind_of(cx, e.value)
        if k == "dict":
            return f"(← pyGet {X(e.value)} {X(e.slice)})"
        if k in ("list", "ids"):
            return f"(← pyIndex {X(e.value)} {X(e.slice)})"
        if isinstance(e.value, ast.Call) and attr_chain(e.value.func) and attr_chain(e.value.func).endswith(".rsplit"):
            return f"(← pyIndex {X(e.value)} {X(e.slice)})"
        return f"(← tIdx0 {X(e.value)} {X(e.slice)})"
    if isinstance(e, ast.ListComp):
        if len(e.generators) != 1 or e.generators[0].ifs or e.generators[0].is_async:
            bad(e, "comprehension with several `for` / `if`")
        g = e.generators[0]
        saved = dict(cx.kinds)
        pat = target(cx, g.target)
        body = X(e.elt)
        cx.kinds = saved
        return f"(← mapM' (fun {pat} => do pure ({body})) {X(g.iter)})"
    if isinstance(e, ast.Call):
        return call(cx, e)
    bad(e, f"expression {type(e).__name__}")


def target(cx: Ctx, t) -> str:
    if isinstance(t, ast.Name):
        cx.kinds[t.id] = "arr" if t.id not in cx.kinds else cx.kinds[t.id]
        return lname(t.id)
    if isinstance(t, ast.Tuple) and all(isinstance(x, ast.Name) for x in t.elts):
        for x in t.elts:
            cx.kinds.setdefault(x.id, "other")
        return "(" + ", ".join(lname(x.id) for x in t.elts) + ")"
    bad(t, "loop / comprehension target")


def reshape_dims(cx, e) -> str:
    if not isinstance(e, ast.Tuple):
        bad(e, "reshape dims must be a tuple")
    out = []
    for d in e.elts:
        v = int_lit(d)
        if v == -1:
            out.append("none")
        elif v is not None and v < 0:
            bad(d, "negative dimension other than -1")
        else:
            out.append(f"some ({expr(cx, d)})")
    return "[" + ", ".join(out) + "]"


def isinstance_term(cx: Ctx, e) -> str:
    if len(e.args) != 2:
        bad(e, "isinstance arity")
    var = attr_chain(e.args[0])
    cls = attr_chain(e.args[1])
    if var is None or cls is None:
        bad(e, "isinstance on an expression / tuple of classes")
    cls = cls.split(".")[-1] if not cls.startswith("np.") else cls
    t = cx.spec.isinst.get((var, cls)) or cx.spec.isinst.get(("*", cls))
    if t is None:
        bad(e, f"isinstance({var}, {cls}) is not decided by the typing of `{cx.fname}`")
    return t


def call(cx: Ctx, e) -> str:
    X = lambda a: expr(cx, a)
    c = attr_chain(e.func)
    if c == "isinstance":
        return isinstance_term(cx, e)
    if c == "len":
        a = e.args[0]
        return f"{X(a)}.length"
    if c == "int":
        return X(e.args[0])
    if c == "sum":
        return f"(pySum {X(e.args[0])})"
    if c == "enumerate":
        return f"(pyEnumerate {X(e.args[0])})"
    if c == "range":
        if len(e.args) != 1:
            bad(e, "range with several arguments")
        return f"(pyRange {X(e.args[0])})"
    if c == "list":
        a = e.args[0]
        if isinstance(a, ast.Call) and isinstance(a.func, ast.Attribute) and a.func.attr == "values" and not a.args:
            return f"(pyValues {X(a.func.value)})"
        bad(e, "list(…) of something else than d.values()")
    if c == "np.all":
        return f"(npAll {X(e.args[0])})"
    if c in ("torch.where", "np.where"):
        if len(e.args) != 3 or e.keywords:
            bad(e, "where arity")
        return f"(← tWhere {X(e.args[0])} {X(e.args[1])} {X(e.args[2])})"
    if c in ("torch.ones_like", "np.ones_like"):
        return f"(onesLike {X(e.args[0])})"
    if c == "torch.tensor":
        only_kw(e, {"device", "dtype"})
        return f"(torchTensor {X(e.args[0])})"
    if c == "np.expand_dims":
        v = int_lit(kw(e, "axis", 1))
        if v is None:
            bad(e, "expand_dims axis")
        return f"(← npExpandDims {X(e.args[0])} {lean_int(v)})"
    if c == "F.one_hot":
        return f"(← fOneHot {X(e.args[0])} {X(kw(e, 'num_classes', 1))})"
    if c == "torch.split":
        return f"(← torchSplit {X(e.args[0])} {X(kw(e, 'split_size_or_sections', 1))} {X(kw(e, 'dim', 2))})"
    if c == "torch.cat":
        v = int_lit(kw(e, "dim", 1))
        if v is None:
            bad(e, "cat dim")
        return f"(← torchCat {X(e.args[0])} {lean_int(v)})"
    if c == "torch.stack":
        return f"(← torchStack {X(e.args[0])} {X(kw(e, 'dim', 1))})"
    if c == "np.stack":
        return f"(← npStack {X(e.args[0])} {X(kw(e, 'axis', 1))})"
    if c == "np.reshape":
        return f"(← npReshape {X(e.args[0])} {reshape_dims(cx, e.args[1])})"
    if c == "is_image_space":
        a = attr_chain(e.args[0])
        if a != "self.single_space":
            bad(e, "is_image_space of something else than self.single_space")
        return "single_space_is_image"
    if c in cx.spec.calls:
        pre, names = cx.spec.calls[c]
        args = [X(kw(e, n, i)) for i, n in enumerate(names)]
        return f"(← {pre} {' '.join(args)})"
    if isinstance(e.func, ast.Attribute):
        recv, m = e.func.value, e.func.attr
        if m == "unsqueeze":
            v = int_lit(e.args[0])
            if v is None:
                bad(e, "unsqueeze dim")
            return f"(← tUnsqueeze {X(recv)} {lean_int(v)})"
        if m == "reshape":
            if len(e.args) == 2 and int_lit(e.args[0]) == -1 and isinstance(e.args[1], ast.Starred):
                return f"(← tReshapeNeg1 {X(recv)} {X(e.args[1].value)})"
            bad(e, "reshape form")
        if m == "squeeze" and not e.args and not e.keywords:
            return f"(tSqueeze {X(recv)})"
        if m == "long" and not e.args:
            return f"(← tLong {X(recv)})"
        if m == "float" and not e.args:
            return f"(tFloat {X(recv)})"
        if m == "rsplit":
            if len(e.args) != 2 or int_lit(e.args[1]) != 1:
                bad(e, "rsplit maxsplit other than 1")
            return f"(pyRsplit1 {X(recv)} {X(e.args[0])})"
        if m == "index" and len(e.args) == 1:
            return f"(← pyListIndex {X(recv)} {X(e.args[0])})"
    bad(e, f"call of `{ast.unparse(e.func)}`")


# ------------------------------------------------------------------------------------------------ statements
def assigned(stmts) -> list[str]:
    """names (re-)bound by the statements, in order of first occurrence"""
    out: list[str] = []

    def add(n):
        if n not in out:
            out.append(n)

    def walk(ss):
        for s in ss:
            if isinstance(s, (ast.Assign, ast.AnnAssign)):
                ts = s.targets if isinstance(s, ast.Assign) else [s.target]
                for t in ts:
                    if isinstance(t, ast.Name):
                        add(t.id)
                    elif isinstance(t, ast.Subscript) and isinstance(t.value, ast.Name):
                        add(t.value.id)
                    else:
                        bad(s, "assignment target")
            elif isinstance(s, ast.Expr) and isinstance(s.value, ast.Call) and isinstance(s.value.func, ast.Attribute) \
                    and s.value.func.attr == "append" and isinstance(s.value.func.value, ast.Name):
                add(s.value.func.value.id)
            elif isinstance(s, ast.If):
                walk(s.body)
                walk(s.orelse)
            elif isinstance(s, ast.For):
                walk(s.body)
    walk(stmts)
    return out


def terminal(stmts) -> bool:
    if not stmts:
        return False
    s = stmts[-1]
    if isinstance(s, (ast.Return, ast.Raise)):
        return True
    if isinstance(s, ast.If):
        return terminal(s.body) and terminal(s.orelse)
    return False


def has_return(stmts) -> bool:
    return any(isinstance(n, ast.Return) for s in stmts for n in ast.walk(s))


def tup(names) -> str:
    names = [lname(n) for n in names]
    return names[0] if len(names) == 1 else "(" + ", ".join(names) + ")"


def is_skip(s) -> bool:
    if isinstance(s, ast.Expr) and isinstance(s.value, ast.Constant) and isinstance(s.value.value, str):
        return True
    if isinstance(s, ast.Expr) and isinstance(s.value, ast.Call) and attr_chain(s.value.func) == "warnings.warn":
        return True
    return False


def block(cx: Ctx, stmts, cont, ind: int, bound: set[str]) -> list[str]:
    """lines of a `do` block body; `cont` = None (the block must end in return / raise) or the list of variables
    whose values the block yields"""
    pad = "  " * ind
    out: list[str] = []
    bound = set(bound)
    i = 0
    while i < len(stmts):
        s = stmts[i]
        rest = stmts[i + 1:]
        if is_skip(s):
            i += 1
            continue
        if isinstance(s, ast.Return):
            if cont is not None:
                bad(s, "`return` inside a branch / loop that also falls through")
            if s.value is None:
                bad(s, "bare return")
            out.append(f"{pad}pure ({expr(cx, s.value)})")
            return out
        if isinstance(s, ast.Raise):
            c = s.exc.func if isinstance(s.exc, ast.Call) else s.exc
            name = attr_chain(c)
            if name is None:
                bad(s, "raise of an expression")
            out.append(f'{pad}throw (Exn.raised "{name}")')
            return out
        if isinstance(s, (ast.Assign, ast.AnnAssign)):
            ts = s.targets if isinstance(s, ast.Assign) else [s.target]
            if len(ts) != 1 or s.value is None:
                bad(s, "multiple assignment")
            t = ts[0]
            if isinstance(t, ast.Name):
                v = expr(cx, s.value)
                k = kind_of(cx, s.value)
                if k == "other" and isinstance(s.value, (ast.BinOp, ast.Call, ast.Subscript)):
                    k = "arr" if not (isinstance(s.value, ast.Tuple)) else "list"
                if isinstance(s.value, ast.Tuple):
                    k = "list"
                cx.kinds[t.id] = k
                out.append(f"{pad}let {lname(t.id)} := {v}")
                bound.add(t.id)
            elif isinstance(t, ast.Subscript) and isinstance(t.value, ast.Name):
                d = t.value.id
                if kind_of(cx, t.value) != "dict":
                    bad(s, "item assignment on a non-dict")
                out.append(f"{pad}let {lname(d)} := pySet {lname(d)} {expr(cx, t.slice)} {expr(cx, s.value)}")
            else:
                bad(s, "assignment target")
            i += 1
            continue
        if isinstance(s, ast.Expr) and isinstance(s.value, ast.Call) and isinstance(s.value.func, ast.Attribute) \
                and s.value.func.attr == "append" and isinstance(s.value.func.value, ast.Name):
            n = s.value.func.value.id
            out.append(f"{pad}let {lname(n)} := {lname(n)} ++ [{expr(cx, s.value.args[0])}]")
            i += 1
            continue
        if isinstance(s, ast.If):
            if isinstance(s.test, ast.Name) and kind_of(cx, s.test) == "list":
                c = f"(!{lname(s.test.id)}.isEmpty)"        # truthiness of a list
            else:
                c = expr(cx, s.test)
            tb, te = terminal(s.body), terminal(s.orelse)
            if tb and te:
                out.append(f"{pad}if {c} then")
                out += block(cx, s.body, None, ind + 1, bound)
                out.append(f"{pad}else")
                out += block(cx, s.orelse, None, ind + 1, bound)
                return out
            if tb or te:
                saved = dict(cx.kinds)
                out.append(f"{pad}if {c} then")
                out += block(cx, s.body if tb else list(s.body) + list(rest), None if tb else cont, ind + 1, bound)
                cx.kinds = dict(saved)
                out.append(f"{pad}else")
                out += block(cx, s.orelse if te else list(s.orelse) + list(rest), None if te else cont, ind + 1, bound)
                return out
            if has_return(s.body) or has_return(s.orelse):
                bad(s, "`return` nested in a branch that can fall through")
            vs = assigned(s.body + s.orelse)
            # a name bound in one branch only and not before is local to that branch
            vs = [v for v in vs if v in bound or (v in assigned(s.body) and v in assigned(s.orelse))]
            if vs:
                saved = dict(cx.kinds)
                out.append(f"{pad}let {tup(vs)} ← (if {c} then (do")
                out += block(cx, s.body, vs, ind + 2, bound)
                k1 = dict(cx.kinds)
                cx.kinds = dict(saved)
                out.append(f"{pad}  ) else (do")
                out += block(cx, s.orelse, vs, ind + 2, bound)
                out.append(f"{pad}  ))")
                for k_, v_ in k1.items():
                    cx.kinds.setdefault(k_, v_)
                bound |= set(vs)
            i += 1
            continue
        if isinstance(s, ast.For):
            if s.orelse:
                bad(s, "for … else")
            saved = dict(cx.kinds)
            it = expr(cx, s.iter)
            pat = target(cx, s.target)
            st = [v for v in assigned(s.body) if v in bound]
            if not st:
                bad(s, "loop without an effect on outer variables")
            if has_return(s.body):
                bad(s, "`return` inside a loop")
            out.append(f"{pad}let {tup(st)} ← pyForM {it} {tup(st)} (fun {pat} {tup(st)} => do")
            out += block(cx, s.body, st, ind + 2, bound)
            out.append(f"{pad}  )")
            for k_ in list(cx.kinds):
                if k_ not in saved and k_ not in st:
                    pass
            i += 1
            continue
        bad(s, f"statement {type(s).__name__}")
    if cont is None:
        raise Unsupported(f"`{cx.fname}`: a path falls off the end without `return`")
    out.append(f"{pad}pure {tup(cont)}")
    return out


def emit(spec: Spec, fname: str, body, lines_doc: str) -> str:
    cx = Ctx(spec, fname)
    ps = " ".join(f"({n} : {t})" for n, t in spec.params)
    bound = set(n for n, _ in spec.params) | set(spec.kinds)
    lines = block(cx, body, None, 1, bound)
    head = f"/-- {lines_doc} -/\ndef {spec.lean_name} {spec.implicit + ' ' if spec.implicit else ''}{ps} : M ({spec.ret}) := do"
    return head + "\n" + "\n".join(lines) + "\n"


# ------------------------------------------------------------------------------------------------ the translated functions
def find_func(tree, name, cls=None):
    scope = tree.body
    if cls:
        for n in tree.body:
            if isinstance(n, ast.ClassDef) and n.name == cls:
                scope = n.body
                break
        else:
            raise Unsupported(f"class {cls} not found")
    for n in scope:
        if isinstance(n, ast.FunctionDef) and n.name == name:
            return n
    raise Unsupported(f"function {name} not found")


def arg_names(fn):
    return [a.arg for a in fn.args.args]


SPACE_STRUCT = {"Box": "Box", "Discrete": "Disc", "MultiDiscrete": "MDisc", "MultiBinary": "MBin"}


def translate_sources(utils_src: str, base_src: str) -> str:
    ut, bt = ast.parse(utils_src), ast.parse(base_src)
    parts = []

    fn = find_func(ut, "maybe_add_batch_dim")
    if arg_names(fn) != ["obs", "space_shape"]:
        bad(fn, "signature of maybe_add_batch_dim")
    parts.append(emit(Spec("maybe_add_batch_dim", [("obs_is_ndarray", "Bool"), ("obs", "T α"), ("space_shape", "List Nat")],
                           "T α", isinst={("obs", "np.ndarray"): "obs_is_ndarray"},
                           kinds={"obs": "tensor", "space_shape": "list"}, implicit="{α : Type}"),
                      "maybe_add_batch_dim", fn.body, f"`maybe_add_batch_dim` ({UTILS}:{fn.lineno})"))

    fn = find_func(ut, "apply_image_normalization")
    if arg_names(fn) != ["observation", "observation_space"]:
        bad(fn, "signature of apply_image_normalization")
    parts.append(emit(Spec("apply_image_normalization",
                           [("observation_is_tensor", "Bool"), ("observation", "T X"), ("observation_space", "Box")], "T X",
                           isinst={("observation_space", "Box"): "true /- a Box by typing -/",
                                   ("*", "Tensor"): "observation_is_tensor"},
                           kinds={"observation": "arr", "observation_space": "space"}),
                      "apply_image_normalization", fn.body, f"`apply_image_normalization` ({UTILS}:{fn.lineno})"))

    fn = find_func(ut, "preprocess_observation")
    names = arg_names(fn)
    if names[:2] != ["observation", "observation_space"] or "normalize_images" not in names:
        bad(fn, "signature of preprocess_observation")
    chain_i = None
    for i, s in enumerate(fn.body):
        if isinstance(s, ast.If) and isinstance(s.test, ast.Call) and attr_chain(s.test.func) == "isinstance" \
                and attr_chain(s.test.args[0]) == "observation_space" and attr_chain(s.test.args[1]) == "spaces.Box":
            chain_i = i
    if chain_i is None:
        bad(fn, "leaf chain `if isinstance(observation_space, spaces.Box)` not found in preprocess_observation")
    tail = fn.body[chain_i + 1:]
    node, seen = fn.body[chain_i], []
    while True:
        cls = attr_chain(node.test.args[1]) if isinstance(node.test, ast.Call) and attr_chain(node.test.func) == "isinstance" \
            and attr_chain(node.test.args[0]) == "observation_space" else None
        if cls is None or not cls.startswith("spaces.") or cls.split(".")[1] not in SPACE_STRUCT:
            bad(node, "branch of the leaf chain is not `isinstance(observation_space, spaces.<leaf class>)`")
        k = cls.split(".")[1]
        if k in seen:
            bad(node, f"class {k} tested twice")
        seen.append(k)
        spec = Spec(f"preprocess_observation_{k}",
                    [("observation", "T X"), ("observation_space", SPACE_STRUCT[k]), ("normalize_images", "Bool")], "T X",
                    kinds={"observation": "tensor", "observation_space": "space"},
                    calls={"maybe_add_batch_dim": ("maybe_add_batch_dim false", ["obs", "space_shape"]),
                           "apply_image_normalization": ("apply_image_normalization true", ["observation", "observation_space"])})
        parts.append(emit(spec, f"preprocess_observation[{k}]", list(node.body) + list(tail),
                          f"`preprocess_observation` for a {k} space ({UTILS}:{node.lineno}, then :{tail[0].lineno if tail else node.lineno})"))
        if len(node.orelse) == 1 and isinstance(node.orelse[0], ast.If):
            node = node.orelse[0]
            continue
        if not terminal(node.orelse):
            bad(node, "the leaf chain must end in `else: raise`")
        break
    for k in SPACE_STRUCT:
        if k not in seen:
            raise Unsupported(f"preprocess_observation has no branch for spaces.{k}")

    fn = find_func(bt, "get_homo_id", BASE_CLASS)
    parts.append(emit(Spec("get_homo_id", [("agent_id", "String")], "String",
                           isinst={("agent_id", "str"): "true /- agent ids are strings -/"}),
                      "get_homo_id", fn.body, f"`{BASE_CLASS}.get_homo_id` ({BASE}:{fn.lineno})"))
    fn = find_func(bt, "_agent_position", BASE_CLASS)
    parts.append(emit(Spec("_agent_position", [("self_agent_ids", "List String"), ("agent_id", "String")], "Nat"),
                      "_agent_position", fn.body, f"`{BASE_CLASS}._agent_position` ({BASE}:{fn.lineno})"))
    fn = find_func(bt, "assemble_homogeneous_outputs", BASE_CLASS)
    if arg_names(fn) != ["self", "agent_outputs", "vect_dim"]:
        bad(fn, "signature of assemble_homogeneous_outputs")
    parts.append(emit(Spec("assemble_homogeneous_outputs",
                           [("self_shared_agent_ids", "List String"), ("self_homogeneous_agents", "PyDict (List String)"),
                            ("agent_outputs", "PyDict (T α)"), ("vect_dim", "Nat")], "PyDict (T α)",
                           kinds={"agent_outputs": "dict", "@value:self.homogeneous_agents": "ids"}, implicit="{α : Type}"),
                      "assemble_homogeneous_outputs", fn.body, f"`{BASE_CLASS}.assemble_homogeneous_outputs` ({BASE}:{fn.lineno})"))
    fn = find_func(bt, "disassemble_homogeneous_outputs", BASE_CLASS)
    if arg_names(fn) != ["self", "homo_outputs", "vect_dim"]:
        bad(fn, "signature of disassemble_homogeneous_outputs")
    parts.append(emit(Spec("disassemble_homogeneous_outputs",
                           [("self_shared_agent_ids", "List String"), ("self_homogeneous_agents", "PyDict (List String)"),
                            ("homo_outputs", "PyDict (T α)"), ("vect_dim", "Nat")], "PyDict (T α)",
                           kinds={"homo_outputs": "dict", "@value:self.homogeneous_agents": "ids"}, implicit="{α : Type}"),
                      "disassemble_homogeneous_outputs", fn.body,
                      f"`{BASE_CLASS}.disassemble_homogeneous_outputs` ({BASE}:{fn.lineno})"))

    fn = find_func(bt, "stack_critic_observations", BASE_CLASS)
    if arg_names(fn) != ["self", "obs"]:
        bad(fn, "signature of stack_critic_observations")
    pre, chain = [], None
    for s in fn.body:
        if isinstance(s, ast.If):
            chain = s
            break
        pre.append(s)
    if chain is None:
        bad(fn, "no `if` chain in stack_critic_observations")
    post = fn.body[fn.body.index(chain) + 1:]
    node, n_container = chain, 0
    while isinstance(node.test, ast.Call) and attr_chain(node.test.func) == "isinstance" \
            and attr_chain(node.test.args[0]) == "self.single_space" \
            and attr_chain(node.test.args[1]) in ("spaces.Dict", "spaces.Tuple"):
        n_container += 1
        if len(node.orelse) != 1 or not isinstance(node.orelse[0], ast.If):
            bad(node, "stack_critic_observations: no leaf branches after the Dict / Tuple branches")
        node = node.orelse[0]
    spec = Spec("stack_critic_observations_leaf",
                [("single_space_is_image", "Bool"), ("obs", "PyDict (T α)")], "T α",
                kinds={"obs": "dict"}, implicit="{α : Type}")
    # `obs = list(obs.values())` turns the dict into a list: the kind follows the assignment
    body = list(pre) + [node] + list(post)
    cxfix = emit_with_kind_fix(spec, "stack_critic_observations[leaf]", body,
                               f"`{BASE_CLASS}.stack_critic_observations`, `single_space` neither Dict nor Tuple "
                               f"({BASE}:{fn.lineno}; the {n_container} container branches are not translated)")
    parts.append(cxfix)
    return "\n".join(parts)


def emit_with_kind_fix(spec, fname, body, doc):
    return emit(spec, fname, body, doc)


HEADER = """/-
  Gen/ObsValGen.lean — GENERATED by harness/py2lean_obsval.py from
  {src}
  (maybe_add_batch_dim, apply_image_normalization, the leaf chain of preprocess_observation per space class;
  MultiAgentRLAlgorithm.get_homo_id / _agent_position / assemble_homogeneous_outputs /
  disassemble_homogeneous_outputs / stack_critic_observations for a leaf single_space); do not edit.  Core Lean only.
  VALUES included: a float is an exact rational or an IEEE special, `/` by zero gives nan / ±inf.
  `Proofs/ObsValGenEq.lean` proves these definitions equal to their counterparts in `Model/Obs.lean`.
  Assumed: `device=` / `dtype=` erased (`torch.tensor(bounds, dtype=obs.dtype)` keeps the values); arrays derived from
  the bounds are tensors exactly when the observation is; after `obs_to_tensor` the observation is a tensor;
  `b` in `a - b`, `a / b` broadcasts over the LEADING dimensions of `a` only; space classes are disjoint; agent ids are
  strings; `shared_agent_ids` / `homogeneous_agents` / `agent_ids` / `is_image_space(single_space)` are parameters.
-/
"""


def translate(repo: Path):
    srcs = []
    for rel in REL_SOURCES:
        p = Path(repo) / rel
        if not p.exists():
            raise Unsupported(f"{rel} not found under {repo}")
        srcs.append(p.read_text())
    sha = hashlib.sha256("\0".join(srcs).encode()).hexdigest()
    try:
        body = translate_sources(srcs[0], srcs[1])
    except SyntaxError as e:
        raise Unsupported(f"syntax error: {e}")
    text = (HEADER.format(src=REL_SOURCE) + SHA_PREFIX + sha + "\n" + PRELUDE + "\n/-! ### translated source -/\n\n"
            + body + "\nend ObsValGen\n")
    return text, sha


def strip_sha(text: str) -> str:
    return "\n".join(l for l in text.splitlines() if not l.startswith(SHA_PREFIX)) + "\n"


def write_if_changed(text: str, out: Path, force: bool = False) -> bool:
    out = Path(out)
    if not force and out.exists() and strip_sha(out.read_text()) == strip_sha(text):
        return False
    out.parent.mkdir(parents=True, exist_ok=True)
    tmp = out.with_suffix(out.suffix + f".tmp{os.getpid()}")
    tmp.write_text(text)
    os.replace(tmp, out)
    return True


def repo_dir() -> Path:
    return Path(os.environ.get("VERIF_REPO", "/repo"))


def main(argv=None) -> int:
    import argparse
    ap = argparse.ArgumentParser()
    ap.add_argument("--repo", default=None)
    ap.add_argument("--out", default=str(DEFAULT_OUT))
    ap.add_argument("--stdout", action="store_true")
    ap.add_argument("--force", action="store_true")
    a = ap.parse_args(argv)
    try:
        text, sha = translate(Path(a.repo) if a.repo else repo_dir())
    except Unsupported as e:
        print(f"py2lean_obsval: unsupported: {e}", file=sys.stderr)
        return 3
    if a.stdout:
        sys.stdout.write(text)
        return 0
    changed = write_if_changed(text, Path(a.out), a.force)
    print(f"py2lean_obsval: {'wrote' if changed else 'unchanged'} {a.out} (sha256 {sha[:12]})")
    return 0


if __name__ == "__main__":
    sys.exit(main())
