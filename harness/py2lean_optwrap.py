#!/usr/bin/env python3
"""
py2lean_optwrap.py — translate `init_from_multiple`, `init_from_single` and the class `OptimizerWrapper` of
REPO/agilerl/algorithms/core/wrappers.py into Lean 4.

    python3 harness/py2lean_optwrap.py [--repo DIR] [--out FILE] [--stdout] [--force]

Reads the *source text* only (Python `ast`; agilerl is never imported) and writes lean/Gen/OptWrapGen.lean
(namespace OptWrapGen, core Lean only, imports nothing).  `Proofs/OptWrapGenEq.lean` proves the generated
constructor / name inference / state-dict methods equal to the hand-written `Coherence.wrap*` functions of
`Model/Coherence.lean` on the embedding of the model's typed arguments, and `Props/C02.lean` restates the C02 optimizer
theorems with the abstract `OptimizerWrapper(…)` of the wiring model replaced by the generated constructor
(`C02_source_translation_wrapper_*`).

What is translated: the two module-level functions and the methods `__init__`, `__getitem__`, `__iter__`,
`_infer_parent_container`, `_infer_network_attr_names`, `_infer_lr_name`, `load_state_dict`, `state_dict`, `zero_grad`,
`step` (`__getattr__` — attribute forwarding to the torch optimizer — and `__repr__` are outside).

The translation is a small compiler from a subset of Python into the `Except String` monad over ONE dynamic value type
`Val` (the fixed prelude printed before the generated definitions): every function / method becomes
`f (params… : Val) (externs… : Val) : M Val` in statement order, every operator, test, index, constant, branch, loop
and raise flows from the AST into the output.

Supported subset (anything else raises `Unsupported` naming the construct and its line):
  * statements: docstring, `x = e`, `x: T = e`, `self.f = e`, `a, b = e` only as loop / comprehension targets,
    `assert e[, msg]` (→ `throw "AssertionError"`), `raise X(…)` (→ `throw "X"`, message dropped), `return [e]`,
    `pass`, `if / elif / else` (branches that only assign are joined on the tuple of assigned variables; if a branch
    returns, the rest of the block is copied into the branches), `for t in it` / `for a, b in it` over `enumerate(x)`,
    `x`, `vars(c).items()` (→ `foldM'` over the state = variables assigned in the body that exist before the loop; a
    `return` inside the body → early-exit state `Option Val`), `xs.append(e)` for a local list / `self.f.append(e)`,
    `try: … except X: …` with every branch returning or raising, nested `def` (→ a local closure),
    `o.m(args)` as a statement for the in-place torch methods `load_state_dict` / `zero_grad` / `step` on
    `self.f`, on a local, or on the element variable of a `for … in enumerate(alias of self.f)` loop (the loop then
    rebuilds the list and stores it back into `self.f`);
  * expressions: `None True False`, int and str literals, locals, parameters, `self`, `e.attr`, `e[k]`,
    `isinstance(e, C)` for `C` in nn.Module / list / dict / type, `len(e)`, `id(e)`, `iter(e)`, `any(g)` / `all(g)` over a
    one-`for` generator, `[e for t in it if c]`, `[a, b]`, `{"k": v, **d}`, `a if c else b`, `and / or / not`,
    `is / is not / == / != / < / > / in` (one comparator), calls of the translated functions and methods, of local
    closures, of a local / parameter value (`optimizer_cls(args, k=v, **kw)` → `pyCall`), of a method of a non-`self`
    value (`net.parameters()`, `s.lower()`, `opt.state_dict()` → `pyCallMethod`), f-strings only inside `raise`.

External / runtime calls (assumptions, see also the prelude's comments):
  * `inspect.currentframe()` becomes the explicit parameter `inspect_currentframe` (a record with `f_back` / `f_locals`)
    of the function that calls it and of every translated function that calls that one;
  * an object with a `__dict__` (`self`, the parent container, a frame) is a `Val.record` of its attributes in
    assignment order; `self.f = e` replaces or appends; `self` starts empty in `__init__`;
  * identity: `id(x)` / `x is y` compare the identity carried by float / list / module / class / opaque objects; a list
    display `[…]` creates a list of identity 0 (held by nobody else);
  * `torch.optim.<cls>(params, **kw)`: an iterable of parameters gives one param group, a list of dicts one group per
    dict, in order, each holding the given parameter objects in order and the given options (`pyCall`);
    `Optimizer.state_dict()` keeps the options and the NUMBER of parameters of every group, `load_state_dict` takes the
    saved options and keeps the own parameter objects, and raises ValueError on a different group shape; `zero_grad` /
    `step` do not change which objects the optimizer holds (numerics are outside);
  * lists built in the translated code are not aliased elsewhere (`append` = rebinding).
"""
from __future__ import annotations

import ast
import hashlib
import os
import sys
from pathlib import Path

HERE = Path(__file__).resolve().parent
DEFAULT_OUT = HERE.parent / "lean" / "Gen" / "OptWrapGen.lean"
REL_SOURCE = "agilerl/algorithms/core/wrappers.py"
SHA_PREFIX = "-- sha256(source) = "

CLASS = "OptimizerWrapper"
MODULE_FUNCS = ["init_from_multiple", "init_from_single"]
METHODS = ["_infer_parent_container", "_infer_network_attr_names", "_infer_lr_name", "__init__", "__getitem__",
           "__iter__", "load_state_dict", "state_dict", "zero_grad", "step"]
LEAN_NAME = {"__init__": "init", "__getitem__": "getitem", "__iter__": "iter"}
ISINSTANCE = {"nn.Module", "list", "dict", "type"}
MUTATORS = {"load_state_dict", "zero_grad", "step"}
EXTERNS = {("inspect", "currentframe"): "inspect_currentframe"}


class Unsupported(Exception):
    pass


def fail(node, what: str):
    raise Unsupported(f"{REL_SOURCE}:{getattr(node, 'lineno', '?')}: unsupported construct: {what}")


def lstr(s: str) -> str:
    out = []
    for ch in s:
        if ch == '"' or ch == "\\":
            out.append("\\" + ch)
        elif ch == "\n":
            out.append("\\n")
        elif 32 <= ord(ch) < 127:
            out.append(ch)
        else:
            fail(None, f"non-ASCII character in a string literal {s!r}")
    return '"' + "".join(out) + '"'


def dotted(e) -> str | None:
    if isinstance(e, ast.Name):
        return e.id
    if isinstance(e, ast.Attribute):
        b = dotted(e.value)
        return None if b is None else b + "." + e.attr
    return None


def tup(names: list[str]) -> str:
    if not names:
        return "()"
    if len(names) == 1:
        return names[0]
    return "(" + ", ".join(names) + ")"


def vname(n: str) -> str:
    return "self" if n == "self" else "v_" + n


def assigned_names(stmts) -> list[str]:
    """names (Python) a statement list may rebind, in first-occurrence order; `self` when an attribute of self is
    stored or changed in place"""
    out: list[str] = []

    def add(n):
        if n not in out:
            out.append(n)

    def target(t):
        if isinstance(t, ast.Name):
            add(t.id)
        elif isinstance(t, ast.Attribute) and isinstance(t.value, ast.Name) and t.value.id == "self":
            add("self")
        elif isinstance(t, (ast.Tuple, ast.List)):
            for x in t.elts:
                target(x)

    def walk(ss):
        for s in ss:
            if isinstance(s, ast.Assign):
                for t in s.targets:
                    target(t)
            elif isinstance(s, ast.AnnAssign):
                if s.value is not None:
                    target(s.target)
            elif isinstance(s, ast.AugAssign):
                target(s.target)
            elif isinstance(s, ast.Expr) and isinstance(s.value, ast.Call) and isinstance(s.value.func, ast.Attribute):
                f = s.value.func
                if f.attr == "append" or f.attr in MUTATORS:
                    base = f.value
                    if isinstance(base, ast.Name):
                        add(base.id)
                    elif isinstance(base, ast.Attribute) and isinstance(base.value, ast.Name) and base.value.id == "self":
                        add("self")
            elif isinstance(s, ast.If):
                walk(s.body)
                walk(s.orelse)
            elif isinstance(s, ast.For):
                walk(s.body)
            elif isinstance(s, ast.Try):
                walk(s.body)
                for h in s.handlers:
                    walk(h.body)
            elif isinstance(s, ast.FunctionDef):
                add(s.name)
    walk(stmts)
    return out


def contains_return(stmts) -> bool:
    for s in stmts:
        if isinstance(s, ast.Return):
            return True
        if isinstance(s, ast.If) and (contains_return(s.body) or contains_return(s.orelse)):
            return True
        if isinstance(s, ast.For) and contains_return(s.body):
            return True
        if isinstance(s, ast.Try) and (contains_return(s.body) or any(contains_return(h.body) for h in s.handlers)):
            return True
    return False


def terminates(stmts) -> bool:
    if not stmts:
        return False
    s = stmts[-1]
    if isinstance(s, (ast.Return, ast.Raise)):
        return True
    if isinstance(s, ast.If):
        return bool(s.orelse) and terminates(s.body) and terminates(s.orelse)
    if isinstance(s, ast.Try):
        return terminates(s.body) and all(terminates(h.body) for h in s.handlers)
    return False


class Fn:
    """one translated function / method"""

    def __init__(self, tr: "Translator", node: ast.FunctionDef, method: bool):
        self.tr, self.node, self.method = tr, node, method
        self.externs: list[str] = []
        a = node.args
        if a.vararg or a.kwarg or a.kwonlyargs or a.posonlyargs:
            fail(node, f"parameter kinds of `{node.name}`")
        if node.decorator_list:
            fail(node, f"decorator on `{node.name}`")
        self.params = [x.arg for x in a.args]
        if method and (not self.params or self.params[0] != "self"):
            fail(node, f"method `{node.name}` without `self`")
        self.defaults = dict(zip(self.params[len(self.params) - len(a.defaults):], a.defaults))
        self.mutates = method and "self" in assigned_names(node.body)
        self.tmp = 0

    def fresh(self, base: str) -> str:
        self.tmp += 1
        return f"{base}{self.tmp}"

    def use_extern(self, name: str):
        if name not in self.externs:
            self.externs.append(name)


class Env:
    def __init__(self, fn: Fn, names: set[str], on_return, on_end, aliases=None, closures=None, lists=None):
        self.fn, self.names, self.on_return, self.on_end = fn, set(names), on_return, on_end
        self.aliases = dict(aliases or {})      # local name -> attribute of self it aliases
        self.closures = dict(closures or {})    # local function name -> arity
        self.lists = set(lists or ())           # locals bound to a list display in this function

    def child(self, on_return=None, on_end=None):
        return Env(self.fn, self.names, on_return or self.on_return, on_end or self.on_end, self.aliases,
                   self.closures, self.lists)


class Translator:
    def __init__(self, tree: ast.Module):
        self.funcs: dict[str, Fn] = {}
        self.lean: dict[str, str] = {}
        self.tree = tree

    # ------------------------------------------------------------------ expressions
    def expr(self, e, env: Env) -> str:
        fn = env.fn
        if isinstance(e, ast.Constant):
            v = e.value
            if v is None:
                return "Val.none"
            if v is True or v is False:
                return f"(Val.bool {'true' if v else 'false'})"
            if isinstance(v, int):
                return f"(Val.int {v})" if v >= 0 else f"(Val.int ({v}))"
            if isinstance(v, str):
                return f"(Val.str {lstr(v)})"
            fail(e, f"constant {v!r}")
        if isinstance(e, ast.Name):
            if e.id == "self" and fn.method:
                return "self"
            if e.id in env.names:
                return vname(e.id)
            fail(e, f"name `{e.id}` (not a local, a parameter or a supported builtin)")
        if isinstance(e, ast.Attribute):
            return f"(← pyGetAttr {self.expr(e.value, env)} {lstr(e.attr)})"
        if isinstance(e, ast.Subscript):
            return f"(← pyGetItem {self.expr(e.value, env)} {self.expr(e.slice, env)})"
        if isinstance(e, ast.List):
            return "(Val.list 0 [" + ", ".join(self.expr(x, env) for x in e.elts) + "])"
        if isinstance(e, ast.Dict):
            parts = []
            for k, v in zip(e.keys, e.values):
                if k is None:
                    parts.append(f"(← pyDictItems {self.expr(v, env)})")
                elif isinstance(k, ast.Constant) and isinstance(k.value, str):
                    parts.append(f"[({lstr(k.value)}, {self.expr(v, env)})]")
                else:
                    fail(e, "dict display with a non-literal key")
            return "(Val.dict (" + (" ++ ".join(parts) if parts else "[]") + "))"
        if isinstance(e, ast.IfExp):
            return (f"(← (if pyTruthy {self.expr(e.test, env)} then (do pure {self.expr(e.body, env)}) "
                    f"else (do pure {self.expr(e.orelse, env)})))")
        if isinstance(e, ast.BoolOp):
            vals = list(e.values)
            acc = self.expr(vals[-1], env)
            for v in reversed(vals[:-1]):
                t = fn.fresh("t")
                if isinstance(e.op, ast.And):
                    acc = f"(← (do let {t} := {self.expr(v, env)}; if pyTruthy {t} then (do pure {acc}) else pure {t}))"
                else:
                    acc = f"(← (do let {t} := {self.expr(v, env)}; if pyTruthy {t} then pure {t} else (do pure {acc})))"
            return acc
        if isinstance(e, ast.UnaryOp) and isinstance(e.op, ast.Not):
            return f"(Val.bool (!pyTruthy {self.expr(e.operand, env)}))"
        if isinstance(e, ast.Compare):
            if len(e.ops) != 1:
                fail(e, "chained comparison")
            a, op, b = e.left, e.ops[0], e.comparators[0]
            if isinstance(op, (ast.Is, ast.IsNot)):
                neg = "!" if isinstance(op, ast.IsNot) else ""
                if isinstance(b, ast.Constant) and b.value is None:
                    return f"(Val.bool ({neg}pyIsNone {self.expr(a, env)}))"
                return f"(Val.bool ({neg}pyIs {self.expr(a, env)} {self.expr(b, env)}))"
            la, lb = self.expr(a, env), self.expr(b, env)
            if isinstance(op, ast.Eq):
                return f"(← pyEq {la} {lb})"
            if isinstance(op, ast.NotEq):
                return f"(Val.bool (!pyTruthy (← pyEq {la} {lb})))"
            if isinstance(op, ast.Lt):
                return f"(← pyLt {la} {lb})"
            if isinstance(op, ast.Gt):
                return f"(← pyGt {la} {lb})"
            if isinstance(op, ast.In):
                return f"(← pyIn {la} {lb})"
            if isinstance(op, ast.NotIn):
                return f"(Val.bool (!pyTruthy (← pyIn {la} {lb})))"
            fail(e, f"comparison `{type(op).__name__}`")
        if isinstance(e, ast.ListComp):
            if len(e.generators) != 1:
                fail(e, "comprehension with several `for`")
            g = e.generators[0]
            it = fn.fresh("it")
            sub = env.child()
            unpack = self.bind_target(g.target, it, sub)
            cond = None
            for c in g.ifs:
                cond = c if cond is None else ast.BoolOp(op=ast.And(), values=[cond, c])
            elt = self.expr(e.elt, sub)
            body = (f"if pyTruthy {self.expr(cond, sub)} then pure (some {elt}) else pure Option.none"
                    if cond is not None else f"pure (some {elt})")
            return f"(Val.list 0 (← filterMapM' (fun {it} => do {unpack}{body}) {self.iterable(g.iter, env)}))"
        if isinstance(e, ast.Call):
            return self.call(e, env)
        fail(e, f"expression `{type(e).__name__}`")

    def bind_target(self, t, it: str, env: Env) -> str:
        """Lean statements (ending in `; `) binding the loop target to the value `it`; adds the names to env"""
        if isinstance(t, ast.Name):
            env.names.add(t.id)
            return f"let {vname(t.id)} := {it}; "
        if isinstance(t, ast.Tuple) and len(t.elts) == 2 and all(isinstance(x, ast.Name) for x in t.elts):
            a, b = (x.id for x in t.elts)
            env.names.update([a, b])
            return f"let ({vname(a)}, {vname(b)}) ← pyUnpack2 {it}; "
        fail(t, "loop target")

    def iterable(self, it, env: Env) -> str:
        if isinstance(it, ast.Call) and isinstance(it.func, ast.Name) and it.func.id == "enumerate" and len(it.args) == 1 \
                and not it.keywords:
            return f"(← pyEnumerate {self.expr(it.args[0], env)})"
        if isinstance(it, ast.Call) and isinstance(it.func, ast.Attribute) and it.func.attr == "items" and not it.args \
                and isinstance(it.func.value, ast.Call) and isinstance(it.func.value.func, ast.Name) \
                and it.func.value.func.id == "vars" and len(it.func.value.args) == 1:
            return f"(← pyVarsItems {self.expr(it.func.value.args[0], env)})"
        return f"(← pyIter {self.expr(it, env)})"

    def gen_quant(self, name: str, g, env: Env) -> str:
        if not isinstance(g, ast.GeneratorExp) or len(g.generators) != 1 or g.generators[0].ifs:
            fail(g, f"argument of `{name}` (one `for`, no `if`)")
        gen = g.generators[0]
        it = env.fn.fresh("it")
        sub = env.child()
        unpack = self.bind_target(gen.target, it, sub)
        fnn = "anyM'" if name == "any" else "allM'"
        return f"(Val.bool (← {fnn} (fun {it} => do {unpack}pure (pyTruthy {self.expr(g.elt, sub)})) {self.iterable(gen.iter, env)}))"

    def call_args(self, c: ast.Call, env: Env):
        pos = []
        for a in c.args:
            if isinstance(a, ast.Starred):
                fail(c, "starred argument")
            pos.append(self.expr(a, env))
        kws = []
        for k in c.keywords:
            if k.arg is None:
                kws.append(f"(← pyDictItems {self.expr(k.value, env)})")
            else:
                kws.append(f"[({lstr(k.arg)}, {self.expr(k.value, env)})]")
        return pos, kws

    def call_translated(self, c: ast.Call, target: Fn, lean_name: str, self_arg: str | None, env: Env) -> str:
        params = target.params[1:] if target.method else target.params
        pos, _ = self.call_args(c, env)
        given = dict(zip(params, pos))
        if len(pos) > len(params):
            fail(c, f"too many arguments for `{target.node.name}`")
        for k in c.keywords:
            if k.arg is None or k.arg not in params or k.arg in given:
                fail(c, f"keyword argument of `{target.node.name}`")
            given[k.arg] = self.expr(k.value, env)
        args = []
        for p in params:
            if p in given:
                args.append(given[p])
            elif p in target.defaults:
                args.append(self.expr(target.defaults[p], Env(target, set(), None, None)))
            else:
                fail(c, f"missing argument `{p}` of `{target.node.name}`")
        for x in target.externs:
            env.fn.use_extern(x)
        allargs = ([self_arg] if self_arg else []) + args + list(target.externs)
        return f"(← {lean_name} " + " ".join(allargs) + ")"

    def call(self, c: ast.Call, env: Env) -> str:
        f = c.func
        d = dotted(f)
        if isinstance(f, ast.Name):
            n = f.id
            if n in env.closures:
                pos, kws = self.call_args(c, env)
                if kws or len(pos) != env.closures[n]:
                    fail(c, f"call of the local function `{n}`")
                return f"(← {vname(n)} " + " ".join(pos) + ")"
            if n in env.names:
                pos, kws = self.call_args(c, env)
                return f"(← pyCall {vname(n)} [" + ", ".join(pos) + "] (" + (" ++ ".join(kws) if kws else "[]") + "))"
            if n in self.funcs and not self.funcs[n].method:
                return self.call_translated(c, self.funcs[n], n, None, env)
            if n == "isinstance" and len(c.args) == 2 and not c.keywords:
                t = dotted(c.args[1])
                if t not in ISINSTANCE:
                    fail(c, f"isinstance against `{ast.unparse(c.args[1])}`")
                return f"(Val.bool (pyIsinstance {self.expr(c.args[0], env)} {lstr(t)}))"
            if n == "len" and len(c.args) == 1 and not c.keywords:
                return f"(← pyLen {self.expr(c.args[0], env)})"
            if n == "id" and len(c.args) == 1 and not c.keywords:
                return f"(Val.int (pyId {self.expr(c.args[0], env)}))"
            if n == "iter" and len(c.args) == 1 and not c.keywords:
                return f"(Val.tuple (← pyIter {self.expr(c.args[0], env)}))"
            if n in ("any", "all") and len(c.args) == 1 and not c.keywords:
                return self.gen_quant(n, c.args[0], env)
            fail(c, f"call of `{n}`")
        if isinstance(f, ast.Attribute):
            if d is not None and tuple(d.split(".")) in EXTERNS and not c.args and not c.keywords \
                    and d.split(".")[0] not in env.names:
                x = EXTERNS[tuple(d.split("."))]
                env.fn.use_extern(x)
                return x
            if isinstance(f.value, ast.Name) and f.value.id == "self" and env.fn.method:
                key = f"{CLASS}.{f.attr}"
                if key in self.funcs:
                    t = self.funcs[key]
                    if t.mutates:
                        fail(c, f"call of the self-changing method `{f.attr}` inside an expression")
                    return self.call_translated(c, t, self.lean[key], "self", env)
                fail(c, f"call of the method `self.{f.attr}` (not translated)")
            if f.attr == "append" or f.attr in MUTATORS:
                fail(c, f"in-place method `{f.attr}` inside an expression")
            pos, kws = self.call_args(c, env)
            if kws:
                fail(c, f"keyword arguments of the method `{f.attr}`")
            return f"(← pyCallMethod {self.expr(f.value, env)} {lstr(f.attr)} [" + ", ".join(pos) + "])"
        fail(c, "call")

    # ------------------------------------------------------------------ statements
    def store(self, t, val: str, env: Env, ind: str) -> list[str]:
        if isinstance(t, ast.Name):
            if t.id == "self":
                fail(t, "assignment to `self`")
            env.names.add(t.id)
            env.aliases.pop(t.id, None)
            return [f"{ind}let {vname(t.id)} := {val}"]
        if isinstance(t, ast.Attribute) and isinstance(t.value, ast.Name) and t.value.id == "self" and env.fn.method:
            for k, v in list(env.aliases.items()):
                if v == t.attr:
                    del env.aliases[k]
            return [f"{ind}let self ← pySetAttr self {lstr(t.attr)} {val}"]
        fail(t, "assignment target")

    def inplace(self, s: ast.Expr, env: Env, ind: str, elem: str | None) -> list[str] | None:
        """`x.append(e)` / `x.<mutator>(args)` as a statement"""
        c = s.value
        if not (isinstance(c, ast.Call) and isinstance(c.func, ast.Attribute)):
            return None
        f = c.func
        if f.attr != "append" and f.attr not in MUTATORS:
            return None
        pos, kws = self.call_args(c, env)
        if kws:
            fail(s, f"keyword arguments of `{f.attr}`")
        if f.attr == "append":
            if len(pos) != 1:
                fail(s, "append")
            op = lambda cur: f"(← pyAppend {cur} {pos[0]})"
        else:
            op = lambda cur: f"(← pyCallMut {cur} {lstr(f.attr)} [" + ", ".join(pos) + "])"
        base = f.value
        if isinstance(base, ast.Name) and base.id != "self":
            if base.id not in env.names:
                fail(s, f"name `{base.id}`")
            if f.attr == "append" and base.id not in env.lists:
                fail(s, f"`{base.id}.append` on a list not created in this function")
            if f.attr in MUTATORS and base.id in env.aliases:
                a = env.aliases[base.id]
                return [f"{ind}let self ← pySetAttr self {lstr(a)} {op(f'(← pyGetAttr self {lstr(a)})')}",
                        f"{ind}let {vname(base.id)} ← pyGetAttr self {lstr(a)}"]
            if f.attr in MUTATORS and base.id != elem and base.id not in env.lists:
                fail(s, f"in-place `{f.attr}` on `{base.id}` (neither a loop element of an attribute of self nor a local object)")
            return [f"{ind}let {vname(base.id)} := {op(vname(base.id))}"]
        if isinstance(base, ast.Attribute) and isinstance(base.value, ast.Name) and base.value.id == "self" and env.fn.method:
            return [f"{ind}let self ← pySetAttr self {lstr(base.attr)} {op(f'(← pyGetAttr self {lstr(base.attr)})')}"]
        fail(s, f"in-place `{f.attr}` on this object")

    def block(self, stmts, env: Env, ind: str, elem: str | None = None) -> list[str]:
        """Lean `do` lines for the statements followed by env.on_end (unless the block terminates)"""
        out: list[str] = []
        for i, s in enumerate(stmts):
            rest = stmts[i + 1:]
            if isinstance(s, ast.Expr) and isinstance(s.value, ast.Constant) and isinstance(s.value.value, str):
                continue
            if isinstance(s, ast.Pass):
                continue
            if isinstance(s, ast.Assign):
                if len(s.targets) != 1:
                    fail(s, "chained assignment")
                val = self.expr(s.value, env)
                out += self.store(s.targets[0], val, env, ind)
                self.note_binding(s.targets[0], s.value, env)
                continue
            if isinstance(s, ast.AnnAssign):
                if s.value is None:
                    continue
                val = self.expr(s.value, env)
                out += self.store(s.target, val, env, ind)
                self.note_binding(s.target, s.value, env)
                continue
            if isinstance(s, ast.Assert):
                out.append(f"{ind}if !(pyTruthy {self.expr(s.test, env)}) then throw \"AssertionError\"")
                continue
            if isinstance(s, ast.Raise):
                out.append(f"{ind}throw {lstr(self.exc_name(s))}")
                return out
            if isinstance(s, ast.Return):
                if env.fn.mutates:
                    if s.value is not None and not (isinstance(s.value, ast.Constant) and s.value.value is None):
                        fail(s, "a method that changes `self` returns a value")
                    out.append(f"{ind}{env.on_return('Val.none')}")
                else:
                    out.append(f"{ind}{env.on_return(self.expr(s.value, env) if s.value is not None else 'Val.none')}")
                return out
            if isinstance(s, ast.Expr):
                r = self.inplace(s, env, ind, elem)
                if r is not None:
                    out += r
                    continue
                fail(s, f"expression statement `{ast.unparse(s)[:60]}`")
            if isinstance(s, ast.FunctionDef):
                out += self.closure(s, env, ind)
                continue
            if isinstance(s, ast.If):
                if contains_return([s]):
                    # the rest of the block goes into the branches
                    out.append(f"{ind}if pyTruthy {self.expr(s.test, env)} then")
                    out += self.block(list(s.body) + ([] if terminates(s.body) else rest), env.child(), ind + "  ", elem)
                    out.append(f"{ind}else")
                    out += self.block(list(s.orelse) + ([] if terminates(s.orelse) else rest), env.child(), ind + "  ", elem)
                    return out
                out += self.if_join(s, env, ind, elem)
                if terminates([s]):
                    return out
                continue
            if isinstance(s, ast.For):
                lines, done = self.for_loop(s, rest, env, ind)
                out += lines
                if done:
                    return out
                continue
            if isinstance(s, ast.Try):
                if rest and not terminates([s]):
                    fail(s, "`try` that does not return or raise on every path")
                out += self.try_stmt(s, env, ind)
                return out
            fail(s, f"statement `{type(s).__name__}`")
        out.append(f"{ind}{env.on_end(env)}")
        return out

    def note_binding(self, t, value, env: Env):
        if not isinstance(t, ast.Name):
            return
        if isinstance(value, ast.List):
            env.lists.add(t.id)
        else:
            env.lists.discard(t.id)
        if isinstance(value, ast.Attribute) and isinstance(value.value, ast.Name) and value.value.id == "self":
            env.aliases[t.id] = value.attr

    def exc_name(self, s: ast.Raise) -> str:
        e = s.exc
        if isinstance(e, ast.Call) and isinstance(e.func, ast.Name):
            return e.func.id
        if isinstance(e, ast.Name):
            return e.id
        fail(s, "raise")

    def if_join(self, s: ast.If, env: Env, ind: str, elem) -> list[str]:
        assigned = assigned_names([s])
        body_a, else_a = assigned_names(s.body), assigned_names(s.orelse)
        tb, te = terminates(s.body), terminates(s.orelse)
        live = []
        for n in assigned:
            known = n in env.names or n == "self"
            if known or ((tb or n in body_a) and (te or n in else_a)):
                live.append(n)
        pat = tup([vname(n) for n in live])
        end = lambda e: f"pure {pat}"
        lines = [f"{ind}let {pat} ← (if pyTruthy {self.expr(s.test, env)} then (do"]
        eb = env.child(on_end=end)
        lines += self.block(s.body, eb, ind + "    ", elem)
        lines.append(f"{ind}  ) else (do")
        ee = env.child(on_end=end)
        lines += self.block(s.orelse, ee, ind + "    ", elem)
        lines.append(f"{ind}  ))")
        for n in live:
            if n != "self":
                env.names.add(n)
        # facts about bindings that hold on both paths only
        env.lists = (eb.lists if not tb else ee.lists) & (ee.lists if not te else eb.lists) if not (tb and te) else env.lists
        env.aliases = {k: v for k, v in eb.aliases.items() if ee.aliases.get(k) == v}
        for k, v in list(eb.closures.items()):
            if k in ee.closures:
                env.closures[k] = v
        return lines

    def for_loop(self, s: ast.For, rest, env: Env, ind: str):
        if s.orelse:
            fail(s, "for … else")
        for x in ast.walk(s):
            if isinstance(x, (ast.Break, ast.Continue)):
                fail(x, "break / continue")
        state = [n for n in assigned_names(s.body) if n in env.names or n == "self"]
        # in-place change of the loop's element variable: the list is rebuilt and stored back
        elem, back = None, None
        tnames = [s.target.id] if isinstance(s.target, ast.Name) else [x.id for x in getattr(s.target, "elts", []) if isinstance(x, ast.Name)]
        for st in ast.walk(s):
            if isinstance(st, ast.Expr) and isinstance(st.value, ast.Call) and isinstance(st.value.func, ast.Attribute) \
                    and st.value.func.attr in MUTATORS and isinstance(st.value.func.value, ast.Name) \
                    and st.value.func.value.id in tnames:
                elem = st.value.func.value.id
        acc = None
        if elem is not None:
            src = s.iter.args[0] if (isinstance(s.iter, ast.Call) and isinstance(s.iter.func, ast.Name)
                                     and s.iter.func.id == "enumerate" and len(s.iter.args) == 1) else s.iter
            if isinstance(src, ast.Name) and src.id in env.aliases:
                back = env.aliases[src.id]
            elif isinstance(src, ast.Attribute) and isinstance(src.value, ast.Name) and src.value.id == "self":
                back = src.attr
            else:
                fail(s, "in-place change of the elements of a list that is not an attribute of self")
            if elem != tnames[-1]:
                fail(s, "in-place change of the loop index")
            state = [n for n in state if n != elem]
            if "self" not in state:
                state.append("self")
            acc = env.fn.fresh("acc")
        svars = [vname(n) for n in state] + ([acc] if acc else [])
        it = env.fn.fresh("it")
        early = contains_return(s.body)
        sub = env.child()
        unpack = self.bind_target(s.target, it, sub)
        pat = tup(svars)
        lines = []
        if acc:
            lines.append(f"{ind}let {acc} : List Val := []")
        if early:
            ret = env.fn.fresh("ret")
            sub.on_return = lambda e: f"pure (some {e}, {pat})"
            sub.on_end = lambda e_: (f"pure (Option.none, {tup(svars[:-1] + [f'({acc} ++ [{vname(elem)}])'])})" if acc
                                     else f"pure (Option.none, {pat})")
            lines.append(f"{ind}let ({ret}, {pat}) ← foldM' (fun ({ret}, {pat}) {it} => match {ret} with")
            lines.append(f"{ind}    | some _ => pure ({ret}, {pat})")
            lines.append(f"{ind}    | Option.none => do")
            lines.append(f"{ind}      {unpack.rstrip('; ')}")
            lines += self.block(s.body, sub, ind + "      ", elem)
            lines.append(f"{ind}  ) (Option.none, {pat}) {self.iterable(s.iter, env)}")
        else:
            sub.on_return = None
            sub.on_end = lambda e_: (f"pure {tup(svars[:-1] + [f'({acc} ++ [{vname(elem)}])'])}" if acc else f"pure {pat}")
            lines.append(f"{ind}let {pat} ← foldM' (fun {pat} {it} => do")
            lines.append(f"{ind}    {unpack.rstrip('; ')}")
            lines += self.block(s.body, sub, ind + "    ", elem)
            lines.append(f"{ind}  ) {pat} {self.iterable(s.iter, env)}")
        if acc:
            lines.append(f"{ind}let self ← pySetAttr self {lstr(back)} (← pyRebuild (← pyGetAttr self {lstr(back)}) {acc})")
            for k, v in env.aliases.items():
                if v == back:
                    lines.append(f"{ind}let {vname(k)} ← pyGetAttr self {lstr(back)}")
        env.lists &= sub.lists | (env.lists - set(assigned_names(s.body)))
        if early:
            lines.append(f"{ind}match {ret} with")
            lines.append(f"{ind}| some r => {env.on_return('r')}")
            lines.append(f"{ind}| Option.none => do")
            lines += self.block(rest, env.child(), ind + "  ")
            return lines, True
        return lines, False

    def try_stmt(self, s: ast.Try, env: Env, ind: str) -> list[str]:
        if s.orelse or s.finalbody or not s.handlers:
            fail(s, "try … else / finally")
        if not terminates(s.body) or not all(terminates(h.body) for h in s.handlers):
            fail(s, "`try` whose branches do not all return or raise")
        lines = [f"{ind}tryCatch (do"]
        lines += self.block(s.body, env.child(), ind + "    ")
        lines.append(f"{ind}  ) (fun exc =>")
        for h in s.handlers:
            if h.name is not None or not isinstance(h.type, ast.Name):
                fail(h, "exception handler")
            lines.append(f"{ind}    if exc == {lstr(h.type.id)} then (do")
            lines += self.block(h.body, env.child(), ind + "      ")
            lines.append(f"{ind}    ) else")
        lines.append(f"{ind}    throw exc)")
        return lines

    def closure(self, node: ast.FunctionDef, env: Env, ind: str) -> list[str]:
        a = node.args
        if a.vararg or a.kwarg or a.kwonlyargs or a.posonlyargs or a.defaults or node.decorator_list:
            fail(node, f"nested function `{node.name}`")
        ps = [x.arg for x in a.args]
        if "self" in assigned_names(node.body):
            fail(node, f"nested function `{node.name}` changes `self`")
        sub = Env(env.fn, env.names | set(ps), lambda e: f"pure {e}", lambda e_: "pure Val.none", {}, env.closures, set())
        lines = [f"{ind}let {vname(node.name)} : " + "".join("Val → " for _ in ps) + "M Val := fun " +
                 " ".join(vname(p) for p in ps) + " => do"]
        lines += self.block(node.body, sub, ind + "  ")
        env.names.add(node.name)
        env.closures[node.name] = len(ps)
        return lines

    # ------------------------------------------------------------------ functions
    def function(self, key: str, node: ast.FunctionDef, method: bool) -> str:
        fn = Fn(self, node, method)
        lean = f"{CLASS}.{LEAN_NAME.get(node.name, node.name)}" if method else node.name
        names = set(fn.params) - {"self"}
        if fn.mutates:
            env = Env(fn, names, lambda e: "pure self", lambda e_: "pure self")
        else:
            env = Env(fn, names, lambda e: f"pure {e}", lambda e_: "pure Val.none")
        body = self.block(node.body, env, "  ")
        self.funcs[key] = fn
        self.lean[key] = lean
        params = " ".join(vname(p) for p in fn.params)
        ext = (" " + " ".join(fn.externs)) if fn.externs else ""
        what = "the object afterwards" if fn.mutates else "the value returned"
        head = (f"/-- `{key}` ({what}) -/\n" f"def {lean} ({params}{ext} : Val) : M Val := do")
        out = [head] + body
        if fn.defaults:
            ds = ", ".join(f"({lstr(p)}, {self.expr(v, Env(fn, set(), None, None))})" for p, v in fn.defaults.items())
            out += ["", f"/-- default values of the parameters of `{key}` -/",
                    f"def {lean}.defaults : List (String × Val) := [{ds}]"]
        return "\n".join(out)

    def run(self) -> list[str]:
        mod_funcs = {n.name: n for n in self.tree.body if isinstance(n, ast.FunctionDef)}
        classes = [n for n in self.tree.body if isinstance(n, ast.ClassDef) and n.name == CLASS]
        if len(classes) != 1:
            raise Unsupported(f"{REL_SOURCE}: {len(classes)} definitions of class {CLASS} (expected one)")
        methods: dict[str, ast.FunctionDef] = {}
        for n in classes[0].body:
            if isinstance(n, ast.FunctionDef):
                if n.name in methods:
                    fail(n, f"second definition of {CLASS}.{n.name}")
                methods[n.name] = n
        known = set(METHODS) | {"__getattr__", "__repr__"}
        for n in methods:
            if n not in known:
                fail(methods[n], f"method `{CLASS}.{n}` is not known to the translator")
        out = []
        for name in MODULE_FUNCS:
            if name not in mod_funcs:
                raise Unsupported(f"{REL_SOURCE}: function `{name}` not found")
            out.append(self.function(name, mod_funcs[name], False))
        for name in METHODS:
            if name not in methods:
                raise Unsupported(f"{REL_SOURCE}: method `{CLASS}.{name}` not found")
            out.append(self.function(f"{CLASS}.{name}", methods[name], True))
        return out


def repo_dir(arg: str | None = None) -> Path:
    if arg:
        return Path(arg)
    return Path(os.environ.get("VERIF_REPO", "/repo"))


def translate(repo: Path) -> tuple[str, str]:
    """returns (lean text, sha256 of the source); raises Unsupported"""
    path = Path(repo) / REL_SOURCE
    try:
        raw = path.read_bytes()
    except OSError as e:
        raise Unsupported(f"cannot read {path}: {e}") from e
    sha = hashlib.sha256(raw).hexdigest()
    try:
        tree = ast.parse(raw.decode("utf-8"))
    except (SyntaxError, UnicodeDecodeError) as e:
        raise Unsupported(f"{REL_SOURCE}: cannot parse: {e}") from e
    defs = Translator(tree).run()
    header = ("/-\n  Gen/OptWrapGen.lean — GENERATED by harness/py2lean_optwrap.py from `init_from_multiple`, `init_from_single` and the\n"
              "  class `OptimizerWrapper` of agilerl/algorithms/core/wrappers.py; do not edit.  Core Lean only.\n"
              "  The part up to `/-! ### generated -/` is the translator's fixed prelude (Python values and the assumed behaviour of\n"
              "  builtins and of torch optimizers); `Proofs/OptWrapGenEq.lean` proves the generated definitions equal to the\n"
              "  `wrap*` functions of `Model/Coherence.lean`.\n-/\n" + SHA_PREFIX + sha)
    return header + "\n" + PRELUDE_TEXT + "\n/-! ### generated -/\n\n" + "\n\n".join(defs) + "\n\nend OptWrapGen\n", sha


def strip_sha(text: str) -> str:
    return "\n".join(ln for ln in text.split("\n") if not ln.startswith(SHA_PREFIX))


def write_if_changed(text: str, out: Path, force: bool = False) -> bool:
    """writes `text` unless the file already holds the same translation (sha line ignored)"""
    out = Path(out)
    old = out.read_text() if out.exists() else None
    if old is not None and not force and strip_sha(old) == strip_sha(text):
        return False
    if old == text:
        return False
    out.parent.mkdir(parents=True, exist_ok=True)
    tmp = out.with_suffix(".lean.tmp")
    tmp.write_text(text)
    os.replace(tmp, out)
    return True


def main(argv: list[str]) -> int:
    import argparse
    ap = argparse.ArgumentParser()
    ap.add_argument("--repo", default=None)
    ap.add_argument("--out", default=str(DEFAULT_OUT))
    ap.add_argument("--stdout", action="store_true")
    ap.add_argument("--force", action="store_true", help="rewrite even if only the sha256 line differs")
    a = ap.parse_args(argv)
    try:
        text, sha = translate(repo_dir(a.repo))
    except Unsupported as e:
        print(f"py2lean_optwrap: {e}", file=sys.stderr)
        return 1
    if a.stdout:
        sys.stdout.write(text)
        return 0
    changed = write_if_changed(text, Path(a.out), a.force)
    print(f"{a.out}: {'written' if changed else 'unchanged'} (source sha256 {sha[:16]}…, "
          f"translation sha256 {hashlib.sha256(strip_sha(text).encode()).hexdigest()[:16]}…)")
    return 0


PRELUDE_TEXT = r"""set_option linter.unusedVariables false

namespace OptWrapGen

/-! ### Python values (what the translated code can see of them) -/

inductive Val where
  | none
  | bool (b : Bool)
  | int (n : Int)
  | str (s : String)
  | float (id : Nat) (v : Rat)                 -- a float OBJECT: identity and value
  | obj (id : Nat)                             -- any other object, known by identity only
  | cls (id : Nat)                             -- a class (`isinstance(x, type)`): an optimizer class
  | module (id : Nat) (cells : List Nat)       -- `nn.Module`: identity, the objects `parameters()` lists, in order
  | params (cells : List Nat)                  -- the value of `net.parameters()`
  | list (id : Nat) (xs : List Val)            -- a list OBJECT: identity (0 = created here, held by nobody else) and elements
  | tuple (xs : List Val)
  | dict (kv : List (String × Val))            -- later entries win
  | record (fields : List (String × Val))      -- an object with a `__dict__`, in attribute order: `self`, the parent container, a frame
  | optimizer (cls : Nat) (groups : List Val) (state : Val)   -- a `torch.optim.Optimizer`: its `param_groups` (dicts) and `state`

abbrev M := Except String

def look (kv : List (String × Val)) (k : String) : Option Val :=
  match kv with
  | [] => Option.none
  | (k', v) :: r => match look r k with
    | some w => some w
    | Option.none => if k' == k then some v else Option.none

def pyTruthy : Val → Bool
  | .none => false
  | .bool b => b
  | .int n => n != 0
  | .str s => s != ""
  | .list _ xs => !xs.isEmpty
  | .tuple xs => !xs.isEmpty
  | .dict kv => !kv.isEmpty
  | _ => true

def pyIsNone : Val → Bool
  | .none => true
  | _ => false

/-- `isinstance(v, <class named t in the source>)` -/
def pyIsinstance (v : Val) (t : String) : Bool :=
  match v, t with
  | .module _ _, "nn.Module" => true
  | .list _ _, "list" => true
  | .dict _, "dict" => true
  | .cls _, "type" => true
  | _, _ => false

/-- `id(v)`: identity-carrying values only (everything else answers 0, and 0 is nobody's identity) -/
def pyId : Val → Nat
  | .float i _ => i
  | .obj i => i
  | .cls i => i
  | .module i _ => i
  | .list i _ => i
  | _ => 0

def pyIs (a b : Val) : Bool :=
  match a, b with
  | .none, .none => true
  | _, _ => pyId a != 0 && pyId a == pyId b

def pyLen : Val → M Val
  | .list _ xs => pure (.int xs.length)
  | .tuple xs => pure (.int xs.length)
  | .dict kv => pure (.int kv.length)
  | _ => throw "TypeError"

def pyIter : Val → M (List Val)
  | .list _ xs => pure xs
  | .tuple xs => pure xs
  | _ => throw "TypeError"

def enumFrom (i : Nat) : List Val → List Val
  | [] => []
  | x :: r => .tuple [.int i, x] :: enumFrom (i + 1) r

def pyEnumerate (v : Val) : M (List Val) := do
  let xs ← pyIter v
  pure (enumFrom 0 xs)

def pyUnpack2 : Val → M (Val × Val)
  | .tuple [a, b] => pure (a, b)
  | .list _ [a, b] => pure (a, b)
  | _ => throw "ValueError"

def pyGetItem (c k : Val) : M Val :=
  match c, k with
  | .list _ xs, .int n => if n < 0 then throw "Unsupported: negative index" else
      match xs[n.toNat]? with | some x => pure x | Option.none => throw "IndexError"
  | .tuple xs, .int n => if n < 0 then throw "Unsupported: negative index" else
      match xs[n.toNat]? with | some x => pure x | Option.none => throw "IndexError"
  | .dict kv, .str s => match look kv s with | some x => pure x | Option.none => throw "KeyError"
  | .dict _, _ => throw "KeyError"
  | _, _ => throw "TypeError"

def setField (fs : List (String × Val)) (k : String) (v : Val) : List (String × Val) :=
  match fs with
  | [] => [(k, v)]
  | (k', w) :: r => if k' == k then (k, v) :: r else (k', w) :: setField r k v

def getField (fs : List (String × Val)) (k : String) : Option Val :=
  match fs with
  | [] => Option.none
  | (k', w) :: r => if k' == k then some w else getField r k

def pyGetAttr (o : Val) (k : String) : M Val :=
  match o with
  | .record fs => match getField fs k with | some v => pure v | Option.none => throw "AttributeError"
  | _ => throw "AttributeError"

def pySetAttr (o : Val) (k : String) (v : Val) : M Val :=
  match o with
  | .record fs => pure (.record (setField fs k v))
  | _ => throw "AttributeError"

/-- `vars(o).items()` -/
def pyVarsItems : Val → M (List Val)
  | .record fs => pure (fs.map fun p => .tuple [.str p.1, p.2])
  | _ => throw "TypeError"

def pyEq (a b : Val) : M Val :=
  match a, b with
  | .int x, .int y => pure (.bool (x == y))
  | .str x, .str y => pure (.bool (x == y))
  | .bool x, .bool y => pure (.bool (x == y))
  | .none, .none => pure (.bool true)
  | _, _ => throw "Unsupported: == on these values"

def pyLt (a b : Val) : M Val :=
  match a, b with
  | .int x, .int y => pure (.bool (x < y))
  | _, _ => throw "Unsupported: < on these values"

def pyGt (a b : Val) : M Val :=
  match a, b with
  | .int x, .int y => pure (.bool (x > y))
  | _, _ => throw "Unsupported: > on these values"

def isInfixC : List Char → List Char → Bool
  | p, [] => p.isEmpty
  | p, c :: cs => p.isPrefixOf (c :: cs) || isInfixC p cs

/-- `a in b` -/
def pyIn (a b : Val) : M Val :=
  match a, b with
  | .str x, .str y => pure (.bool (isInfixC x.toList y.toList))
  | _, _ => throw "Unsupported: `in` on these values"

def pyAppend (l x : Val) : M Val :=
  match l with
  | .list i xs => pure (.list i (xs ++ [x]))
  | _ => throw "AttributeError"

/-- the list object `l` with new elements -/
def pyRebuild (l : Val) (xs : List Val) : M Val :=
  match l with
  | .list i _ => pure (.list i xs)
  | _ => throw "TypeError"

/-- `**d` -/
def pyDictItems : Val → M (List (String × Val))
  | .dict kv => pure kv
  | _ => throw "TypeError"

def mapM' {α β : Type} (f : α → M β) : List α → M (List β)
  | [] => pure []
  | x :: r => do
    let y ← f x
    let ys ← mapM' f r
    pure (y :: ys)

def anyM' {α : Type} (f : α → M Bool) : List α → M Bool
  | [] => pure false
  | x :: r => do
    if ← f x then pure true else anyM' f r

def allM' {α : Type} (f : α → M Bool) : List α → M Bool
  | [] => pure true
  | x :: r => do
    if ← f x then allM' f r else pure false

def filterMapM' {α β : Type} (f : α → M (Option β)) : List α → M (List β)
  | [] => pure []
  | x :: r => do
    let y ← f x
    let ys ← filterMapM' f r
    pure (match y with | some b => b :: ys | Option.none => ys)

def foldM' {σ α : Type} (f : σ → α → M σ) (s : σ) : List α → M σ
  | [] => pure s
  | x :: r => do
    let s' ← f s x
    foldM' f s' r

/-! ### torch (assumed) -/

/-- one entry of the list handed to `Optimizer.__init__`: a dict with a `params` entry; the defaults of the call fill the
    missing options -/
def torchGroup (defaults : List (String × Val)) : Val → M Val
  | .dict kv => match look kv "params" with
    | some (.params _) => pure (.dict (defaults ++ kv))
    | _ => throw "TypeError"
  | _ => throw "TypeError"

/-- `optimizer_cls(params, **kw)`: an iterable of parameters gives ONE group, a list of dicts one group per dict, in order;
    groups keep the parameter objects in the order given -/
def pyCall (f : Val) (args : List Val) (kw : List (String × Val)) : M Val :=
  match f, args with
  | .cls c, [.params cells] => pure (.optimizer c [.dict (kw ++ [("params", .params cells)])] (.dict []))
  | .cls c, [.list _ gs] => do
    let gs' ← mapM' (torchGroup kw) gs
    pure (.optimizer c gs' (.dict []))
  | _, _ => throw "TypeError"

/-- what `Optimizer.state_dict()` keeps of a group: the options, `params` replaced by their number -/
def packGroup : Val → Val
  | .dict kv => match look kv "params" with
    | some (.params cells) => .dict (kv ++ [("params", .int cells.length)])
    | _ => .dict kv
  | v => v

def groupSize : Val → Option Nat
  | .dict kv => match look kv "params" with
    | some (.params cells) => some cells.length
    | some (.int n) => some n.toNat
    | _ => Option.none
  | _ => Option.none

/-- `Optimizer.load_state_dict`: a saved group's options with the group's OWN parameter objects -/
def unpackGroup (own saved : Val) : Val :=
  match own, saved with
  | .dict kv, .dict sv => match look kv "params" with
    | some p => .dict (sv ++ [("params", p)])
    | Option.none => own
  | _, _ => own

/-- value-returning methods of values that are not translated classes -/
def pyCallMethod (o : Val) (name : String) (args : List Val) : M Val :=
  match o, name, args with
  | .module _ cells, "parameters", [] => pure (.params cells)
  | .str s, "lower", [] => pure (.str (String.ofList (s.toList.map Char.toLower)))
  | .optimizer _ gs st, "state_dict", [] => pure (.dict [("state", st), ("param_groups", .list 0 (gs.map packGroup))])
  | _, _, _ => throw "AttributeError"

/-- methods of torch optimizers that change the object in place: the object afterwards.  `zero_grad` / `step` change
    gradients and values, not the wiring. -/
def pyCallMut (o : Val) (name : String) (args : List Val) : M Val :=
  match o, name, args with
  | .optimizer c gs st, "load_state_dict", [.dict sd] =>
    match look sd "state", look sd "param_groups" with
    | some st', some (.list _ sgs) =>
      if gs.map groupSize == sgs.map groupSize then pure (.optimizer c (List.zipWith unpackGroup gs sgs) st')
      else throw "ValueError"
    | _, _ => throw "KeyError"
  | .optimizer c gs st, "zero_grad", [] => pure o
  | .optimizer c gs st, "step", [] => pure o
  | _, _, _ => throw "AttributeError"
"""

if __name__ == "__main__":
    sys.exit(main(sys.argv[1:]))
