#!/usr/bin/env python3
"""
py2lean_per.py — translate the logic of `PrioritizedReplayBuffer`
(REPO/agilerl/components/replay_buffer.py) into Lean 4.

    python3 harness/py2lean_per.py [--repo DIR] [--out FILE] [--stdout] [--force]

Reads the *source text* only (Python `ast`; agilerl is never imported) and writes lean/Gen/PerGen.lean
(namespace PerGen, core Lean only, imports Gen.SegTreeGen).  The generated code calls the generated tree
functions of `Gen/SegTreeGen.lean` (`SegmentTree.setitem`, `SegmentTree.getitem`, `SumSegmentTree.sum`,
`SumSegmentTree.retrieve`, `MinSegmentTree.min`, the two `init`s) with the operation / initial value each tree class
passes, so the two source ties compose; the signatures of those functions are read off
`agilerl/components/segment_tree.py` with py2lean_segtree (a source it rejects is rejected here as well).
`Proofs/PerGenEq.lean` proves the generated definitions equal to the PER part of `Model/SegTree.lean`
(`PER.new`, `updatePriority`, `add`, `updateMany`, `strata` + `retrieve`, `weights`); `Props/C11.lean` restates the
buffer theorems over the generated definitions (`C11_source_translation_per_*`).

What is translated: class `PrioritizedReplayBuffer`, methods `__init__`, `add`, `_update_priority`,
`_sample_proportional`, `_calculate_weights`, `update_priorities`.  Everything else in the file is ignored
(`ReplayBuffer` is translated by py2lean_ring.py, `MultiStepReplayBuffer` by py2lean_nstep.py; `sample` only glues
`_sample_proportional`, `storage[indices]` and `_calculate_weights`).

Supported subset (anything else raises `Unsupported` naming the construct and its line — never a default):
  * parameters annotated `int` (→ Nat: sizes and indices are natural numbers), `float` (→ Rat),
    `torch.Tensor` (→ `List Nat` or `List Rat`, decided by how its elements are used), `TensorDict` (→ Nat: the
    number of rows of the batch; only `.shape[0]` and `super().add(data)` may use it); a float parameter that
    occurs only as the exponent of `**` (`alpha`, `beta`) is realised by a power function of `Env` and dropped;
    parameters of `__init__` other than the first two (`device`, `dtype`) are ignored;
  * `__init__`: `super().__init__(<max_size param>, …)`, `self.alpha = <exponent param>`,
    `self.f = <int | float literal>`, `self.t = SumSegmentTree(<int expr>)` / `MinSegmentTree(<int expr>)`,
    locals, one `while`; the fields of the generated `State` are exactly these, in source order;
  * statements: docstring, `x = e`, `x op= e` (normalised to `x = x op e`), `self.f = e`, `self.t[i] = e`
    (tree store through the generated `__setitem__`), `x[i] = e` on a local list, `assert e`, `return e` (last
    statement), `self.m(…)` / `super().add(data)` as statements, top-level `while` (int state, no calls) and
    top-level `for` over `range(e)`, `enumerate(xs)`, `zip(xs, ys)`, `xs` (no else / break / continue / nesting);
  * expressions: int / float literals (floats become their exact rational value), locals, `self.f`,
    `self.max_size`, `self.size`, `self.t.capacity`, `data.shape[0]`, `len(xs)`, `x.item()` (identity), `+ - *` (int or float, ints
    are cast when mixed), `/` (float division, `none` on a zero divisor), `%` (on naturals, `none` on zero),
    `x ** self.alpha` (→ `env.powAlpha x`), `x ** -beta` (→ `env.powNegBeta x`), comparisons (chained),
    `and / or / not`, `max(a, b)` on floats (first argument on ties), `torch.zeros(n[, dtype=torch.int64][,
    device=…])` (→ `List.replicate n 0`), `torch.rand(1).item()` (→ the next element of the explicit list `draws`,
    `none` when exhausted), `self.t.sum()` / `.min()` / `.retrieve(u)` / `self.t[i]` (generated tree functions),
    calls of translated methods.

Shape of the output
  * `structure Env ρ`: what is used of the base class and the runtime — `superInit`, `superAdd` (the C09 ring,
    opaque here: `ρ` is its state), `maxSize`, `size` (the attributes `self.max_size`, `self.size`), `powAlpha`,
    `powNegBeta`; `structure State ρ`: `ring : ρ` plus the fields set by `__init__` (a tree field `t` becomes
    `t_cap : Nat` and `t : List _`);
  * every method is `PrioritizedReplayBuffer.m (env) (fuel) (st) [draws] args : Option R` (`none` = the Python
    raises: failed assertion, zero division, exhausted draws, an assertion inside a tree method); methods that
    assign fields return the new state; `fuel` is handed to the generated tree functions and `while` loops;
  * fallible sub-expressions (tree calls, `/`, `%`, draws, translated methods, `+inf` used in arithmetic) are
    bound (`match … with | none => none | some rK =>`) in evaluation order before the statement using them;
  * `while` → `m_loopN` by recursion on fuel; `for` → `m_forN` by structural recursion on the count / the list,
    with the variables it only reads as fixed parameters, then the iteration index (if the body uses it), then the
    variables it assigns; it returns the one thing needed afterwards (the state if it assigns fields);
  * locals are renamed canonically (`a0…` parameters, `v0…` locals in order of first assignment, `rK` bound
    results), so renaming locals does not change the output.

Assumptions (external / runtime calls become explicit parameters or the identity)
  * `super().__init__` / `super().add` are the parameters `env.superInit` / `env.superAdd` on the opaque ring state;
    `self.max_size`, `self.size` are read through `env.maxSize`, `env.size`;
  * `x ** self.alpha`, `x ** -beta` are total functions `Rat → Rat` (Python raises for `0.0 ** negative`; the
    theorems show the bases are positive on reachable states);
  * `torch.rand(1).item()` yields the next explicit draw; `torch.zeros` ignores `device`; `.item()` is the identity;
  * arithmetic on `+inf` (the min tree of an empty buffer) is not modelled: using it in `/` answers `none`;
  * integers are natural numbers (negative indices are outside the model: `0 <= idx` is then trivially true).
"""
from __future__ import annotations

import ast
import hashlib
import os
import sys
from pathlib import Path

HERE = Path(__file__).resolve().parent
sys.path.insert(0, str(HERE))
import py2lean_segtree  # noqa: E402

DEFAULT_OUT = HERE.parent / "lean" / "Gen" / "PerGen.lean"
REL_SOURCE = "agilerl/components/replay_buffer.py"
SHA_PREFIX = "-- sha256(source) = "
CLASS = "PrioritizedReplayBuffer"
METHODS = ["__init__", "_update_priority", "add", "_sample_proportional", "_calculate_weights", "update_priorities"]
TREE_CLASSES = {"SumSegmentTree": "Rat", "MinSegmentTree": "Option Rat"}


class Unsupported(Exception):
    pass


def fail(node, what: str):
    raise Unsupported(f"{REL_SOURCE}:{getattr(node, 'lineno', '?')}: unsupported construct: {what}")


INT, FLOAT, EXT, BOOL, LINT, LFLOAT, ROWS = "int", "float", "ext", "bool", "list-int", "list-float", "rows"
LEAN_TY = {INT: "Nat", FLOAT: "Rat", EXT: "Option Rat", LINT: "List Nat", LFLOAT: "List Rat", ROWS: "Nat"}
CMPOPS = py2lean_segtree.CMPOPS


class TVar:
    """type of a tensor parameter / its elements, fixed by the first use"""

    def __init__(self, what):
        self.what, self.ty = what, None

    def resolve(self, node, ty):
        if self.ty is None:
            self.ty = ty
        elif self.ty != ty:
            fail(node, f"{self.what} used both as {self.ty} and as {ty}")


class TensorT:
    """a tensor parameter: a list whose element type is fixed by the first use of an element"""

    def __init__(self, what):
        self.elem = TVar(f"elements of {what}")


def lean_name(py: str) -> str:
    return "init" if py == "__init__" else py.lstrip("_")


def ind(lines, n=2):
    return [" " * n + ln for ln in lines]


def rat_literal(x: float) -> str:
    return py2lean_segtree.rat_literal(x)


is_docstring = py2lean_segtree.is_docstring


class MSig:
    def __init__(self):
        self.params = []          # (python name, type | TVar, kept?)
        self.mutates = False
        self.draws = False
        self.ret = None           # type of the returned value (None: returns the state)


class Translator:
    def __init__(self, src: str, seg_src: str):
        self.mod = ast.parse(src)
        seg = py2lean_segtree.Translator(seg_src)
        try:
            seg.run()
        except py2lean_segtree.Unsupported as e:
            raise Unsupported(f"the tree functions this translation calls: {e}") from e
        self.seg = seg
        self.out: list[str] = []
        self.sigs: dict[str, MSig] = {}
        self.fields: list[tuple[str, str]] = []      # (name, kind): kind in int/float/Sum../Min..
        self.exp_field = None                        # the field holding alpha

    # ------------------------------------------------------------------ driver
    def run(self) -> str:
        cls = [n for n in self.mod.body if isinstance(n, ast.ClassDef) and n.name == CLASS]
        if len(cls) != 1:
            raise Unsupported(f"{REL_SOURCE}: class {CLASS} not found exactly once")
        cls = cls[0]
        bases = [b.id for b in cls.bases if isinstance(b, ast.Name)]
        if bases != ["ReplayBuffer"] or cls.keywords or cls.decorator_list:
            fail(cls, f"class {CLASS} with bases other than (ReplayBuffer)")
        self.fns = {n.name: n for n in cls.body if isinstance(n, ast.FunctionDef)}
        for m in METHODS:
            if m not in self.fns:
                raise Unsupported(f"{REL_SOURCE}: method {CLASS}.{m} not found")
            if self.fns[m].decorator_list:
                fail(self.fns[m], f"decorator on {m}")
        self.scan_init()
        self.compute_sigs()
        self.emit_prelude()
        self.out += ["section", "variable {ρ : Type}", ""]
        for m in METHODS:
            MethodCtx(self, self.fns[m]).emit()
        self.out += ["end", ""]
        return "\n".join(self.out).rstrip() + "\n\nend PerGen\n"

    # ------------------------------------------------------------------ __init__ fields
    def plain_args(self, fn):
        a = fn.args
        if a.vararg or a.kwarg or a.kwonlyargs or a.posonlyargs:
            fail(fn, f"*args / **kwargs / keyword-only parameters of {fn.name}")
        if not a.args or a.args[0].arg != "self":
            fail(fn, f"{fn.name} without self")
        return a.args[1:]

    def ann(self, a: ast.arg) -> str:
        n = a.annotation
        if n is None:
            fail(a, f"parameter {a.arg} without annotation")
        if isinstance(n, ast.Name) and n.id in ("int", "float", "TensorDict"):
            return n.id
        if isinstance(n, ast.Attribute) and isinstance(n.value, ast.Name) and n.value.id == "torch" and n.attr == "Tensor":
            return "Tensor"
        fail(a, f"annotation of parameter {a.arg}")

    def self_attr(self, n, name=None):
        return isinstance(n, ast.Attribute) and isinstance(n.value, ast.Name) and n.value.id == "self" \
            and (name is None or n.attr == name)

    def is_super_call(self, n, meth):
        return isinstance(n, ast.Call) and isinstance(n.func, ast.Attribute) and n.func.attr == meth \
            and isinstance(n.func.value, ast.Call) and isinstance(n.func.value.func, ast.Name) \
            and n.func.value.func.id == "super" and not n.func.value.args and not n.func.value.keywords

    def scan_init(self):
        fn = self.fns["__init__"]
        args = self.plain_args(fn)
        if len(args) < 2 or self.ann(args[0]) != "int" or self.ann(args[1]) != "float":
            fail(fn, "__init__ whose first parameters are not `<size>: int, <exponent>: float`")
        self.init_size_param, self.init_exp_param = args[0].arg, args[1].arg
        for st in fn.body:
            if isinstance(st, ast.Assign) and len(st.targets) == 1 and self.self_attr(st.targets[0]):
                f, v = st.targets[0].attr, st.value
                if any(f == g for g, _ in self.fields) or f == self.exp_field:
                    fail(st, f"self.{f} assigned twice in __init__")
                if isinstance(v, ast.Name) and v.id == self.init_exp_param:
                    self.exp_field = f
                elif isinstance(v, ast.Constant) and type(v.value) is int:
                    self.fields.append((f, INT))
                elif isinstance(v, ast.Constant) and type(v.value) is float:
                    self.fields.append((f, FLOAT))
                elif isinstance(v, ast.Call) and isinstance(v.func, ast.Name) and v.func.id in TREE_CLASSES \
                        and len(v.args) == 1 and not v.keywords:
                    self.fields.append((f, v.func.id))
                else:
                    fail(st, f"self.{f} = <not an int / float literal, the exponent parameter or a segment tree>")
        if self.exp_field is None:
            fail(fn, "__init__ does not store the exponent parameter in a field")

    def field_kind(self, f):
        for g, k in self.fields:
            if g == f:
                return k
        return None

    # ------------------------------------------------------------------ signatures
    def compute_sigs(self):
        for m in METHODS:
            if m == "__init__":
                continue
            fn = self.fns[m]
            s = MSig()
            if fn.args.defaults:
                fail(fn, f"default arguments of {m}")
            for a in self.plain_args(fn):
                t = self.ann(a)
                exp_only = t == "float" and self.only_exponent(fn, a.arg)
                ty = {"int": INT, "float": FLOAT, "TensorDict": ROWS}.get(t) or TensorT(f"tensor parameter {a.arg}")
                s.params.append((a.arg, ty, not exp_only))
            s.mutates = any(isinstance(n, (ast.Assign, ast.AugAssign)) and any(
                self.self_attr(t) or (isinstance(t, ast.Subscript) and self.self_attr(t.value))
                for t in (n.targets if isinstance(n, ast.Assign) else [n.target])) for n in ast.walk(fn)) \
                or any(self.is_super_call(n, "add") for n in ast.walk(fn))
            s.draws = any(self.is_rand(n) for n in ast.walk(fn))
            rets = [n for n in ast.walk(fn) if isinstance(n, ast.Return) and n.value is not None]
            if rets and s.mutates:
                fail(rets[0], f"{m} both assigns fields and returns a value")
            r = fn.returns
            if rets:
                if isinstance(r, ast.Attribute) and isinstance(r.value, ast.Name) and r.value.id == "torch" and r.attr == "Tensor":
                    s.ret = TVar(f"result of {m}")
                elif isinstance(r, ast.Name) and r.id in ("int", "float"):
                    s.ret = INT if r.id == "int" else FLOAT
                else:
                    fail(fn, f"return annotation of {m}")
            self.sigs[m] = s
        changed = True
        while changed:
            changed = False
            for m, s in self.sigs.items():
                for n in ast.walk(self.fns[m]):
                    if isinstance(n, ast.Call) and isinstance(n.func, ast.Attribute) and self.self_attr(n.func) \
                            and n.func.attr in self.sigs:
                        c = self.sigs[n.func.attr]
                        if c.mutates and not s.mutates:
                            s.mutates = changed = True
                        if c.draws and not s.draws:
                            s.draws = changed = True

    def only_exponent(self, fn, name) -> bool:
        uses = [n for n in ast.walk(fn) if isinstance(n, ast.Name) and n.id == name and isinstance(n.ctx, ast.Load)]
        if not uses:
            return False
        ok = set()
        for n in ast.walk(fn):
            if isinstance(n, ast.BinOp) and isinstance(n.op, ast.Pow):
                r = n.right
                if isinstance(r, ast.UnaryOp) and isinstance(r.op, ast.USub):
                    r = r.operand
                if isinstance(r, ast.Name) and r.id == name:
                    ok.add(id(r))
        return all(id(u) in ok for u in uses)

    def is_rand(self, n) -> bool:
        """torch.rand(1).item()"""
        if not (isinstance(n, ast.Call) and isinstance(n.func, ast.Attribute) and n.func.attr == "item"
                and not n.args and not n.keywords):
            return False
        c = n.func.value
        return isinstance(c, ast.Call) and isinstance(c.func, ast.Attribute) and c.func.attr == "rand" \
            and isinstance(c.func.value, ast.Name) and c.func.value.id == "torch" and len(c.args) == 1 \
            and isinstance(c.args[0], ast.Constant) and c.args[0].value == 1 and not c.keywords

    # ------------------------------------------------------------------ prelude
    def emit_prelude(self):
        self.out += [
            "namespace PerGen",
            "open SegTreeGen",
            "",
            "/-- Python's builtin `max(a, b)` on floats: `b if b > a else a` (first argument on ties) -/",
            "def pyMax (a b : Rat) : Rat := if b > a then b else a",
            "",
            "/-- float `/`: `none` = ZeroDivisionError -/",
            "def pyDiv (a b : Rat) : Option Rat := if b = 0 then none else some (a / b)",
            "",
            "/-- int `%` on natural numbers: `none` = ZeroDivisionError -/",
            "def pyMod (a b : Nat) : Option Nat := if b = 0 then none else some (a % b)",
            "",
            "/-- what the translated methods use of the `ReplayBuffer` base class (state `ρ`, opaque here) and of the",
            "    runtime: `super().__init__`, `super().add`, `self.max_size`, `self.size`, "
            f"`x ** self.{self.exp_field}`, `x ** -beta` -/",
            "structure Env (ρ : Type) where",
            "  superInit : Nat → ρ",
            "  superAdd : ρ → Nat → ρ",
            "  maxSize : ρ → Nat",
            "  size : ρ → Nat",
            "  powAlpha : Rat → Rat",
            "  powNegBeta : Rat → Rat",
            "",
            f"/-- the fields `{CLASS}.__init__` sets (besides `self.{self.exp_field}`, realised by `Env.powAlpha`) -/",
            "structure State (ρ : Type) where",
            "  ring : ρ",
        ]
        for f, k in self.fields:
            if k in TREE_CLASSES:
                self.out += [f"  {f}_cap : Nat", f"  {f} : List ({TREE_CLASSES[k]})"]
            else:
                self.out.append(f"  {f} : {LEAN_TY[k]}")
        self.out.append("")


# ----------------------------------------------------------------------------------------------
class MethodCtx:
    def __init__(self, tr: Translator, fn: ast.FunctionDef):
        self.tr, self.fn = tr, fn
        self.is_init = fn.name == "__init__"
        self.canon: dict[str, str] = {}
        self.types: dict[str, object] = {}
        self.defined: set[str] = set()
        self.binds = None
        self.nbind = 0
        self.nloop = 0
        self.nfor = 0
        self.loop_defs: list[str] = []
        self.in_loop = False
        self.init_set: list[str] = []
        self.ring_set = False
        self.name = f"{CLASS}.{lean_name(fn.name)}"
        if self.is_init:
            args = tr.plain_args(fn)
            self.sig = MSig()
            self.sig.mutates = True
            self.sig.params = [(args[0].arg, INT, True), (args[1].arg, FLOAT, False)] + [(a.arg, None, False) for a in args[2:]]
        else:
            self.sig = tr.sigs[fn.name]
        for i, (p, t, keep) in enumerate(self.sig.params):
            self.canon[p] = f"a{i}"
            if keep:
                self.types[p] = t
                self.defined.add(p)
        self.collect_locals(fn.body)

    # ---------------- naming
    def collect_locals(self, stmts):
        k = 0

        def add(t):
            nonlocal k
            if isinstance(t, ast.Name) and t.id not in self.canon:
                self.canon[t.id] = f"v{k}"
                k += 1
            elif isinstance(t, ast.Tuple):
                for e in t.elts:
                    add(e)

        def visit(sts):
            for st in sts:
                if isinstance(st, ast.Assign):
                    for t in st.targets:
                        add(t)
                elif isinstance(st, ast.AugAssign):
                    add(st.target)
                elif isinstance(st, ast.For):
                    add(st.target)
                if isinstance(st, (ast.If, ast.While, ast.For)):
                    visit(st.body)
                    visit(st.orelse)
        visit(stmts)

    def ty_of(self, t):
        if isinstance(t, TensorT):
            return {INT: LINT, FLOAT: LFLOAT}.get(t.elem.ty, "tensor")
        return t.ty if isinstance(t, TVar) else t

    def lean_ty(self, t, node=None):
        if isinstance(t, TensorT):
            return f"List {self.lean_ty(t.elem, node)}"
        t = self.ty_of(t)
        if t is None:
            fail(node or self.fn, "a tensor whose element type cannot be determined from its uses")
        return LEAN_TY[t]

    # ---------------- type helpers
    def want(self, node, txt, ty, target):
        """coerce (txt, ty) to `target` (INT / FLOAT / EXT)"""
        if isinstance(ty, TVar):
            if ty.ty is None:
                ty.resolve(node, target if target in (INT, FLOAT) else FLOAT)
            ty = ty.ty
        if ty == "num":
            return txt
        if ty == target:
            return txt
        if ty == INT and target == FLOAT:
            return f"({txt} : Rat)" if txt.isidentifier() else f"(({txt} : Nat) : Rat)"
        if ty == FLOAT and target == EXT:
            return f"(some {txt})"
        if ty == EXT and target == FLOAT:
            if self.binds is None:
                fail(node, "a possibly infinite float in a position where it cannot be bound")
            r = self.fresh()
            self.binds.append(("finite", r, txt))
            return r
        fail(node, f"a value of type {ty} where {target} is needed")

    def fresh(self):
        r = f"r{self.nbind}"
        self.nbind += 1
        return r

    def bind(self, node, txt):
        if self.binds is None:
            fail(node, "a call / division that can fail, in a position where it cannot be bound")
        r = self.fresh()
        self.binds.append(("call", r, txt))
        return r

    # ---------------- expressions
    def ex(self, n, top=False):
        par = (lambda s: s) if top else (lambda s: f"({s})")
        tr = self.tr
        if isinstance(n, ast.Constant):
            if type(n.value) is int and n.value >= 0:
                return str(n.value), "num"
            if type(n.value) is float:
                return rat_literal(n.value), FLOAT
            fail(n, f"constant {n.value!r}")
        if isinstance(n, ast.Name):
            if n.id not in self.types or n.id not in self.defined:
                fail(n, f"name {n.id} (not a parameter / local assigned before)")
            if self.types[n.id] == ROWS:
                fail(n, f"the batch {n.id} used other than by .shape[0] / super().add")
            return self.canon[n.id], self.types[n.id]
        if isinstance(n, ast.Attribute):
            if tr.self_attr(n):
                if self.is_init:
                    fail(n, f"read of self.{n.attr} inside __init__")
                if n.attr == "max_size":
                    return par("env.maxSize st.ring"), INT
                if n.attr == "size":
                    return par("env.size st.ring"), INT
                k = tr.field_kind(n.attr)
                if k in (INT, FLOAT):
                    return f"st.{n.attr}", k
                fail(n, f"self.{n.attr} (not a scalar field set by __init__, max_size or size)")
            if n.attr == "capacity" and tr.self_attr(n.value) and tr.field_kind(n.value.attr) in TREE_CLASSES \
                    and not self.is_init:
                return f"st.{n.value.attr}_cap", INT
            fail(n, f"attribute .{n.attr}")
        if isinstance(n, ast.Subscript):
            v = n.value
            if isinstance(v, ast.Attribute) and v.attr == "shape" and isinstance(v.value, ast.Name) \
                    and self.types.get(v.value.id) == ROWS and isinstance(n.slice, ast.Constant) and n.slice.value == 0:
                return self.canon[v.value.id], INT
            if tr.self_attr(v) and tr.field_kind(v.attr) in TREE_CLASSES and not self.is_init:
                return self.tree_call(n, v.attr, "__getitem__", [n.slice])
            fail(n, "subscript other than self.<tree>[i] / <batch>.shape[0]")
        if isinstance(n, ast.BinOp):
            if isinstance(n.op, ast.Pow):
                base, bt = self.ex(n.left)
                base = self.want(n, base, bt, FLOAT)
                r = n.right
                if tr.self_attr(r, tr.exp_field) and not self.is_init:
                    return par(f"env.powAlpha {base}"), FLOAT
                if isinstance(r, ast.UnaryOp) and isinstance(r.op, ast.USub) and isinstance(r.operand, ast.Name) \
                        and any(p == r.operand.id and not keep for p, _, keep in self.sig.params):
                    return par(f"env.powNegBeta {base}"), FLOAT
                fail(n, "`**` with an exponent other than self.<exponent field> / -<exponent parameter>")
            (a, ta), (b, tb) = self.ex(n.left), self.ex(n.right)
            ta2, tb2 = self.ty_of(ta), self.ty_of(tb)
            if isinstance(n.op, ast.Div):
                a, b = self.want(n, a, ta, FLOAT), self.want(n, b, tb, FLOAT)
                return self.bind(n, f"pyDiv {a} {b}"), FLOAT
            if isinstance(n.op, ast.Mod):
                if {ta2, tb2} - {INT, "num"}:
                    fail(n, "`%` on non-integers")
                return self.bind(n, f"pyMod {a} {b}"), INT
            op = {ast.Add: "+", ast.Sub: "-", ast.Mult: "*"}.get(type(n.op)) or fail(n, f"operator {type(n.op).__name__}")
            if ta2 in (FLOAT, EXT) or tb2 in (FLOAT, EXT):
                a, b = self.want(n, a, ta, FLOAT), self.want(n, b, tb, FLOAT)
                return par(f"{a} {op} {b}"), FLOAT
            if ta2 in (INT, "num", None) and tb2 in (INT, "num", None):
                a, b = self.want(n, a, ta, INT), self.want(n, b, tb, INT)
                return par(f"{a} {op} {b}"), INT
            fail(n, f"arithmetic on {ta2} and {tb2}")
        if isinstance(n, ast.Compare):
            parts, (ltxt, lt) = [], self.ex(n.left)
            for o, r in zip(n.ops, n.comparators):
                op = CMPOPS.get(type(o)) or fail(n, f"comparison {type(o).__name__}")
                rtxt, rt = self.ex(r)
                l2, r2 = self.ty_of(lt), self.ty_of(rt)
                tgt = FLOAT if FLOAT in (l2, r2) or EXT in (l2, r2) else INT
                if BOOL in (l2, r2) or l2 in (LINT, LFLOAT) or r2 in (LINT, LFLOAT):
                    fail(n, "comparison of booleans / lists")
                parts.append(f"{self.want(n, ltxt, lt, tgt)} {op} {self.want(n, rtxt, rt, tgt)}")
                ltxt, lt = rtxt, rt
            return par(" ∧ ".join(parts)), BOOL
        if isinstance(n, ast.BoolOp):
            vs = []
            for v in n.values:
                t, ty = self.ex(v)
                if ty != BOOL:
                    fail(v, "non-boolean operand of and / or")
                vs.append(t)
            return par((" ∧ " if isinstance(n.op, ast.And) else " ∨ ").join(vs)), BOOL
        if isinstance(n, ast.UnaryOp) and isinstance(n.op, ast.Not):
            t, ty = self.ex(n.operand)
            if ty != BOOL:
                fail(n, "not <non-boolean>")
            return par(f"¬ {t}"), BOOL
        if isinstance(n, ast.Call):
            return self.call(n, par)
        fail(n, type(n).__name__)

    def call(self, n, par):
        tr, f = self.tr, n.func
        if self.is_init:
            fail(n, "call inside an expression of __init__")
        if tr.is_rand(n):
            if self.binds is None:
                fail(n, "torch.rand in a position where it cannot be bound")
            r = self.fresh()
            self.binds.append(("draw", r, None))
            return r, FLOAT
        if isinstance(f, ast.Attribute) and f.attr == "item" and not n.args and not n.keywords:
            return self.ex(f.value)                                  # tensor scalar -> Python number
        if isinstance(f, ast.Name) and f.id == "len" and len(n.args) == 1 and not n.keywords:
            t, ty = self.ex(n.args[0])
            if isinstance(ty, TensorT) or ty in (LINT, LFLOAT):
                return par(f"{t}.length"), INT
            fail(n, "len of a non-list")
        if isinstance(f, ast.Name) and f.id == "max" and len(n.args) == 2 and not n.keywords:
            (a, ta), (b, tb) = self.ex(n.args[0]), self.ex(n.args[1])
            return par(f"pyMax {self.want(n, a, ta, FLOAT)} {self.want(n, b, tb, FLOAT)}"), FLOAT
        if isinstance(f, ast.Attribute) and isinstance(f.value, ast.Name) and f.value.id == "torch" and f.attr == "zeros":
            if len(n.args) != 1:
                fail(n, "torch.zeros with other than one positional argument")
            elem = FLOAT
            for kw in n.keywords:
                if kw.arg == "dtype":
                    v = kw.value
                    if isinstance(v, ast.Attribute) and isinstance(v.value, ast.Name) and v.value.id == "torch" \
                            and v.attr in ("int64", "long"):
                        elem = INT
                    else:
                        fail(kw.value, "dtype other than torch.int64")
                elif kw.arg != "device":
                    fail(n, f"keyword {kw.arg} of torch.zeros")
            c, ct = self.ex(n.args[0])
            return par(f"List.replicate {self.want(n, c, ct, INT)} 0"), (LINT if elem == INT else LFLOAT)
        if isinstance(f, ast.Attribute) and tr.self_attr(f.value) and tr.field_kind(f.value.attr) in TREE_CLASSES:
            if n.keywords:
                fail(n, "keyword arguments of a tree method")
            return self.tree_call(n, f.value.attr, f.attr, n.args)
        if isinstance(f, ast.Attribute) and tr.self_attr(f) and f.attr in tr.sigs:
            sig = tr.sigs[f.attr]
            if sig.mutates:
                fail(n, f"call of the state-changing method {f.attr} inside an expression")
            txt = self.method_call_text(n, f.attr)
            return self.bind(n, txt), sig.ret
        fail(n, "call of " + ast.unparse(f))

    def method_call_text(self, n, m):
        sig = self.tr.sigs[m]
        if n.keywords or len(n.args) != len(sig.params):
            fail(n, f"arguments of {m}")
        args = []
        for a, (p, t, keep) in zip(n.args, sig.params):
            if not keep:
                continue
            txt, ty = self.ex(a)
            tgt = self.ty_of(t)
            if tgt in (INT, FLOAT):
                txt = self.want(n, txt, ty, tgt)
            else:
                fail(n, f"argument {p} of {m} (lists cannot be passed on)")
            args.append(txt)
        return f"{CLASS}.{lean_name(m)} env fuel st" + (" draws" if sig.draws else "") + "".join(f" {a}" for a in args)

    def tree_call(self, n, field, meth, args):
        tr = self.tr
        cname = tr.field_kind(field)
        ci = tr.seg.classes[cname]
        found = ci.lookup(meth)
        if found is None or meth in ("__init__", "__setitem__"):
            fail(n, f"tree method {meth}")
        owner, _ = found
        sig = tr.seg.sigs[(owner.name, meth)]
        if not sig.option:
            fail(n, f"tree method {meth} with an unexpected generated signature")
        vals = []
        for i, (p, t, dflt) in enumerate(sig.params):
            if i < len(args):
                txt, ty = self.ex(args[i])
                vals.append(self.want(n, txt, ty, INT if t == py2lean_segtree.INT else FLOAT))
            elif dflt is not None:
                vals.append(dflt)
            else:
                fail(n, f"missing argument {p} of {meth}")
        if len(args) > len(sig.params):
            fail(n, f"too many arguments of {meth}")
        txt = f"{owner.name}.{py2lean_segtree.lean_name(meth)} {cname}.op {cname}.initValue st.{field}_cap st.{field}" \
            + (" fuel" if sig.fuel else "") + "".join(f" {v}" for v in vals)
        elem = FLOAT if cname == "SumSegmentTree" else EXT
        rty = INT if sig.ret_type == py2lean_segtree.INT else elem
        return self.bind(n, txt), rty

    def with_binds(self, build):
        saved, self.binds = self.binds, []
        lines = build()
        binds, self.binds = self.binds, saved
        for kind, r, txt in reversed(binds):
            if kind == "draw":
                lines = ["match draws with", "| [] => none", f"| {r} :: draws =>"] + ind(lines)
            else:
                lines = [f"match {txt} with", "| none => none", f"| some {r} =>"] + ind(lines)
        return lines

    # ---------------- statements
    def set_field(self, f, txt):
        return f"let st : State ρ := {{ st with {f} := {txt} }}"

    def end_of_method(self):
        if self.is_init:
            need = ["ring"] + [g for f, k in self.tr.fields for g in ([f"{f}_cap", f] if k in TREE_CLASSES else [f])]
            missing = [g for g in need if g not in self.init_set]
            if missing:
                fail(self.fn, f"__init__ does not set {missing}")
            return ["some { " + ", ".join(f"{g} := {g}" for g in need) + " }"]
        if self.sig.ret is not None:
            fail(self.fn, f"{self.fn.name}: a path reaches the end without `return`")
        return ["some st"]

    def names_read(self, nodes):
        out = set()
        for st in nodes:
            for n in ast.walk(st):
                if isinstance(n, ast.Name) and isinstance(n.ctx, ast.Load):
                    out.add(n.id)
                if isinstance(n, ast.AugAssign) and isinstance(n.target, ast.Name):
                    out.add(n.target.id)
                if isinstance(n, ast.Subscript) and isinstance(n.ctx, ast.Store) and isinstance(n.value, ast.Name):
                    out.add(n.value.id)
        return out

    def names_assigned(self, stmts):
        out = []
        for st in stmts:
            for n in ast.walk(st):
                tg = n.targets if isinstance(n, ast.Assign) else [n.target] if isinstance(n, ast.AugAssign) else []
                for t in tg:
                    if isinstance(t, ast.Name) and t.id not in out:
                        out.append(t.id)
                    if isinstance(t, ast.Subscript) and isinstance(t.value, ast.Name) and t.value.id not in out:
                        out.append(t.value.id)
        return out

    def assigns_state(self, stmts) -> bool:
        for st in stmts:
            for n in ast.walk(st):
                tg = n.targets if isinstance(n, ast.Assign) else [n.target] if isinstance(n, ast.AugAssign) else []
                for t in tg:
                    if self.tr.self_attr(t) or (isinstance(t, ast.Subscript) and self.tr.self_attr(t.value)):
                        return True
                if isinstance(n, ast.Call) and isinstance(n.func, ast.Attribute) and self.tr.self_attr(n.func) \
                        and n.func.attr in self.tr.sigs and self.tr.sigs[n.func.attr].mutates:
                    return True
                if self.tr.is_super_call(n, "add"):
                    return True
        return False

    def block(self, stmts, k, top=False):
        if not stmts:
            return k()
        st, rest = stmts[0], stmts[1:]
        cont = lambda: self.block(rest, k, top)          # noqa: E731
        tr = self.tr
        if is_docstring(st):
            return cont()
        if isinstance(st, ast.AugAssign):
            tgt = st.target
            if isinstance(tgt, ast.Name):
                load = ast.copy_location(ast.Name(id=tgt.id, ctx=ast.Load()), tgt)
            elif tr.self_attr(tgt):
                load = ast.copy_location(ast.Attribute(value=tgt.value, attr=tgt.attr, ctx=ast.Load()), tgt)
            else:
                fail(st, "augmented assignment to other than a local / a field")
            st = ast.copy_location(ast.Assign(targets=[tgt], value=ast.copy_location(
                ast.BinOp(left=load, op=st.op, right=st.value), st)), st)
        if isinstance(st, ast.Assign):
            if len(st.targets) != 1:
                fail(st, "chained assignment")
            tg = st.targets[0]
            if isinstance(tg, ast.Name):
                def build():
                    txt, ty = self.ex(st.value, top=True)
                    t2 = self.ty_of(ty)
                    if t2 == BOOL:
                        fail(st, "boolean local variable")
                    if t2 == "num":
                        ty = t2 = self.ty_of(self.types.get(tg.id, INT))
                    if tg.id in self.types and self.ty_of(self.types[tg.id]) not in (None, t2):
                        fail(st, f"variable {tg.id} changes its type")
                    if tg.id not in self.types or not isinstance(self.types[tg.id], TVar):
                        self.types[tg.id] = ty
                    self.defined.add(tg.id)
                    return [f"let {self.canon[tg.id]} : {self.lean_ty(ty, st)} := {txt}"] + cont()
                return self.with_binds(build)
            if tr.self_attr(tg):
                return self.assign_field(st, tg.attr, cont)
            if isinstance(tg, ast.Subscript) and tr.self_attr(tg.value) and tr.field_kind(tg.value.attr) in TREE_CLASSES \
                    and not self.is_init:
                f = tg.value.attr
                cname = tr.field_kind(f)
                sig = tr.seg.sigs[("SegmentTree", "__setitem__")]
                if not sig.returns_tree or sig.option or len(sig.params) != 2:
                    fail(st, "tree store: unexpected generated signature of __setitem__")
                def build():
                    i, ti = self.ex(tg.slice)
                    v, tv = self.ex(st.value)
                    i = self.want(st, i, ti, INT)
                    v = self.want(st, v, tv, FLOAT if cname == "SumSegmentTree" else EXT)
                    return [self.set_field(f, f"SegmentTree.setitem {cname}.op {cname}.initValue st.{f}_cap st.{f}"
                                              + (" fuel" if sig.fuel else "") + f" {i} {v}")] + cont()
                return self.with_binds(build)
            if isinstance(tg, ast.Subscript) and isinstance(tg.value, ast.Name):
                x = tg.value.id
                def build():
                    lt, lty = self.ex(tg.value)
                    if lty not in (LINT, LFLOAT):
                        fail(st, f"{x}[i] = e on something that is not a local list")
                    i, ti = self.ex(tg.slice)
                    v, tv = self.ex(st.value)
                    i = self.want(st, i, ti, INT)
                    v = self.want(st, v, tv, INT if lty == LINT else FLOAT)
                    return [f"let {lt} : {LEAN_TY[lty]} := {lt}.set {i} {v}"] + cont()
                return self.with_binds(build)
            fail(st, f"assignment to {type(tg).__name__}")
        if isinstance(st, ast.Assert):
            def build():
                c, ty = self.ex(st.test, top=True)
                if ty != BOOL:
                    fail(st, "assert <non-boolean>")
                return [f"if {c} then"] + ind(cont()) + ["else none"]
            return self.with_binds(build)
        if isinstance(st, ast.Return):
            if rest or self.in_loop or st.value is None or not top:
                fail(st, "return that is not the last statement of the method")
            def build():
                txt, ty = self.ex(st.value)
                r = self.sig.ret
                if isinstance(r, TVar):
                    r.resolve(st, self.ty_of(ty))
                elif self.ty_of(ty) != r:
                    txt = self.want(st, txt, ty, r)
                return [f"some {txt}"]
            return self.with_binds(build)
        if isinstance(st, ast.Expr) and isinstance(st.value, ast.Call):
            c = st.value
            if tr.is_super_call(c, "__init__") and self.is_init:
                if not c.args or not (isinstance(c.args[0], ast.Name) and c.args[0].id == tr.init_size_param):
                    fail(st, "super().__init__ whose first argument is not the size parameter")
                self.init_set.append("ring")
                return [f"let ring : ρ := env.superInit {self.canon[tr.init_size_param]}"] + cont()
            if tr.is_super_call(c, "add") and not self.is_init:
                if len(c.args) != 1 or c.keywords or not (isinstance(c.args[0], ast.Name)
                                                          and self.types.get(c.args[0].id) == ROWS):
                    fail(st, "super().add with other than the batch parameter")
                return [self.set_field("ring", f"env.superAdd st.ring {self.canon[c.args[0].id]}")] + cont()
            if isinstance(c.func, ast.Attribute) and tr.self_attr(c.func) and c.func.attr in tr.sigs \
                    and tr.sigs[c.func.attr].mutates and not self.is_init:
                def build():
                    txt = self.method_call_text(c, c.func.attr)
                    return [f"match {txt} with", "| none => none", "| some st =>"] + ind(cont())
                return self.with_binds(build)
            fail(st, "expression statement " + ast.unparse(c.func))
        if isinstance(st, ast.While):
            return self.while_loop(st, rest, k, top)
        if isinstance(st, ast.For):
            return self.for_loop(st, rest, k, top)
        fail(st, type(st).__name__)

    def assign_field(self, st, f, cont):
        tr = self.tr
        if self.is_init:
            v = st.value
            if f == tr.exp_field:
                return [f"-- self.{f} = <exponent parameter>: realised by env.powAlpha"] + cont()
            k = tr.field_kind(f)
            if k in (INT, FLOAT):
                txt, _ = self.ex(v, top=True)
                self.init_set.append(f)
                return [f"let {f} : {LEAN_TY[k]} := {txt}"] + cont()
            if k in TREE_CLASSES:
                ctxt, cty = self.ex(v.args[0])
                ctxt = self.want(st, ctxt, cty, INT)
                r = self.fresh()
                self.init_set += [f"{f}_cap", f]
                return [f"match {k}.init {ctxt} with", "| none => none", f"| some {r} =>"] + ind(
                    [f"let {f}_cap : Nat := {ctxt}", f"let {f} : List ({TREE_CLASSES[k]}) := {r}"] + cont())
            fail(st, f"self.{f} in __init__")
        k = tr.field_kind(f)
        if k not in (INT, FLOAT):
            fail(st, f"assignment to self.{f} (not a scalar field set by __init__)")
        def build():
            txt, ty = self.ex(st.value, top=True)
            return [self.set_field(f, self.want(st, txt, ty, k))] + cont()
        return self.with_binds(build)

    def check_loop(self, st, top):
        if not top or self.in_loop:
            fail(st, "loop that is not at the top level of a method")
        if st.orelse:
            fail(st, "loop … else")
        for n in ast.walk(st):
            if isinstance(n, (ast.Break, ast.Continue, ast.Return)):
                fail(n, f"{type(n).__name__.lower()} inside a loop")
            if isinstance(n, (ast.While, ast.For)) and n is not st:
                fail(n, "nested loop")

    def sort_vars(self, xs):
        return sorted(xs, key=lambda x: (self.canon[x][0], int(self.canon[x][1:])))

    def while_loop(self, st, rest, k, top):
        self.check_loop(st, top)
        if self.assigns_state(st.body) or any(isinstance(n, ast.Call) for n in ast.walk(st)):
            fail(st, "while loop that changes fields or contains calls")
        assigned = self.names_assigned(st.body)
        reads = self.names_read([st.test] + list(st.body))
        carried = self.sort_vars([x for x in set(assigned) | reads if x in self.defined])
        fixed = [x for x in carried if x not in assigned]
        state = [x for x in carried if x in assigned]
        if len(state) != 1 or any(self.ty_of(self.types[x]) != INT for x in carried):
            fail(st, "while loop that does not update exactly one integer variable from integer variables")
        out = state[0]
        name = f"{self.name}_loop{self.nloop}"
        self.nloop += 1
        fx = "".join(f" ({self.canon[x]} : Nat)" for x in fixed)
        fxa = "".join(f" {self.canon[x]}" for x in fixed)
        call = lambda fuel: f"{name} env{fxa} {fuel} {self.canon[out]}"      # noqa: E731
        self.in_loop = True
        saved, self.binds = self.binds, None
        c, ty = self.ex(st.test, top=True)
        if ty != BOOL:
            fail(st, "while <non-boolean>")
        body = self.block(list(st.body), lambda: [call("fuel")])
        self.binds = saved
        self.in_loop = False
        self.loop_defs += [
            f"/-- the `while` loop of `{CLASS}.{self.fn.name}` at source line {st.lineno} -/",
            f"def {name} (env : Env ρ){fx} : Nat → Nat → Nat",
            f"  | 0, {self.canon[out]} => {self.canon[out]}",
            f"  | fuel + 1, {self.canon[out]} =>",
        ] + ind([f"if {c} then"] + ind(body) + [f"else {self.canon[out]}"], 4) + [""]
        return [f"let {self.canon[out]} : Nat := {call('fuel')}"] + self.block(rest, k, top)

    def for_loop(self, st, rest, k, top):
        self.check_loop(st, top)
        tr = self.tr
        it = st.iter
        idx_var = None
        elem_vars: list[tuple[str, object]] = []
        pre: list[str] = []

        def list_arg(e):
            txt, ty = self.ex(e)
            if not isinstance(ty, TensorT) and ty not in (LINT, LFLOAT):
                fail(e, "iteration over something that is not a tensor / list")
            return txt, ty

        def elem_ty(ty):
            if isinstance(ty, TensorT):
                return ty.elem
            return INT if ty == LINT else FLOAT

        def tname(t):
            if not isinstance(t, ast.Name):
                fail(t, "loop target that is not a plain name")
            return t.id
        saved_b, self.binds = self.binds, None
        if isinstance(it, ast.Call) and isinstance(it.func, ast.Name) and it.func.id == "range" \
                and len(it.args) == 1 and not it.keywords:
            ctxt, cty = self.ex(it.args[0])
            iter_txt, iter_ty, kind = self.want(st, ctxt, cty, INT), "Nat", "range"
            idx_var = tname(st.target)
        elif isinstance(it, ast.Call) and isinstance(it.func, ast.Name) and it.func.id == "enumerate" \
                and len(it.args) == 1 and not it.keywords:
            if not (isinstance(st.target, ast.Tuple) and len(st.target.elts) == 2):
                fail(st, "enumerate without a pair of loop variables")
            iter_txt, lty = list_arg(it.args[0])
            idx_var = tname(st.target.elts[0])
            elem_vars = [(tname(st.target.elts[1]), elem_ty(lty))]
            kind = "list"
        elif isinstance(it, ast.Call) and isinstance(it.func, ast.Name) and it.func.id == "zip" \
                and len(it.args) == 2 and not it.keywords:
            if not (isinstance(st.target, ast.Tuple) and len(st.target.elts) == 2):
                fail(st, "zip without a pair of loop variables")
            (a, ta), (b, tb) = list_arg(it.args[0]), list_arg(it.args[1])
            iter_txt = f"(List.zip {a} {b})"
            elem_vars = [(tname(st.target.elts[0]), elem_ty(ta)), (tname(st.target.elts[1]), elem_ty(tb))]
            kind = "zip"
        else:
            iter_txt, lty = list_arg(it)
            elem_vars = [(tname(st.target), elem_ty(lty))]
            kind = "list"
        self.binds = saved_b
        loop_targets = ([idx_var] if idx_var else []) + [x for x, _ in elem_vars]
        assigned = [x for x in self.names_assigned(st.body) if x not in loop_targets or x in self.defined]
        reads = self.names_read(list(st.body))
        uses_state = self.assigns_state(st.body)
        uses_draws = any(tr.is_rand(n) for n in ast.walk(st))
        carried = self.sort_vars([x for x in set(assigned) | reads if x in self.defined and x not in loop_targets])
        fixed = [x for x in carried if x not in assigned]
        state = [x for x in carried if x in assigned]
        idx_used = idx_var is not None and idx_var in reads
        later = self.names_read(rest)
        outs = [x for x in state if x in later]
        if uses_state:
            if outs:
                fail(st, "for loop that changes fields and also computes a local needed afterwards")
            out_txt, out_ty, out_pat = "st", "State ρ", "st"
        else:
            if len(outs) != 1:
                fail(st, f"for loop with {len(outs)} locals needed afterwards (exactly one is supported)")
            out_txt = out_pat = self.canon[outs[0]]
            out_ty = self.lean_ty(self.types[outs[0]], st)
        name = f"{self.name}_for{self.nfor}"
        self.nfor += 1
        fixed_sig = "(env : Env ρ) (fuel : Nat)" + ("" if uses_state else " (st : State ρ)") \
            + "".join(f" ({self.canon[x]} : {self.lean_ty(self.types[x], st)})" for x in fixed)
        fixed_args = "env fuel" + ("" if uses_state else " st") + "".join(f" {self.canon[x]}" for x in fixed)
        st_names = ([self.canon[idx_var]] if idx_used else []) + (["st"] if uses_state else []) \
            + (["draws"] if uses_draws else []) + [self.canon[x] for x in state]
        # the body (types of element variables may be fixed by their uses there)
        saved_types, saved_def = dict(self.types), set(self.defined)
        if idx_var:
            self.types[idx_var] = INT
            self.defined.add(idx_var)
        for x, t in elem_vars:
            self.types[x] = t
            self.defined.add(x)
        self.in_loop = True
        nxt = [f"({self.canon[idx_var]} + 1)"] if idx_used else []
        tail = "k" if kind == "range" else "rest"
        rec = lambda: [f"{name} {fixed_args} {tail}" + "".join(f" {s}" for s in nxt + st_names[len(nxt):])]   # noqa: E731
        body = self.block(list(st.body), rec)
        self.in_loop = False
        elem_lean = [self.lean_ty(t, st) for _, t in elem_vars]
        for x in loop_targets:
            saved_types.pop(x, None)
        self.types = {**saved_types, **{x: self.types[x] for x in state}}
        self.defined = saved_def
        if kind == "range":
            iter_ty, pat0, pat1 = "Nat", "0", "k + 1"
        elif kind == "zip":
            iter_ty = f"List ({elem_lean[0]} × {elem_lean[1]})"
            pat0, pat1 = "[]", f"({self.canon[elem_vars[0][0]]}, {self.canon[elem_vars[1][0]]}) :: rest"
        else:
            iter_ty, pat0, pat1 = f"List {elem_lean[0]}", "[]", f"{self.canon[elem_vars[0][0]]} :: rest"
        st_types = (["Nat"] if idx_used else []) + (["State ρ"] if uses_state else []) \
            + (["List Rat"] if uses_draws else []) + [self.lean_ty(self.types[x], st) for x in state]
        arrow = " → ".join([iter_ty] + st_types + [f"Option ({out_ty})"])
        pats = "".join(f", {s}" for s in st_names)
        self.loop_defs += [
            f"/-- the `for` loop of `{CLASS}.{self.fn.name}` at source line {st.lineno} -/",
            f"def {name} {fixed_sig} : {arrow}",
            f"  | {pat0}{pats} => some {out_pat}",
            f"  | {pat1}{pats} =>",
        ] + ind(body, 4) + [""]
        init_args = (["0"] if idx_used else []) + st_names[(1 if idx_used else 0):]
        call = f"{name} {fixed_args} {iter_txt}" + "".join(f" {s}" for s in init_args)
        return [f"match {call} with", "| none => none", f"| some {out_pat} =>"] + ind(self.block(rest, k, top))

    # ---------------- emit
    def emit(self):
        stmts = [s for s in self.fn.body if not is_docstring(s)]
        body = self.block(stmts, self.end_of_method, top=True)
        sig = self.sig
        ps = ""
        for p, t, keep in sig.params:
            if keep:
                ps += f" ({self.canon[p]} : {self.lean_ty(t, self.fn)})"
        if self.is_init:
            rt, head = "State ρ", "(env : Env ρ) (fuel : Nat)"
        else:
            rt = "State ρ" if sig.ret is None else self.lean_ty(sig.ret, self.fn)
            head = "(env : Env ρ) (fuel : Nat) (st : State ρ)" + (" (draws : List Rat)" if sig.draws else "")
        dropped = [p for p, _, keep in sig.params if not keep]
        note = f"; parameters not translated: {', '.join(dropped)}" if dropped else ""
        self.tr.out += self.loop_defs
        self.tr.out += [f"/-- `{CLASS}.{self.fn.name}` (source line {self.fn.lineno}){note} -/",
                        f"def {self.name} {head}{ps} : Option ({rt}) :="] + ind(body) + [""]


# ----------------------------------------------------------------------------------------------
def repo_dir(arg=None) -> Path:
    return Path(arg) if arg else Path(os.environ.get("VERIF_REPO", "/repo"))


def translate(repo: Path):
    """returns (lean text, sha256 of the source); raises Unsupported"""
    path = repo / REL_SOURCE
    seg_path = repo / py2lean_segtree.REL_SOURCE
    try:
        raw, seg_raw = path.read_bytes(), seg_path.read_bytes()
    except OSError as e:
        raise Unsupported(f"cannot read the sources: {e}") from e
    sha = hashlib.sha256(raw).hexdigest()
    try:
        body = Translator(raw.decode("utf-8"), seg_raw.decode("utf-8")).run()
    except SyntaxError as e:
        raise Unsupported(f"{REL_SOURCE}:{e.lineno}: not parseable: {e.msg}") from e
    header = "\n".join([
        "/-",
        "  Gen/PerGen.lean — GENERATED by harness/py2lean_per.py from the class PrioritizedReplayBuffer of",
        f"  {REL_SOURCE}; do not edit.  Core Lean only.",
        "  `Proofs/PerGenEq.lean` proves the definitions equal to the PER part of `Model/SegTree.lean`.",
        "-/",
        "import Gen.SegTreeGen",
        SHA_PREFIX + sha,
        "set_option linter.unusedVariables false",
        "",
    ])
    return header + "\n" + body, sha


def strip_sha(text: str) -> str:
    return "\n".join(ln for ln in text.split("\n") if not ln.startswith(SHA_PREFIX))


def write_if_changed(text: str, out: Path, force: bool = False) -> bool:
    old = out.read_text() if out.exists() else None
    if old is not None and not force and strip_sha(old) == strip_sha(text):
        return False
    if old == text:
        return False
    out.parent.mkdir(parents=True, exist_ok=True)
    tmp = out.with_suffix(".lean.tmp")
    tmp.write_text(text)
    os.replace(tmp, out)
    return True


def main(argv) -> int:
    import argparse
    ap = argparse.ArgumentParser()
    ap.add_argument("--repo", default=None)
    ap.add_argument("--out", default=str(DEFAULT_OUT))
    ap.add_argument("--stdout", action="store_true")
    ap.add_argument("--force", action="store_true", help="rewrite even if only the sha256 line differs")
    a = ap.parse_args(argv)
    try:
        text, sha = translate(repo_dir(a.repo))
    except Unsupported as e:
        print(f"py2lean_per: {e}", file=sys.stderr)
        return 1
    if a.stdout:
        sys.stdout.write(text)
        return 0
    changed = write_if_changed(text, Path(a.out), a.force)
    print(f"{a.out}: {'written' if changed else 'unchanged'} (source sha256 {sha[:16]}…, "
          f"translation sha256 {hashlib.sha256(strip_sha(text).encode()).hexdigest()[:16]}…)")
    return 0


if __name__ == "__main__":
    sys.exit(main(sys.argv[1:]))
