#!/usr/bin/env python3
"""
py2lean_pop.py — translate how the INITIAL population is built, from the source text of

    REPO/agilerl/utils/utils.py             create_population            (every `algo == "<name>"` branch)
    REPO/agilerl/algorithms/core/base.py    EvolvableAlgorithm.population (classmethod)

into Lean 4 (properties C05 — indices of a generation are distinct: base case of the induction over
generations — and C06 — hyper-parameter mutation never moves another agent's value: base case of the
refinement, which configuration objects the initial members share).

    python3 harness/py2lean_pop.py [--repo DIR] [--out FILE] [--stdout] [--force]

Reads the *source text* only (Python `ast`; agilerl / torch / numpy are never imported) and writes
lean/Gen/PopGen.lean (namespace PopGen, core Lean only, imports nothing).  `Proofs/PopGenEq.lean` proves, for
every branch and every `population_size`, that the generated population is the model's initial population
(`Tournament.initialPop`: length, `index = position`; `HpMut.Pop.initialWith`: which configuration object each
member refers to), and that the generated sharing table is the one derived from the generated code.
`Props/C05.lean` / `Props/C06.lean` restate the base cases over the generated definitions
(`C05_source_translation_initial_population_distinct`, `C06_source_translation_initial_population_configs`)
and compose them with the induction / refinement theorems.

What is read and what it becomes
--------------------------------
The object of the translation is the LIST of population members, each member the PROVENANCE term of the
expression that builds it:

    Val ::= param name | int <integer expression> | const repr | get d "key" dflt | sub d "key" | item v <int expr>
          | deepcopy v | copy v | ite tested isNot a b | build "Class" args | call f args
          | nil | pos v rest | kw "key" v rest | star2 v rest                      (argument lists)

so that `hp_config`, `copy.deepcopy(hp_config)`, `copy.copy(hp_config)` are different terms, `index=idx`,
`index=idx + 1` and a missing `index` are different terms, and the loop bound is a Lean integer expression.

Supported statements (function bodies are translated statement by statement, in source order):
  * a leading docstring (skipped);
  * `<acc> = []` — the one list variable the function fills (canonical name `acc`);
  * `if / elif / else` whose tests are `<parameter> == "<literal>"` (the parameter becomes a `String`
    parameter of the Lean function; the literals are collected, in source order, into `algos`) or
    `<parameter> is [not] None` (a `Bool` parameter `<parameter>_given`); a missing `else` leaves the state as is;
  * `for <v> in range(<int expr>[, <int expr>]): <body>` — `pyFor (pyRange …) acc <body function>`; every loop
    body becomes its own definition `<function>_for<k>` (state in, loop variable in, state out); free names inside
    `range(…)` become `Int` parameters of the Lean function;
  * in a body: `<local> = <expr>` (canonical names `x0, x1, …` — renaming a local changes nothing; re-binding
    is shadowing), `<acc>.append(<expr>)` and `<acc> = <acc> + [<expr>]` / `<acc> += [<expr>]` (all three:
    `acc ++ [·]`);
  * `return <acc>` as the last statement; in `population`: `return [<expr> for <v> in range(<int expr>)]`
    (`(pyRange …).map fun v => …`), also under `if <parameter> is [not] None:`.
Supported expressions:
  * names: the loop variable / an integer parameter (`int`), a bound local, a parameter (`param`);
  * literals: integers (`int`), everything else `const "<repr>"`; `-<literal>`;
  * integer arithmetic `+ - *` over loop variable, integer parameters and integer literals;
  * `copy.deepcopy(e)`, `copy.copy(e)`; `e.get("k")`, `e.get("k", d)`; `e["k"]`; `e[<int expr>]`;
  * `a if e is [not] None else b`;
  * calls `F(args)` with positional, keyword and `**e` arguments, `F` a module-level name (`build`) or a
    parameter (`call`).
Anything else raises `Unsupported` with construct and line.

Output
------
    @[simp] def create_population_for<k> (<int parameters>) (acc : List Val) (i : Int) : List Val
        -- one per loop, numbered in source order; `simp` unfolds them, so the equality proofs never name them
    def create_population (algo : String) (population_size : Int) : List Val
    def algos : List String                                   -- the literals `algo` is compared with, source order
    def population (wrapper_cls_given : Bool) (size : Int) : List Val
    def sharingTable : List (String × String × List (String × Share))
        -- per branch: (algo literal, constructed class, per constructor argument how the objects that different
        -- members receive are related: immutable | shared | perIndex | fresh | shallow | mixed); computed here with
        -- the Python mirror of the prelude's `Val.share`; `Proofs/PopGenEq.lean` proves it equal to the table
        -- Lean derives from `create_population` itself (`gen_sharing_table_eq`).
`description(repo)` returns the same program as plain data (nested dicts) for the correspondence harness, which
interprets it next to the real `create_population` / `population`.

Assumptions (stated in the header of the generated file)
  * a parameter name, `d[k]` and `d.get(k, …)` of it evaluate to the same object in every loop iteration;
    `copy.deepcopy` and a call of a class return a new object every time; `copy.copy` a new shell around the same
    contents; literals and integers are immutable
  * `range` over Python integers; `list.append` / `+ [x]` add exactly one element at the end
  * a wrapper call `agent_wrapper(agent, **kw)` yields an object whose `index` is the wrapped agent's (AgentWrapper
    forwards attribute access)
  * what a constructor does with an argument it receives (stores it, clones it, mutates it) is NOT in this source:
    the correspondence measures it (networks / optimizers of different members disjoint; `net_config`, `hp_config`
    aliasing measured and compared with the table)
"""
from __future__ import annotations

import ast
import hashlib
import os
import sys
from pathlib import Path

HERE = Path(__file__).resolve().parent
DEFAULT_OUT = HERE.parent / "lean" / "Gen" / "PopGen.lean"
UTILS_SOURCE = "agilerl/utils/utils.py"
BASE_SOURCE = "agilerl/algorithms/core/base.py"
REL_SOURCES = (UTILS_SOURCE, BASE_SOURCE)
REL_SOURCE = "agilerl/{utils/utils.py,algorithms/core/base.py}"      # messages only
SHA_PREFIX = "-- sha256(source) = "


class Unsupported(Exception):
    pass


def fail(node, what: str):
    line = getattr(node, "lineno", "?")
    raise Unsupported(f"{what} (line {line})")


def lean_str(s: str) -> str:
    return '"' + s.replace("\\", "\\\\").replace('"', '\\"').replace("\n", "\\n") + '"'


# ----------------------------------------------------------------------------- provenance terms
class V:
    """a `Val` term: `lean` text, `data` mirror for the harness, `share` (Python mirror of `Val.share`)"""

    def __init__(self, lean: str, data, share: str):
        self.lean, self.data, self.share = lean, data, share


def v_param(n):
    return V(f'(.param {lean_str(n)})', {"param": n}, "shared")


def v_int(lean, src, names):
    return V(f'(.int ({lean}))', {"int": src, "names": sorted(names)}, "immutable")


def v_const(r):
    return V(f'(.const {lean_str(r)})', {"const": r}, "immutable")


def v_get(d, k, dflt):
    return V(f'(.get {d.lean} {lean_str(k)} {dflt.lean})', {"get": d.data, "key": k, "default": dflt.data}, d.share)


def v_sub(d, k):
    return V(f'(.sub {d.lean} {lean_str(k)})', {"sub": d.data, "key": k}, d.share)


def v_item(v, ilean, isrc, names):
    return V(f'(.item {v.lean} ({ilean}))', {"item": v.data, "index": isrc, "names": sorted(names)},
             "perIndex" if v.share == "shared" else v.share)


def v_deepcopy(v):
    return V(f'(.deepcopy {v.lean})', {"deepcopy": v.data}, "fresh")


def v_copy(v):
    return V(f'(.copy {v.lean})', {"copy": v.data}, v.share if v.share in ("fresh", "immutable") else "shallow")


def v_ite(t, is_not, a, b):
    return V(f'(.ite {t.lean} {"true" if is_not else "false"} {a.lean} {b.lean})',
             {"ite": t.data, "is_not": is_not, "then": a.data, "else": b.data},
             a.share if a.share == b.share else "mixed")


def v_local(name, v: V):
    """a reference to a bound local: Lean text is the variable, data / share are the bound term's"""
    return V(name, v.data, v.share)


class Args:
    def __init__(self):
        self.items: list[tuple[str, str | None, V]] = []      # (kind, key, value), kind in pos | kw | star2

    def lean(self) -> str:
        out = ".nil"
        for kind, key, v in reversed(self.items):
            if kind == "pos":
                out = f'(.pos {v.lean} {out})'
            elif kind == "kw":
                out = f'(.kw {lean_str(key)} {v.lean} {out})'
            else:
                out = f'(.star2 {v.lean} {out})'
        return out

    def data(self):
        return [{"kind": k, "key": key, "val": v.data} for k, key, v in self.items]

    def shares(self):
        return [("#" if k == "pos" else "**" if k == "star2" else key, v.share) for k, key, v in self.items]


def v_build(cls, args: Args):
    v = V(f'(Val.build {lean_str(cls)} {args.lean()})', {"build": cls, "args": args.data()}, "fresh")
    v.ctor, v.args = cls, args
    return v


def v_call(f: V, fname: str, args: Args):
    v = V(f'(Val.call {f.lean} {args.lean()})', {"call": f.data, "args": args.data()}, "fresh")
    v.ctor, v.args = f"<{fname}>", args
    return v


# ----------------------------------------------------------------------------- translation of one function
class Fn:
    """statement-by-statement translation of one function body"""

    def __init__(self, fn: ast.FunctionDef, name: str, skip_params: int = 0):
        self.fn, self.name = fn, name
        a = fn.args
        if a.vararg is not None:
            fail(fn, f"*{a.vararg.arg} parameter")
        self.params = [p.arg for p in (a.posonlyargs + a.args)[skip_params:]] + [p.arg for p in a.kwonlyargs]
        if a.kwarg is not None:
            self.params.append(a.kwarg.arg)
        self.first_params = [p.arg for p in (a.posonlyargs + a.args)[:skip_params]]   # `cls`
        self.int_params: list[str] = []
        self.str_params: list[str] = []
        self.bool_params: list[str] = []      # `<p>_given`
        self.literals: list[str] = []         # strings a str parameter is compared with, source order
        self.acc: str | None = None
        self.loops: list[str] = []            # Lean text of the loop-body definitions
        self.program: list = []               # data mirror
        self.branches: list[dict] = []        # per (path condition, loop): member description for the table
        self._scan_int_params()

    # ---- which parameters are integers: the free names inside range(...)
    def _scan_int_params(self):
        for node in ast.walk(self.fn):
            if isinstance(node, ast.Call) and isinstance(node.func, ast.Name) and node.func.id == "range":
                for arg in node.args:
                    for n in ast.walk(arg):
                        if isinstance(n, ast.Name) and n.id in self.params and n.id not in self.int_params:
                            self.int_params.append(n.id)

    # ---- integer expressions
    def int_expr(self, node, ints: dict[str, str]):
        """(lean text, python source, names) or None when `node` is not an integer expression"""
        if isinstance(node, ast.Constant) and type(node.value) is int:
            return (str(node.value) if node.value >= 0 else f"({node.value})"), repr(node.value), set()
        if isinstance(node, ast.Name) and node.id in ints:
            return ints[node.id], node.id, {node.id}
        if isinstance(node, ast.UnaryOp) and isinstance(node.op, ast.USub):
            r = self.int_expr(node.operand, ints)
            return None if r is None else (f"(-{r[0]})", f"(-{r[1]})", r[2])
        if isinstance(node, ast.BinOp) and isinstance(node.op, (ast.Add, ast.Sub, ast.Mult)):
            l, r = self.int_expr(node.left, ints), self.int_expr(node.right, ints)
            if l is None or r is None:
                return None
            op = {ast.Add: "+", ast.Sub: "-", ast.Mult: "*"}[type(node.op)]
            return f"({l[0]} {op} {r[0]})", f"({l[1]} {op} {r[1]})", l[2] | r[2]
        return None

    # ---- value expressions
    def val(self, node, ints: dict[str, str], locs: dict[str, tuple[str, V]]) -> V:
        ie = self.int_expr(node, ints)
        if ie is not None:
            return v_int(*ie)
        if isinstance(node, ast.Constant):
            return v_const(repr(node.value))
        if isinstance(node, ast.UnaryOp) and isinstance(node.op, ast.USub) and isinstance(node.operand, ast.Constant) \
                and isinstance(node.operand.value, (int, float)):
            return v_const(repr(-node.operand.value))
        if isinstance(node, ast.Name):
            if node.id in locs:
                return v_local(*locs[node.id])
            if node.id in self.params or node.id in self.first_params:
                return v_param(node.id)
            fail(node, f"name `{node.id}` used as a value is neither a parameter nor a bound local")
        if isinstance(node, ast.IfExp):
            t = node.test
            if isinstance(t, ast.Compare) and len(t.ops) == 1 and isinstance(t.ops[0], (ast.Is, ast.IsNot)) \
                    and isinstance(t.comparators[0], ast.Constant) and t.comparators[0].value is None:
                return v_ite(self.val(t.left, ints, locs), isinstance(t.ops[0], ast.IsNot),
                             self.val(node.body, ints, locs), self.val(node.orelse, ints, locs))
            fail(node, "conditional expression whose test is not `e is [not] None`")
        if isinstance(node, ast.Subscript):
            base = self.val(node.value, ints, locs)
            k = node.slice
            if isinstance(k, ast.Constant) and isinstance(k.value, str):
                return v_sub(base, k.value)
            ie = self.int_expr(k, ints)
            if ie is not None:
                return v_item(base, *ie)
            fail(node, "subscript that is neither a string literal nor an integer expression")
        if isinstance(node, ast.Call):
            f = node.func
            if isinstance(f, ast.Attribute) and isinstance(f.value, ast.Name) and f.value.id == "copy" \
                    and f.attr in ("deepcopy", "copy") and "copy" not in self.params and "copy" not in locs:
                if len(node.args) != 1 or node.keywords:
                    fail(node, f"copy.{f.attr} with other than one argument")
                inner = self.val(node.args[0], ints, locs)
                return v_deepcopy(inner) if f.attr == "deepcopy" else v_copy(inner)
            if isinstance(f, ast.Attribute) and f.attr == "get":
                if node.keywords or not (1 <= len(node.args) <= 2) or not (
                        isinstance(node.args[0], ast.Constant) and isinstance(node.args[0].value, str)):
                    fail(node, "`.get` with other than a string-literal key and an optional default")
                d = self.val(f.value, ints, locs)
                dflt = self.val(node.args[1], ints, locs) if len(node.args) == 2 else v_const("None")
                return v_get(d, node.args[0].value, dflt)
            if isinstance(f, ast.Name):
                args = Args()
                for a in node.args:
                    if isinstance(a, ast.Starred):
                        fail(a, "`*args` in a call")
                    args.items.append(("pos", None, self.val(a, ints, locs)))
                for kw in node.keywords:
                    v = self.val(kw.value, ints, locs)
                    args.items.append(("star2", None, v) if kw.arg is None else ("kw", kw.arg, v))
                if f.id in locs:
                    fail(node, f"call of the local `{f.id}`")
                if f.id in self.params or f.id in self.first_params:
                    return v_call(v_param(f.id), f.id, args)
                if f.id == "range":
                    fail(node, "`range` outside a loop header")
                return v_build(f.id, args)
            fail(node, f"call of `{ast.unparse(f)}`")
        fail(node, f"expression `{type(node).__name__}`")

    # ---- tests of `if` statements
    def test(self, node):
        """(lean Bool text, data)"""
        if isinstance(node, ast.Compare) and len(node.ops) == 1 and isinstance(node.left, ast.Name) \
                and node.left.id in self.params:
            p, op, c = node.left.id, node.ops[0], node.comparators[0]
            if isinstance(op, ast.Eq) and isinstance(c, ast.Constant) and isinstance(c.value, str):
                if p in self.int_params:
                    fail(node, f"`{p}` is used both as an integer and as a string")
                if p not in self.str_params:
                    self.str_params.append(p)
                self.literals.append(c.value)
                return f"{p} == {lean_str(c.value)}", {"eq": p, "literal": c.value}
            if isinstance(op, (ast.Is, ast.IsNot)) and isinstance(c, ast.Constant) and c.value is None:
                if p not in self.bool_params:
                    self.bool_params.append(p)
                g = f"{p}_given"
                return (g if isinstance(op, ast.IsNot) else f"!{g}"), {"given": p, "is_not": isinstance(op, ast.IsNot)}
        fail(node, "`if` test that is neither `<parameter> == \"<literal>\"` nor `<parameter> is [not] None`")

    # ---- loop header
    def range_of(self, node, ints):
        if not (isinstance(node, ast.Call) and isinstance(node.func, ast.Name) and node.func.id == "range"
                and not node.keywords and 1 <= len(node.args) <= 2):
            fail(node, "loop over something other than `range(stop)` / `range(start, stop)`")
        es = [self.int_expr(a, ints) for a in node.args]
        if any(e is None for e in es):
            fail(node, "`range` argument that is not an integer expression")
        lean = f"pyRange {es[0][0]}" if len(es) == 1 else f"pyRange2 {es[0][0]} {es[1][0]}"
        return lean, [e[1] for e in es]

    def is_acc(self, node) -> bool:
        return isinstance(node, ast.Name) and node.id == self.acc

    def appended(self, st):
        """the expression a statement appends to the list variable, or None"""
        if isinstance(st, ast.Expr) and isinstance(st.value, ast.Call) and isinstance(st.value.func, ast.Attribute) \
                and st.value.func.attr == "append" and self.is_acc(st.value.func.value) \
                and len(st.value.args) == 1 and not st.value.keywords:
            return st.value.args[0]
        single = lambda n: n.elts[0] if isinstance(n, ast.List) and len(n.elts) == 1 else None
        if isinstance(st, ast.AugAssign) and isinstance(st.op, ast.Add) and self.is_acc(st.target):
            return single(st.value)
        if isinstance(st, ast.Assign) and len(st.targets) == 1 and self.is_acc(st.targets[0]) \
                and isinstance(st.value, ast.BinOp) and isinstance(st.value.op, ast.Add) and self.is_acc(st.value.left):
            return single(st.value.right)
        return None

    # ---- blocks
    def loop_body(self, body, ints, path) -> tuple[list[str], list]:
        lines, data = [], []
        locs: dict[str, tuple[str, V]] = {}
        fresh: dict[str, str] = {}
        for st in body:
            app = self.appended(st)
            if app is not None:
                v = self.val(app, ints, locs)
                lines.append(f"let acc := acc ++ [{v.lean}]")
                data.append({"append": v.data})
                self.branches.append({"path": list(path), "member": v})
                continue
            if isinstance(st, ast.Assign) and len(st.targets) == 1 and isinstance(st.targets[0], ast.Name):
                t = st.targets[0].id
                if t == self.acc or t in self.params or t in ints:
                    fail(st, f"assignment to `{t}` inside a loop body")
                v = self.val(st.value, ints, locs)
                c = fresh.setdefault(t, f"x{len(fresh)}")
                lines.append(f"let {c} : Val := {v.lean}")
                locs[t] = (c, v)
                data.append({"assign": c, "val": v.data})
                continue
            fail(st, f"statement `{type(st).__name__}` in a loop body")
        return lines, data

    def block(self, stmts, ints, path, indent: str) -> tuple[list[str], list, bool]:
        """translate statements that update the list variable; returns (lines yielding the final `acc`, data, returned)"""
        lines, data = [], []
        for k, st in enumerate(stmts):
            if isinstance(st, ast.Expr) and isinstance(st.value, ast.Constant) and isinstance(st.value.value, str):
                continue
            if isinstance(st, ast.Pass):
                continue
            if isinstance(st, ast.Assign) and len(st.targets) == 1 and isinstance(st.targets[0], ast.Name) \
                    and isinstance(st.value, ast.List) and not st.value.elts and self.acc in (None, st.targets[0].id) \
                    and not path:
                self.acc = st.targets[0].id
                lines.append(f"{indent}let acc : List Val := []")
                data.append({"init": "acc"})
                continue
            if isinstance(st, ast.Return):
                if k != len(stmts) - 1 or path:
                    fail(st, "`return` that is not the last statement of the function")
                if not self.is_acc(st.value):
                    fail(st, "`return` of something other than the list variable")
                return lines, data, True
            if self.acc is None:
                fail(st, "statement before the list variable is initialised with `[]`")
            if isinstance(st, ast.If):
                lines.append(f"{indent}let acc :=")
                ls, d = self.if_chain(st, ints, path, indent + "  ")
                lines += ls
                data.append(d)
                continue
            if isinstance(st, ast.For):
                if st.orelse or not isinstance(st.target, ast.Name):
                    fail(st, "`for … else` / tuple loop target")
                if st.target.id in self.params or st.target.id == self.acc:
                    fail(st, "loop variable shadows a parameter")
                rng, rsrc = self.range_of(st.iter, ints)
                k_loop = len(self.loops)
                self.loops.append("")     # reserve the number (source order)
                inner_ints = dict(ints)
                inner_ints[st.target.id] = "i"
                if "i" in self.int_params:
                    fail(st, "an integer parameter is called `i`")
                blines, bdata = self.loop_body(st.body, inner_ints, path + [("for", k_loop)])
                ip = " ".join(f"({p} : Int)" for p in self.int_params)
                fname = f"{self.name}_for{k_loop}"
                self.loops[k_loop] = "\n".join(
                    [f"/-- body of the loop at line {st.lineno - self.fn.lineno + 1} of `{self.name}` "
                     f"(`for {st.target.id} in {ast.unparse(st.iter)}`) -/",
                     f"@[simp] def {fname} {ip} (acc : List Val) (i : Int) : List Val :="]
                    + ["  " + ln for ln in blines] + ["  acc", ""])
                lines.append(f"{indent}let acc := pyFor ({rng}) acc ({fname} {' '.join(self.int_params)})")
                data.append({"for": st.target.id, "range": rsrc, "body": bdata})
                continue
            fail(st, f"statement `{type(st).__name__}`")
        return lines, data, False

    def if_chain(self, st: ast.If, ints, path, indent):
        cond, cdata = self.test(st.test)
        tl, td, _ = self.block(st.body, ints, path + [("if", cdata)], indent + "  ")
        lines = [f"{indent}if {cond} then"] + tl + [f"{indent}  acc"]
        d = {"if": cdata, "then": td, "else": []}
        if len(st.orelse) == 1 and isinstance(st.orelse[0], ast.If):
            el, ed = self.if_chain(st.orelse[0], ints, path + [("not", cdata)], indent)
            lines += [f"{indent}else"] + el
            d["else"] = [ed]
        elif st.orelse:
            el, ed, _ = self.block(st.orelse, ints, path + [("not", cdata)], indent + "  ")
            lines += [f"{indent}else"] + el + [f"{indent}  acc"]
            d["else"] = ed
        else:
            lines += [f"{indent}else acc"]
        return lines, d

    # ---- the two shapes of function
    def translate_filler(self) -> str:
        """`acc = []; …; return acc`"""
        ints = {p: p for p in self.int_params}
        lines, data, returned = self.block(self.fn.body, ints, [], "  ")
        if not returned:
            fail(self.fn, f"`{self.name}` does not end in `return <list variable>`")
        self.program = data
        sp = " ".join(f"({p} : String)" for p in self.str_params)
        bp = " ".join(f"({p}_given : Bool)" for p in self.bool_params)
        ip = " ".join(f"({p} : Int)" for p in self.int_params)
        sig = " ".join(x for x in (sp, bp, ip) if x)
        return "\n".join(self.loops + [f"def {self.name} {sig} : List Val :="] + lines + ["  acc", ""])

    def translate_comprehensions(self) -> str:
        """`[if <p> is [not] None: return [e for v in range(n)]]* return [e for v in range(n)]`"""
        ints = {p: p for p in self.int_params}
        if "i" in self.int_params:
            fail(self.fn, "an integer parameter is called `i`")

        def listcomp(node, path):
            if not (isinstance(node, ast.ListComp) and len(node.generators) == 1):
                fail(node, "`return` of something other than a one-generator list comprehension")
            g = node.generators[0]
            if g.ifs or g.is_async or not isinstance(g.target, ast.Name):
                fail(node, "filtered / async / tuple-target comprehension")
            rng, rsrc = self.range_of(g.iter, ints)
            inner = dict(ints)
            inner[g.target.id] = "i"
            v = self.val(node.elt, inner, {})
            self.branches.append({"path": list(path), "member": v})
            return f"({rng}).map fun i => {v.lean}", {"comp": v.data, "for": g.target.id, "range": rsrc}

        def go(stmts, path, indent):
            stmts = [s for s in stmts if not (isinstance(s, ast.Expr) and isinstance(s.value, ast.Constant))]
            if not stmts:
                fail(self.fn, "a path through the function does not return")
            st = stmts[0]
            if isinstance(st, ast.Return):
                if len(stmts) != 1:
                    fail(stmts[1], "statement after `return`")
                lean, d = listcomp(st.value, path)
                return [indent + lean], [{"return": d}]
            if isinstance(st, ast.If):
                cond, cdata = self.test(st.test)
                if "eq" in cdata:
                    fail(st, "string test in a comprehension function")
                tl, td = go(st.body, path + [("if", cdata)], indent + "  ")
                el, ed = go(list(st.orelse) + stmts[1:], path + [("not", cdata)], indent + "  ")
                return [f"{indent}if {cond} then"] + tl + [f"{indent}else"] + el, [{"if": cdata, "then": td, "else": ed}]
            fail(st, f"statement `{type(st).__name__}`")

        lines, data = go(self.fn.body, [], "  ")
        self.program = data
        bp = " ".join(f"({p}_given : Bool)" for p in self.bool_params)
        ip = " ".join(f"({p} : Int)" for p in self.int_params)
        sig = " ".join(x for x in (bp, ip) if x)
        return "\n".join([f"def {self.name} {sig} : List Val :="] + lines + [""])


# ----------------------------------------------------------------------------- fixed prelude
PRELUDE = r'''
namespace PopGen

/-- provenance of a value, read off the expression that computes it -/
inductive Val where
  | param (name : String)                         -- a parameter of the function, handed on as it is
  | int (i : Int)                                 -- an integer computed from the loop variable / integer parameters / literals
  | const (repr : String)                         -- any other literal (float, str, bool, None)
  | get (d : Val) (key : String) (dflt : Val)     -- `d.get("key", dflt)` (`dflt = const "None"` when absent)
  | sub (d : Val) (key : String)                  -- `d["key"]`
  | item (v : Val) (i : Int)                      -- `v[i]`, `i` an integer expression
  | deepcopy (v : Val)                            -- `copy.deepcopy(v)`
  | copy (v : Val)                                -- `copy.copy(v)`
  | ite (tested : Val) (isNot : Bool) (a b : Val) -- `a if tested is [not] None else b`
  | nil                                           -- end of an argument list
  | pos (v : Val) (rest : Val)                    -- positional argument
  | kw (key : String) (v : Val) (rest : Val)      -- keyword argument
  | star2 (v : Val) (rest : Val)                  -- `**v`
  | build (cls : String) (args : Val)             -- `<module-level class>(args)`: a freshly constructed object
  | call (f : Val) (args : Val)                   -- `<parameter>(args)`
deriving DecidableEq, Repr, Inhabited

/-- how the objects that different members of the population receive are related -/
inductive Share where
  | immutable   -- a number / literal: nothing to share
  | shared      -- ONE object for every member (the expression mentions parameters only)
  | perIndex    -- element `idx` of a parameter: different members get different elements
  | fresh       -- built or deep-copied anew for every member
  | shallow     -- `copy.copy`: a new shell per member around shared contents
  | mixed       -- the arms of a conditional disagree / not a value
deriving DecidableEq, Repr, Inhabited

/-- PYTHON SEMANTICS assumed: a name and `d[k]` / `d.get(k, …)` of it evaluate to the same object in every
    iteration; `copy.deepcopy` and a constructor call return a new object every time; `copy.copy` a new shell around
    the same contents; literals are immutable. -/
def Val.share : Val → Share
  | .param _ => .shared
  | .int _ => .immutable
  | .const _ => .immutable
  | .get d _ _ => d.share
  | .sub d _ => d.share
  | .item v _ => match v.share with
      | .shared => .perIndex
      | s => s
  | .deepcopy _ => .fresh
  | .copy v => match v.share with
      | .fresh => .fresh
      | .immutable => .immutable
      | _ => .shallow
  | .ite _ _ a b => if a.share = b.share then a.share else .mixed
  | .build _ _ => .fresh
  | .call _ _ => .fresh
  | .nil => .mixed
  | .pos _ _ => .mixed
  | .kw _ _ _ => .mixed
  | .star2 _ _ => .mixed

/-- keyword lookup in an argument list; a name not given explicitly is taken from the first `**d` as `d["name"]` -/
def Val.lookup (key : String) : Val → Option Val
  | .kw k v rest => if k = key then some v else rest.lookup key
  | .pos _ rest => rest.lookup key
  | .star2 v rest => match rest.lookup key with
      | some x => some x
      | none => some (.sub v key)
  | _ => none

/-- the agent behind a population member: a constructor call itself; a call whose first positional argument is an
    agent (`agent_wrapper(agent, **kw)`) wraps that agent; a conditional both of whose arms hold the same agent -/
def Val.agent : Val → Option Val
  | .build c a => some (.build c a)
  | .call f (.pos v rest) => match v.agent with
      | some x => some x
      | none => some (.call f (.pos v rest))
  | .call f a => some (.call f a)
  | .ite _ _ a b => match a.agent, b.agent with
      | some x, some y => if x = y then some x else none
      | _, _ => none
  | _ => none

def Val.ctorArgs : Val → Val
  | .build _ a => a
  | .call _ a => a
  | _ => .nil

def Val.ctorName : Val → String
  | .build c _ => c
  | .call (.param p) _ => "<" ++ p ++ ">"
  | _ => "?"

/-- the `index` a member is constructed with (`none`: not an agent, no `index` argument, or not an integer
    expression — the constructor's default would apply) -/
def Val.indexOf (v : Val) : Option Int :=
  match v.agent with
  | some a => match a.ctorArgs.lookup "index" with
    | some (.int i) => some i
    | _ => none
  | none => none

/-- sharing class of the constructor argument `key` of a member -/
def Val.argShare (key : String) (v : Val) : Option Share :=
  match v.agent with
  | some a => (a.ctorArgs.lookup key).map Val.share
  | none => none

/-- all arguments of a constructor call with their sharing class (`#` positional, `**` unpacked dict) -/
def Val.kwShares : Val → List (String × Share)
  | .kw k v rest => (k, v.share) :: rest.kwShares
  | .pos v rest => ("#", v.share) :: rest.kwShares
  | .star2 v rest => ("**", v.share) :: rest.kwShares
  | _ => []

/-- Python `range(stop)` / `range(start, stop)` over the integers -/
def pyRange (stop : Int) : List Int := (List.range stop.toNat).map Int.ofNat
def pyRange2 (start stop : Int) : List Int :=
  (List.range (stop - start).toNat).map (fun (k : Nat) => start + (k : Int))

/-- `for i in xs: s = body(s, i)` -/
def pyFor {σ : Type} (xs : List Int) (s : σ) (body : σ → Int → σ) : σ := xs.foldl body s
'''

ASSUMED = [
    "a parameter name, d[k] and d.get(k, …) of it evaluate to the same object in every loop iteration; copy.deepcopy and a "
    "call of a class return a new object every time; copy.copy a new shell around the same contents; literals and "
    "integers are immutable (`Val.share`)",
    "`range` over Python integers; list.append / `+ [x]` add exactly one element at the end",
    "a wrapper call `agent_wrapper(agent, **kw)` yields an object whose `index` is the wrapped agent's (`Val.agent`)",
    "what a constructor does with an argument it receives (stores, clones, mutates) is NOT in this source: the "
    "correspondence measures it",
]


# ----------------------------------------------------------------------------- driver
def repo_dir(arg: str | None) -> Path:
    if arg:
        return Path(arg)
    return Path(os.environ.get("VERIF_REPO", "/repo"))


def _parse(repo: Path, rel: str, h) -> ast.Module:
    p = repo / rel
    if not p.exists():
        raise Unsupported(f"{rel} not found under {repo}")
    src = p.read_text()
    h.update(rel.encode() + b"\0" + src.encode() + b"\0")
    try:
        return ast.parse(src)
    except SyntaxError as e:
        raise Unsupported(f"{rel} does not parse: {e}")


def analyse(repo: Path):
    h = hashlib.sha256()
    utils, base = _parse(repo, UTILS_SOURCE, h), _parse(repo, BASE_SOURCE, h)
    cp = next((n for n in utils.body if isinstance(n, ast.FunctionDef) and n.name == "create_population"), None)
    if cp is None:
        raise Unsupported(f"no module-level `def create_population` in {UTILS_SOURCE}")
    cls = next((n for n in base.body if isinstance(n, ast.ClassDef) and n.name == "EvolvableAlgorithm"), None)
    if cls is None:
        raise Unsupported(f"no `class EvolvableAlgorithm` in {BASE_SOURCE}")
    pm = next((n for n in cls.body if isinstance(n, ast.FunctionDef) and n.name == "population"), None)
    if pm is None:
        raise Unsupported("no `EvolvableAlgorithm.population`")
    if not any(isinstance(d, ast.Name) and d.id == "classmethod" for d in pm.decorator_list):
        fail(pm, "`population` is not a classmethod")
    f1 = Fn(cp, "create_population")
    t1 = f1.translate_filler()
    f2 = Fn(pm, "population", skip_params=1)
    t2 = f2.translate_comprehensions()
    if f1.str_params != ["algo"] or f1.int_params != ["population_size"] or f1.bool_params:
        raise Unsupported(f"create_population: expected branching on `algo` only and `range` over `population_size` only "
                          f"(found string tests on {f1.str_params}, None tests on {f1.bool_params}, integer parameters "
                          f"{f1.int_params})")
    if f2.bool_params != ["wrapper_cls"] or f2.int_params != ["size"]:
        raise Unsupported(f"population: expected one test on `wrapper_cls` and `range` over `size` "
                          f"(found {f2.bool_params}, {f2.int_params})")
    return f1, t1, f2, t2, h.hexdigest()


def table_rows(f1: Fn):
    """per `algo` literal (source order, first occurrence wins like the if-chain): (literal, class, [(arg, share)])"""
    rows, seen = [], set()
    for lit in f1.literals:
        if lit in seen:
            continue
        seen.add(lit)
        # the member appended under the FIRST branch testing this literal
        mem = None
        for b in f1.branches:
            conds = [c for k, c in b["path"] if k == "if" and isinstance(c, dict) and c.get("literal") == lit]
            if conds:
                mem = b["member"]
                break
        if mem is None:
            rows.append((lit, "?", []))
            continue
        ag = _agent_data(mem.data)
        rows.append((lit, ag.ctor, ag.shares()) if ag is not None else (lit, "?", []))
    return rows


class _A:
    """agent view over plain data"""
    def __init__(self, data):
        self.data = data
        self.ctor = data["build"] if "build" in data else "<" + data["call"].get("param", "?") + ">"
        self.args = self

    def shares(self):
        return [("#" if a["kind"] == "pos" else "**" if a["kind"] == "star2" else a["key"], share_of(a["val"]))
                for a in self.data["args"]]


def _agent_data(d):
    if not isinstance(d, dict):
        return None
    if "build" in d:
        return _A(d)
    if "call" in d:
        first = d["args"][0] if d["args"] and d["args"][0]["kind"] == "pos" else None
        inner = _agent_data(first["val"]) if first else None
        return inner if inner is not None else _A(d)
    if "ite" in d:
        a, b = _agent_data(d["then"]), _agent_data(d["else"])
        return a if a is not None and b is not None and a.data == b.data else None
    return None


def share_of(d) -> str:
    """Python mirror of `Val.share` over the plain data"""
    if "param" in d:
        return "shared"
    if "int" in d or "const" in d:
        return "immutable"
    if "get" in d:
        return share_of(d["get"])
    if "sub" in d:
        return share_of(d["sub"])
    if "item" in d:
        s = share_of(d["item"])
        return "perIndex" if s == "shared" else s
    if "deepcopy" in d:
        return "fresh"
    if "copy" in d:
        s = share_of(d["copy"])
        return s if s in ("fresh", "immutable") else "shallow"
    if "ite" in d:
        a, b = share_of(d["then"]), share_of(d["else"])
        return a if a == b else "mixed"
    if "build" in d or "call" in d:
        return "fresh"
    return "mixed"


def description(repo: Path) -> dict:
    """the translated program as plain data, for the correspondence harness (raises Unsupported)"""
    f1, _, f2, _, sha = analyse(repo)
    return {"sha256": sha,
            "create_population": {"program": f1.program, "algos": list(dict.fromkeys(f1.literals)),
                                  "table": [[a, c, [list(x) for x in rows]] for a, c, rows in table_rows(f1)]},
            "population": {"program": f2.program}}


def translate(repo: Path) -> tuple[str, str]:
    """returns (lean text, sha256 over the two source files); raises Unsupported"""
    f1, t1, f2, t2, sha = analyse(repo)
    out = PRELUDE.split("\n")
    out += [f"/-! ## `create_population` ({UTILS_SOURCE}) -/", "", t1,
            "/-- the literals `algo` is compared with, in source order (a repeated literal names a dead branch) -/",
            "def algos : List String := [" + ", ".join(lean_str(s) for s in dict.fromkeys(f1.literals)) + "]", "",
            "/-- per branch: the literal, the class constructed, and per constructor argument (source order) how the objects",
            "    that different members of the population receive are related -/",
            "def sharingTable : List (String × String × List (String × Share)) := ["]
    rows = table_rows(f1)
    for k, (lit, cls, shares) in enumerate(rows):
        body = ", ".join(f"({lean_str(a)}, .{s})" for a, s in shares)
        out.append(f"  ({lean_str(lit)}, {lean_str(cls)}, [{body}])" + ("," if k < len(rows) - 1 else ""))
    out += ["]", "", f"/-! ## `EvolvableAlgorithm.population` ({BASE_SOURCE}) -/", "", t2]
    header = "\n".join([
        "/-",
        "  Gen/PopGen.lean — GENERATED by harness/py2lean_pop.py from `create_population` and",
        "  `EvolvableAlgorithm.population` of " + REL_SOURCE + "; do not edit.  Core Lean only.",
        "  `Proofs/PopGenEq.lean` proves the generated populations equal to the models' initial populations",
        "  (`Tournament.initialPop`, `HpMut.Pop.initialWith`) for every branch and every population size.",
        "  Assumed:",
    ] + [f"    * {a}" for a in ASSUMED] + [
        "-/",
        SHA_PREFIX + sha,
        "set_option linter.unusedVariables false",
        "",
    ])
    return header + "\n".join(out).rstrip() + "\n\nend PopGen\n", sha


def strip_sha(text: str) -> str:
    return "\n".join(ln for ln in text.split("\n") if not ln.startswith(SHA_PREFIX))


def write_if_changed(text: str, out: Path, force: bool = False) -> bool:
    """writes `text` unless the file already holds the same translation (sha line ignored)"""
    out = Path(out)
    old = out.read_text() if out.exists() else None
    if old is not None and not force and strip_sha(old) == strip_sha(text):
        return False
    if old == text:
        return False
    out.parent.mkdir(parents=True, exist_ok=True)
    tmp = out.with_suffix(f".lean.tmp{os.getpid()}")
    tmp.write_text(text)
    os.replace(tmp, out)
    return True


def main(argv: list[str]) -> int:
    import argparse
    ap = argparse.ArgumentParser()
    ap.add_argument("--repo", default=None)
    ap.add_argument("--out", default=str(DEFAULT_OUT))
    ap.add_argument("--stdout", action="store_true")
    ap.add_argument("--force", action="store_true", help="rewrite even if only the sha256 line differs")
    a = ap.parse_args(argv)
    try:
        text, sha = translate(repo_dir(a.repo))
    except Unsupported as e:
        print(f"py2lean_pop: {e}", file=sys.stderr)
        return 1
    if a.stdout:
        sys.stdout.write(text)
        return 0
    changed = write_if_changed(text, Path(a.out), a.force)
    print(f"{a.out}: {'written' if changed else 'unchanged'} (source sha256 {sha[:16]}…, "
          f"translation sha256 {hashlib.sha256(strip_sha(text).encode()).hexdigest()[:16]}…)")
    return 0


if __name__ == "__main__":
    sys.exit(main(sys.argv[1:]))
