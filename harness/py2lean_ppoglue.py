#!/usr/bin/env python3
"""py2lean_ppoglue.py — AST translator of the PPO / IPPO glue between the rollout and the update (property C16):
WHICH action, WHICH mask and WHICH log-prob travel from `get_action` into `learn` and back into the actor.

Reads (never imports) `agilerl/algorithms/ppo.py` and `agilerl/algorithms/ippo.py` and emits `lean/Gen/PpoGlueGen.lean`
(core Lean only, namespace `PpoGlueGen`).  `lean/Proofs/PpoGlueGenEq.lean` proves the definitions equal to the glue
functions of `lean/Model/Dist.lean`; `lean/Props/C16.lean` restates the theorems (`C16_source_translation_glue_*`).

Translated (symbolic execution, locals substituted, so renamings / temporaries / reordered independent statements
give the same text):

  PPO._get_action_and_values            -> PPO.get_action_and_values  : (action, log_prob, entropy?, values)
  PPO.evaluate_actions                  -> PPO.evaluate_actions       : (log_prob, entropy, values)
  PPO.get_action                        -> PPO.get_action             : (action, log_prob, entropy, values)
  PPO.learn, innermost minibatch loop   -> PPO.learn_minibatch        : none when the minibatch is skipped, else
        (statements from the minibatch indexing to `ratio` and `entropy_loss`)   (action handed to the actor, log_prob,
                                                                                 logratio, ratio, entropy_loss)
  IPPO.get_action, body of the per-group loop -> IPPO.get_action_agent : (action, log_prob, entropy, values) entries
  IPPO._learn_individual, minibatch loop      -> IPPO.learn_minibatch  : as for PPO

Shape of the output.  A batch tensor of actions is a value of an abstract type `T` (with `+ - *` from type classes,
python float literals through `E.lit`, `squeeze / unsqueeze / dim` as fields of `Env`); a per-row tensor (log_prob,
values, entropy) is a `List α`; `entropy` of the actor is `Option (List α)` (`None` when the policy is squashed); the
entropy that PPO reports is `Ent α` (`scalar` for the stand-in `-mean(log_prob)`, `rows` otherwise).  The actor and the
critic are the fields of `Env` (parameters, never defaults).  Every forward pass takes its own sampler draw (`draw0`,
`draw1`, … in call order) and `action_log_prob` is emitted with the (obs, draw, mask) of the MOST RECENT forward pass of
that actor — this is how a re-evaluation without the mask shows up in the text.

Supported subset: `Assign` (names, tuples with `_`, `NAME[...] = v`), `AugAssign` is not needed and rejected, `If`
(both branches merged with `if … then … else`), `with torch.no_grad()`, `Return`, expression statements that are
`.eval()` / `.train()` of the actor / critic; expressions: names, `None`, numeric literals, attributes of `self`
(`actor`, `critic`, `training`, `share_encoders`, `action_space`), `<space>.low/.high`, `<actor>.squash_output`,
calls of the actor / critic / `self` methods above (inlined) and the tensor methods `.cpu() .data .numpy() .detach()
.squeeze() .squeeze(-1) .unsqueeze(k) .dim() .mean() .exp() .view(-1)`, `np.clip`, `len(minibatch_idxs)`,
`isinstance(<space>, spaces.K)`, `+ - *`, unary `-`, `not / and / or`, `> >= < <= == !=` on naturals, `is None`,
conditional expressions.  In the two `learn` slices a statement that reads a name outside the slice (advantages,
returns, coefficients, optimizers) is skipped and poisons its targets; a statement inside the slice must be fully
supported.  Anything else raises `Unsupported` naming construct and line.

Assumed (listed in the header of the generated file): `preprocess_observation` / `extract_features` are functions of
the observation; `.eval()` / `.train()` do not change the head (norm layers are C05 / C17's business); `.squeeze()` of
a per-row tensor with ≥ 2 rows keeps the rows; `get_experiences_samples`, `flatten_experiences`, `to_device` keep
positions (C-flatten translator); the weights do not change between the calls that one definition covers.
"""
from __future__ import annotations

import ast
import hashlib
import os
import sys
from fractions import Fraction
from pathlib import Path

ROOT = Path(__file__).resolve().parent.parent
DEFAULT_OUT = ROOT / "lean" / "Gen" / "PpoGlueGen.lean"
REL_SOURCES = ("agilerl/algorithms/ppo.py", "agilerl/algorithms/ippo.py")
REL_SOURCE = "agilerl/algorithms/{ppo,ippo}.py"
SHA_PREFIX = "-- sha256(source) = "


class Unsupported(Exception):
    pass


class Unknown(Exception):
    """the expression reads a name outside the translated slice"""


def where(n) -> str:
    return f"line {getattr(n, 'lineno', '?')}"


def unparse(n) -> str:
    try:
        return ast.unparse(n)
    except Exception:
        return type(n).__name__


class V:
    def __init__(self, kind, txt="", **kw):
        self.kind, self.txt = kind, txt
        self.__dict__.update(kw)

    def __repr__(self):
        return f"V({self.kind}, {self.txt})"


LEAN_TY = {"act": "T", "vec": "List α", "sc": "α", "ent": "Ent α", "optvec": "Option (List α)", "optsc": "Option α",
           "bool": "Bool", "nat": "Nat", "obs": "O", "mask": "Option M"}
SPACE_EXPRS = {"self.action_space", "agent_space", "action_space"}
GLOBAL_NAMES = {"self", "np", "torch", "spaces", "len", "isinstance", "preprocess_observation", "minibatch_idxs"}
SELF_ATTRS = {"actor", "critic", "training", "share_encoders", "action_space", "preprocess_observation"}
IDENT_METHODS = {"cpu", "numpy", "detach", "clone"}
ZIP_KINDS = {"self.actors": "actor", "self.critics": "critic", "preprocessed_states": "obs", "action_masks.values()": "mask"}
EXP_KINDS = {"states": "obs", "actions": "act", "log_probs": "vec"}


class Exec:
    def __init__(self, tr, cls: ast.ClassDef, rel: str):
        self.tr, self.cls, self.rel = tr, cls, rel
        self.params: list[tuple[str, str]] = []
        self.ndraw = 0
        self.last = None          # (obs, draw, mask) of the most recent forward pass of the actor
        self.assumed: set[str] = set()
        self.slice_mode = False
        self.guard = None

    # ------------------------------------------------------------------ helpers
    def bad(self, n, what):
        raise Unsupported(f"{self.rel} {where(n)}: {what}: `{unparse(n)[:90]}`")

    def param(self, name, ty) -> str:
        if (name, ty) not in self.params:
            if any(p == name for p, _ in self.params):
                raise Unsupported(f"{self.rel}: parameter {name} used at two types")
            self.params.append((name, ty))
        return name

    def draw(self) -> str:
        d = f"draw{self.ndraw}"
        self.ndraw += 1
        return self.param(d, "D")

    def lit(self, x) -> str:
        fr = Fraction(str(x))
        return f"({fr.numerator} : Rat)" if fr.denominator == 1 else f"({fr.numerator} / {fr.denominator} : Rat)"

    def mask_txt(self, n, v: V) -> str:
        if v.kind == "none":
            return "none"
        if v.kind == "mask":
            return v.txt
        self.bad(n, f"action mask of kind {v.kind}")

    # ------------------------------------------------------------------ expressions
    def ev(self, n, env) -> V:
        if isinstance(n, ast.Name):
            if n.id in env:
                v = env[n.id]
                if v.kind == "poison":
                    raise Unknown(n.id)
                return v
            raise Unknown(n.id)
        if isinstance(n, ast.Constant):
            if n.value is None:
                return V("none", "none")
            if isinstance(n.value, bool):
                return V("bool", "true" if n.value else "false")
            if isinstance(n.value, (int, float)):
                return V("num", "", value=n.value)
            self.bad(n, "constant")
        if isinstance(n, ast.Tuple):
            return V("tuple", "", items=[self.ev(e, env) for e in n.elts])
        if isinstance(n, ast.Attribute):
            return self.ev_attr(n, env)
        if isinstance(n, ast.Call):
            return self.ev_call(n, env)
        if isinstance(n, ast.UnaryOp):
            x = self.ev(n.operand, env)
            if isinstance(n.op, ast.Not) and x.kind == "bool":
                return V("bool", f"(!{x.txt})")
            if isinstance(n.op, ast.USub):
                if x.kind == "sc":
                    return V("sc", f"(-{x.txt})")
                if x.kind == "vec":
                    return V("vec", f"(List.map (fun a => -a) {x.txt})")
                if x.kind == "num":
                    return V("num", "", value=-x.value)
            self.bad(n, f"unary operator on {x.kind}")
        if isinstance(n, ast.BoolOp):
            vs = [self.ev(e, env) for e in n.values]
            if all(v.kind == "bool" for v in vs):
                op = " && " if isinstance(n.op, ast.And) else " || "
                return V("bool", "(" + op.join(v.txt for v in vs) + ")")
            self.bad(n, "boolean operator on non-booleans")
        if isinstance(n, ast.Compare):
            return self.ev_compare(n, env)
        if isinstance(n, ast.BinOp):
            return self.ev_binop(n, env)
        if isinstance(n, ast.IfExp):
            return self.ev_ifexp(n, env)
        self.bad(n, f"expression {type(n).__name__}")

    def ev_attr(self, n: ast.Attribute, env) -> V:
        src = unparse(n)
        if src == "self.actor":
            return V("actor")
        if src == "self.critic":
            return V("critic")
        if src == "self.training":
            return V("bool", self.param("training", "Bool"))
        if src == "self.share_encoders":
            return V("bool", self.param("share_encoders", "Bool"))
        if src in SPACE_EXPRS:
            return V("space")
        if isinstance(n.value, (ast.Name, ast.Attribute)) and unparse(n.value) in SPACE_EXPRS and n.attr in ("low", "high"):
            return V("act", self.param(n.attr, "T"))
        if isinstance(n.value, ast.Name) and n.value.id == "self":
            raise Unknown(src)
        x = self.ev(n.value, env)
        if x.kind == "actor" and n.attr == "squash_output":
            return V("bool", "E.squash_output")
        if x.kind in ("act", "vec", "sc", "ent", "optvec") and n.attr == "data":
            return x
        if x.kind == "space" and n.attr in ("low", "high"):
            return V("act", self.param(n.attr, "T"))
        self.bad(n, f"attribute .{n.attr} of {x.kind}")

    def ev_compare(self, n: ast.Compare, env) -> V:
        if len(n.ops) != 1:
            self.bad(n, "chained comparison")
        op, a, b = n.ops[0], self.ev(n.left, env), self.ev(n.comparators[0], env)
        if isinstance(op, (ast.Is, ast.IsNot)) and b.kind == "none":
            pos = isinstance(op, ast.Is)
            if a.kind == "none":
                return V("bool", "true" if pos else "false")
            if a.kind in ("optvec", "mask"):
                return V("bool", f"({a.txt}).isNone" if pos else f"({a.txt}).isSome", optof=a)
            if a.kind in ("vec", "sc", "act", "ent"):
                return V("bool", "false" if pos else "true")
            self.bad(n, f"`is None` on {a.kind}")
        sym = {ast.Gt: ">", ast.GtE: "≥", ast.Lt: "<", ast.LtE: "≤", ast.Eq: "=", ast.NotEq: "≠"}.get(type(op))
        if sym is None:
            self.bad(n, "comparison operator")

        def nat(v):
            if v.kind == "nat":
                return v.txt
            if v.kind == "num" and isinstance(v.value, int) and v.value >= 0:
                return str(v.value)
            self.bad(n, f"comparison of {v.kind}")
        return V("bool", f"decide ({nat(a)} {sym} {nat(b)})")

    def ev_binop(self, n: ast.BinOp, env) -> V:
        sym = {ast.Add: "+", ast.Sub: "-", ast.Mult: "*"}.get(type(n.op))
        if sym is None:
            self.bad(n, "binary operator")
        a, b = self.ev(n.left, env), self.ev(n.right, env)
        ks = (a.kind, b.kind)
        if ks == ("num", "num"):
            return V("num", "", value={"+": a.value + b.value, "-": a.value - b.value, "*": a.value * b.value}[sym])
        if ks == ("act", "act"):
            return V("act", f"({a.txt} {sym} {b.txt})")
        if ks == ("num", "act"):
            return V("act", f"(E.lit {self.lit(a.value)} {sym} {b.txt})")
        if ks == ("act", "num"):
            return V("act", f"({a.txt} {sym} E.lit {self.lit(b.value)})")
        if ks == ("vec", "vec"):
            return V("vec", f"(List.zipWith (fun a b => a {sym} b) {a.txt} {b.txt})")
        if ks == ("vec", "num"):
            return V("vec", f"(List.map (fun a => a {sym} E.num {self.lit(b.value)}) {a.txt})")
        if ks == ("num", "vec"):
            return V("vec", f"(List.map (fun a => E.num {self.lit(a.value)} {sym} a) {b.txt})")
        if ks == ("sc", "sc"):
            return V("sc", f"({a.txt} {sym} {b.txt})")
        self.bad(n, f"`{sym}` on {a.kind} and {b.kind}")

    def unify(self, n, c: V, x: V, y: V) -> V:
        """`x if c else y`"""
        if c.txt == "true":
            return x
        if c.txt == "false":
            return y
        if x.kind == y.kind and x.kind in LEAN_TY:
            if x.txt == y.txt:
                return x
            return V(x.kind, f"(if {c.txt} then {x.txt} else {y.txt})")
        self.bad(n, f"branches of kinds {x.kind} / {y.kind}")

    def ev_ifexp(self, n: ast.IfExp, env) -> V:
        c = self.ev(n.test, env)
        if c.kind != "bool":
            self.bad(n.test, "condition")
        o = getattr(c, "optof", None)
        if o is not None and o.kind == "optvec" and isinstance(n.test.left, ast.Name):
            # `A if x is None else B`: B sees the payload of x
            name = n.test.left.id
            pos = c.txt.endswith(".isNone")
            env_some = dict(env)
            env_some[name] = V("vec", "r")
            env_none = dict(env)
            env_none[name] = V("none", "none")
            vn = self.ev(n.body if pos else n.orelse, env_none)
            vs = self.ev(n.orelse if pos else n.body, env_some)
            if (vn.kind, vs.kind) == ("sc", "vec"):
                return V("ent", f"(match {o.txt} with | none => Ent.scalar {vn.txt} | some r => Ent.rows {vs.txt})")
            if vn.kind == vs.kind and vn.kind in LEAN_TY:
                return V(vn.kind, f"(match {o.txt} with | none => {vn.txt} | some r => {vs.txt})")
            self.bad(n, f"branches of kinds {vn.kind} / {vs.kind}")
        return self.unify(n, c, self.ev(n.body, env), self.ev(n.orelse, env))

    def kw(self, n: ast.Call, names: list[str], env) -> list[V | None]:
        """positional / keyword arguments by parameter name"""
        out: list = [None] * len(names)
        if len(n.args) > len(names):
            self.bad(n, "too many arguments")
        for i, a in enumerate(n.args):
            if isinstance(a, ast.Starred):
                self.bad(n, "starred argument")
            out[i] = self.ev(a, env)
        for k in n.keywords:
            if k.arg not in names:
                self.bad(n, f"keyword {k.arg}")
            out[names.index(k.arg)] = self.ev(k.value, env)
        return out

    def forward(self, n, fn: str, obs: V | None, mask: V | None) -> V:
        if obs is None or obs.kind not in ("obs", "latent"):
            self.bad(n, "forward pass on something that is not the observation")
        m = "none" if mask is None else self.mask_txt(n, mask)
        d = self.draw()
        self.last = (obs.txt, d, m)
        r = f"(E.{fn} {obs.txt} {d} {m})"
        return V("tuple", "", items=[V("act", f"{r}.1"), V("vec", f"{r}.2.1"), V("optvec", f"{r}.2.2")])

    def ev_call(self, n: ast.Call, env) -> V:
        f = n.func
        src = unparse(f)
        if isinstance(f, ast.Name):
            if f.id == "len" and len(n.args) == 1 and unparse(n.args[0]) == "minibatch_idxs":
                return V("nat", self.param("n_idx", "Nat"))
            if f.id == "isinstance" and len(n.args) == 2 and unparse(n.args[0]) in SPACE_EXPRS \
                    and unparse(n.args[1]) in ("spaces.Box", "spaces.Discrete"):
                return V("bool", self.param("is_" + unparse(n.args[1]).split(".")[1].lower(), "Bool"))
            if f.id == "preprocess_observation":
                self.assumed.add("`preprocess_observation(x, …)` is a function of the observation (identity here)")
                return self.ev(n.args[0], env)
            if f.id in env and env[f.id].kind in ("actor", "critic"):
                return self.call_net(n, env[f.id], None, env)
            raise Unknown(f.id) if self.slice_mode else self.bad(n, "call")
        if not isinstance(f, ast.Attribute):
            self.bad(n, "call")
        if src == "np.clip":
            a, lo, hi = self.kw(n, ["a", "a_min", "a_max"], env)
            if not (a and lo and hi and a.kind == lo.kind == hi.kind == "act"):
                self.bad(n, "np.clip arguments")
            return V("act", f"(E.clip {a.txt} {lo.txt} {hi.txt})")
        if src in ("self.actor", "self.critic"):
            return self.call_net(n, self.ev(f, env), None, env)
        if isinstance(f.value, ast.Name) and f.value.id == "self":
            if f.attr == "preprocess_observation":
                self.assumed.add("`self.preprocess_observation(x)` is a function of the observation (identity here)")
                return self.kw(n, ["observation"], env)[0] if not n.args else self.ev(n.args[0], env)
            fn = self.tr.method(self.cls, f.attr)
            if fn is None:
                raise Unknown(src) if self.slice_mode else self.bad(n, "method outside the translated class")
            return self.inline(n, fn, env)
        recv = self.ev(f.value, env)
        if recv.kind in ("actor", "critic"):
            return self.call_net(n, recv, f.attr, env)
        return self.call_tensor(n, recv, f.attr, env)

    def call_net(self, n, recv: V, m: str | None, env) -> V:
        if recv.kind == "actor":
            if m is None:
                obs, mask = self.kw(n, ["obs", "action_mask"], env)
                return self.forward(n, "forward", obs, mask)
            if m == "extract_features":
                (obs,) = self.kw(n, ["obs"], env)
                if obs is None or obs.kind != "obs":
                    self.bad(n, "extract_features argument")
                self.assumed.add("`actor.extract_features(obs)` is a function of the observation: `forward_head` takes the observation")
                return V("latent", obs.txt)
            if m == "forward_head":
                lat, mask = self.kw(n, ["latent", "action_mask"], env)
                if lat is None or lat.kind != "latent":
                    self.bad(n, "forward_head argument is not the actor's own latent")
                return self.forward(n, "forward_head", lat, mask)
            if m == "action_log_prob":
                (a,) = self.kw(n, ["action"], env)
                if a is None or a.kind != "act":
                    self.bad(n, "action_log_prob argument")
                if self.last is None:
                    self.bad(n, "action_log_prob before any forward pass")
                o, d, mk = self.last
                return V("vec", f"(E.action_log_prob {o} {d} {mk} {a.txt})")
            if m == "scale_action":
                (a,) = self.kw(n, ["action"], env)
                if a is None or a.kind != "act":
                    self.bad(n, "scale_action argument")
                return V("act", f"(E.scale_action {a.txt})")
            if m in ("eval", "train") and not n.args:
                return V("noop")
        if recv.kind == "critic":
            if m is None:
                (obs,) = self.kw(n, ["obs"], env)
                if obs is None or obs.kind != "obs":
                    self.bad(n, "critic argument")
                return V("vec", f"(E.critic {obs.txt})")
            if m == "forward_head":
                (lat,) = self.kw(n, ["latent"], env)
                if lat is None or lat.kind != "latent":
                    self.bad(n, "critic.forward_head argument")
                return V("vec", f"(E.critic_head {lat.txt})")
            if m in ("eval", "train") and not n.args:
                return V("noop")
        self.bad(n, f"method {m} of the {recv.kind}")

    def call_tensor(self, n, x: V, m: str, env) -> V:
        args = [self.ev(a, env) for a in n.args]
        if n.keywords:
            self.bad(n, "keyword argument of a tensor method")
        if m in IDENT_METHODS and not args and x.kind in ("act", "vec", "sc", "ent", "optvec"):
            if x.kind == "optvec":
                self.assumed.add("a tensor method on the actor's entropy when it is `None` raises AttributeError: the value stays `none`")
            return x
        if m == "squeeze":
            if x.kind == "act" and not args:
                return V("act", f"(E.squeeze {x.txt})")
            if x.kind == "vec" and (not args or (args[0].kind == "num" and args[0].value == -1)):
                self.assumed.add("`.squeeze()` / `.squeeze(-1)` of a per-row tensor with at least two rows keeps the rows")
                return x
        if m == "unsqueeze" and x.kind == "act" and len(args) == 1 and args[0].kind == "num" and isinstance(args[0].value, int) and args[0].value >= 0:
            return V("act", f"(E.unsqueeze {x.txt} {args[0].value})")
        if m == "dim" and x.kind == "act" and not args:
            return V("nat", f"(E.dim {x.txt})")
        if m == "view" and x.kind == "vec" and len(args) == 1 and args[0].kind == "num" and args[0].value == -1:
            return x
        if m == "mean" and not args:
            if x.kind == "vec":
                return V("sc", f"(E.mean {x.txt})")
            if x.kind == "ent":
                return V("sc", f"(Ent.mean E.mean {x.txt})")
            if x.kind == "optvec":
                self.assumed.add("`.mean()` of the actor's entropy when it is `None` raises AttributeError: the value is `none`")
                return V("optsc", f"(Option.map E.mean {x.txt})")
        if m == "exp" and not args and x.kind == "vec":
            return V("vec", f"(List.map E.exp {x.txt})")
        self.bad(n, f"method .{m} of a value of kind {x.kind}")

    def inline(self, n: ast.Call, fn: ast.FunctionDef, env) -> V:
        names = [a.arg for a in fn.args.args[1:]]
        defaults = fn.args.defaults
        vals = self.kw(n, names, env)
        for i, v in enumerate(vals):
            if v is None:
                j = i - (len(names) - len(defaults))
                if j < 0:
                    self.bad(n, f"missing argument {names[i]}")
                vals[i] = self.ev(defaults[j], {})
        sub = Exec.__new__(Exec)
        sub.__dict__ = self.__dict__          # same parameters, draws, last forward pass
        r = self.run(fn.body, dict(zip(names, vals)))
        if r is None:
            self.bad(n, f"{fn.name} does not return on every path")
        return r

    # ------------------------------------------------------------------ statements
    def bind(self, st, tg, v: V, env):
        if isinstance(tg, ast.Name):
            env[tg.id] = v
        elif isinstance(tg, ast.Tuple):
            if v.kind != "tuple" or len(v.items) != len(tg.elts):
                self.bad(st, "tuple assignment of another arity")
            for t, x in zip(tg.elts, v.items):
                self.bind(st, t, x, env)
        elif isinstance(tg, ast.Subscript) and isinstance(tg.value, ast.Name):
            env[tg.value.id] = v                      # the entry of this group
        else:
            self.bad(st, "assignment target")

    def targets(self, tg) -> list[str]:
        if isinstance(tg, ast.Name):
            return [tg.id]
        if isinstance(tg, ast.Tuple):
            return [x for t in tg.elts for x in self.targets(t)]
        if isinstance(tg, ast.Subscript) and isinstance(tg.value, ast.Name):
            return [tg.value.id]
        return []

    def run(self, stmts, env) -> V | None:
        for st in stmts:
            if isinstance(st, ast.Expr) and isinstance(st.value, ast.Constant) and isinstance(st.value.value, str):
                continue
            try:
                if self.slice_mode and not isinstance(st, (ast.If, ast.With)):
                    self.prescan(st, env)
                r = self.stmt(st, env)
            except Unknown as u:
                if not self.slice_mode:
                    raise Unsupported(f"{self.rel} {where(st)}: reads `{u}` which is outside the translated subset: `{unparse(st)[:80]}`")
                for node in ast.walk(st):
                    if isinstance(node, (ast.Assign, ast.AugAssign)):
                        for tg in (node.targets if isinstance(node, ast.Assign) else [node.target]):
                            for name in self.targets(tg):
                                env[name] = V("poison")
                continue
            if r is not None:
                return r
        return None

    def prescan(self, st, env):
        """a statement that reads a name outside the slice is outside the slice, whatever else it does"""
        skip = set()
        if isinstance(st, ast.Assign):
            for tg in st.targets:
                if isinstance(tg, ast.Subscript) and isinstance(tg.value, ast.Name):
                    skip |= {id(x) for x in ast.walk(tg)}      # which entry of the per-group dictionary: not part of the value
        for node in ast.walk(st):
            if isinstance(node, ast.Call) and unparse(node.func) in ("preprocess_observation", "self.preprocess_observation"):
                for a in node.args[1:] + [k.value for k in node.keywords if k.arg != "observation"]:
                    skip |= {id(x) for x in ast.walk(a)}       # spaces / device / flags: the result is a function of the observation
        for node in ast.walk(st):
            if id(node) in skip:
                continue
            if isinstance(node, ast.Name) and isinstance(node.ctx, ast.Load):
                if node.id in SPACE_EXPRS:
                    continue                                   # only `isinstance(space, …)` / `.low` / `.high` are read: inputs
                if node.id in env:
                    if env[node.id].kind == "poison":
                        raise Unknown(node.id)
                elif node.id not in GLOBAL_NAMES:
                    raise Unknown(node.id)
            if isinstance(node, ast.Attribute) and isinstance(node.value, ast.Name) and node.value.id == "self" \
                    and node.attr not in SELF_ATTRS and self.tr.method(self.cls, node.attr) is None:
                raise Unknown("self." + node.attr)

    def stmt(self, st, env) -> V | None:
        if isinstance(st, ast.Return):
            if st.value is None:
                self.bad(st, "bare return")
            return self.ev(st.value, env)
        if isinstance(st, ast.Assign):
            v = self.ev(st.value, env)
            if v.kind == "noop":
                self.bad(st, "assignment of a mode switch")
            for tg in st.targets:
                self.bind(st, tg, v, env)
            return None
        if isinstance(st, ast.Expr):
            v = self.ev(st.value, env)
            if v.kind != "noop":
                self.bad(st, "expression statement with an effect that is not modelled")
            self.assumed.add("`.eval()` / `.train()` of the actor and the critic do not change the policy head (normalisation layers: C05 / C17)")
            return None
        if isinstance(st, ast.With):
            if len(st.items) != 1 or unparse(st.items[0].context_expr) != "torch.no_grad()":
                self.bad(st, "with-statement")
            return self.run(st.body, env)
        if isinstance(st, ast.If):
            c = self.ev(st.test, env)
            if c.kind != "bool":
                self.bad(st, "condition")
            if self.slice_mode and self.guard is None and not st.orelse and "len(minibatch_idxs)" in unparse(st.test):
                self.guard = c.txt                       # the rest of the slice happens under this guard
                return self.run(st.body, env)
            ea, eb = dict(env), dict(env)
            ra, rb = self.run(st.body, ea), self.run(st.orelse, eb)
            if ra is not None or rb is not None:
                self.bad(st, "return inside a branch")
            for name in sorted(set(ea) | set(eb)):
                x, y = ea.get(name), eb.get(name)
                if x is None or y is None:
                    env[name] = V("poison")
                elif x is y:
                    env[name] = x
                elif x.kind == "poison" or y.kind == "poison":
                    env[name] = V("poison")
                elif x.kind in ("actor", "critic", "space", "latent", "none", "num", "tuple") or x.kind != y.kind:
                    if x.kind == y.kind and x.txt == y.txt and x.kind not in ("num", "tuple"):
                        env[name] = x
                    else:
                        env[name] = V("poison")
                else:
                    env[name] = self.unify(st, c, x, y)
            return None
        if self.slice_mode and isinstance(st, (ast.AugAssign, ast.Pass)):
            raise Unknown(unparse(st)[:30])
        self.bad(st, f"statement {type(st).__name__}")


class Translator:
    def __init__(self, sources: dict[str, str]):
        self.trees = {}
        for rel, src in sources.items():
            try:
                self.trees[rel] = ast.parse(src)
            except SyntaxError as e:
                raise Unsupported(f"{rel}: {e}") from e
        self.assumed: set[str] = set()

    def cls(self, rel: str, name: str) -> ast.ClassDef:
        for n in self.trees[rel].body:
            if isinstance(n, ast.ClassDef) and n.name == name:
                return n
        raise Unsupported(f"{rel}: class {name} not found")

    @staticmethod
    def method(cls: ast.ClassDef, m: str):
        for n in cls.body:
            if isinstance(n, ast.FunctionDef) and n.name == m:
                return n
        return None

    def need(self, rel, cls, m) -> ast.FunctionDef:
        fn = self.method(cls, m)
        if fn is None:
            raise Unsupported(f"{rel}: method {cls.name}.{m} not found")
        return fn

    # ---- emit
    def emit(self, ex: Exec, name: str, doc: str, fixed: list[tuple[str, str]], outs: list[V], guard=None) -> list[str]:
        for v in outs:
            if v.kind not in LEAN_TY:
                raise Unsupported(f"{ex.rel}: output of {name} has kind {v.kind} (a value of the slice was lost)")
        fixed_names = [p for p, _ in fixed]
        extra = [(p, t) for p, t in ex.params if p not in fixed_names]
        bools = sorted((p, t) for p, t in extra if t in ("Bool", "Nat"))
        tens = sorted((p, t) for p, t in extra if t == "T")
        draws = [(p, t) for p, t in extra if t == "D"]
        ps = bools + tens + fixed + draws
        sig = " ".join(f"({p} : {t})" for p, t in ps)
        ty = " × ".join(f"({LEAN_TY[v.kind]})" for v in outs)
        body = "(" + ", ".join(v.txt for v in outs) + ")"
        if guard is not None:
            ty = f"Option ({ty})"
            body = f"if {guard} then some {body} else none"
        self.assumed |= ex.assumed
        return [f"/-- {doc} -/", f"def {name} (E : Env α T O M D) {sig} :", f"    {ty} :=", f"  {body}", ""]

    # ---- whole methods
    def whole(self, rel, cls, m, lean_name, doc, args: list[tuple[str, str, str]]) -> list[str]:
        fn = self.need(rel, cls, m)
        names = [a.arg for a in fn.args.args[1:]]
        if names != [a for a, _, _ in args]:
            raise Unsupported(f"{rel} {where(fn)}: parameters of {m} are {names}, expected {[a for a, _, _ in args]}")
        ex = Exec(self, cls, rel)
        env = {a: V(k, a) for a, k, _ in args}
        r = ex.run(fn.body, env)
        if r is None or r.kind != "tuple":
            raise Unsupported(f"{rel} {where(fn)}: {m} does not return a tuple")
        return self.emit(ex, lean_name, doc, [(a, t) for a, _, t in args], r.items)

    # ---- slices of learn
    def learn_slice(self, rel, cls, m, lean_name, doc, actor_env: dict) -> list[str]:
        fn = self.need(rel, cls, m)
        exp_names = None
        for st in fn.body:
            if isinstance(st, ast.Assign) and len(st.targets) == 1 and unparse(st.targets[0]) == "experiences" \
                    and isinstance(st.value, ast.Tuple) and all(isinstance(e, ast.Name) for e in st.value.elts):
                exp_names = [e.id for e in st.value.elts]
        if exp_names is None:
            raise Unsupported(f"{rel} {where(fn)}: `experiences = (states, actions, log_probs, …)` not found in {m}")
        loops = [n for n in ast.walk(fn) if isinstance(n, ast.For) and isinstance(n.target, ast.Name) and n.target.id == "start"]
        if len(loops) != 1:
            raise Unsupported(f"{rel} {where(fn)}: the minibatch loop `for start in …` of {m} not found")
        body = loops[0].body
        k = None
        for i, st in enumerate(body):
            if isinstance(st, ast.Assign) and isinstance(st.value, ast.Call) and unparse(st.value.func) == "get_experiences_samples":
                k = i
                break
        if k is None:
            raise Unsupported(f"{rel} {where(loops[0])}: `get_experiences_samples` not found in the minibatch loop")
        call, tg = body[k].value, body[k].targets[0]
        if [unparse(a) for a in call.args] != ["minibatch_idxs", "*experiences"] or not isinstance(tg, ast.Tuple) \
                or len(tg.elts) != len(exp_names) or not all(isinstance(e, ast.Name) for e in tg.elts):
            raise Unsupported(f"{rel} {where(body[k])}: minibatch indexing of another shape: `{unparse(body[k])[:80]}`")
        ex = Exec(self, cls, rel)
        ex.slice_mode = True
        env = dict(actor_env)
        fixed = []
        for t, src_name in zip(tg.elts, exp_names):
            kind = EXP_KINDS.get(src_name)
            if kind is None:
                continue
            pname = "batch_" + src_name
            env[t.id] = V(kind, pname)
            fixed.append((pname, LEAN_TY[kind]))
        ex.assumed.add("`get_experiences_samples`, `flatten_experiences`, `to_device` keep the positions of (states, actions, log_probs, …) (layouts: C03 / py2lean_flatten)")
        r = ex.run(body[k + 1:], env)
        if r is not None:
            raise Unsupported(f"{rel}: return inside the minibatch loop")
        if ex.guard is None:
            raise Unsupported(f"{rel} {where(loops[0])}: no `if len(minibatch_idxs) > …:` guard found in the minibatch loop of {m}")
        outs = []
        for name in ("batch_actions", "log_prob", "logratio", "ratio", "entropy_loss"):
            # the names the loss is built from; the action is the value the actor has been handed
            v = env.get(name)
            if v is None or v.kind == "poison":
                raise Unsupported(f"{rel} {where(loops[0])}: `{name}` is not computed inside the translated slice of {m}")
            outs.append(v)
        return self.emit(ex, lean_name, doc, fixed, outs, guard=ex.guard)

    def ippo_agent(self, rel, cls) -> list[str]:
        fn = self.need(rel, cls, "get_action")
        loops = [n for n in ast.walk(fn) if isinstance(n, ast.For) and any(
            isinstance(c, ast.Call) and isinstance(c.func, ast.Name) and c.func.id == "actor" for c in ast.walk(n))]
        if len(loops) != 1:
            raise Unsupported(f"{rel} {where(fn)}: the per-group loop of IPPO.get_action not found")
        lp = loops[0]
        it = lp.iter
        if not (isinstance(it, ast.Call) and unparse(it.func) == "enumerate" and len(it.args) == 1 and isinstance(it.args[0], ast.Call)
                and unparse(it.args[0].func) == "zip" and isinstance(lp.target, ast.Tuple) and len(lp.target.elts) == 2
                and isinstance(lp.target.elts[1], ast.Tuple) and len(lp.target.elts[1].elts) == len(it.args[0].args)):
            raise Unsupported(f"{rel} {where(lp)}: per-group loop of another shape: `{unparse(lp.target)} in {unparse(it)[:60]}`")
        env, fixed = {}, []
        for t, src in zip(lp.target.elts[1].elts, it.args[0].args):
            if not isinstance(t, ast.Name):
                raise Unsupported(f"{rel} {where(lp)}: loop target `{unparse(t)}`")
            kind = ZIP_KINDS.get(unparse(src))
            if kind in ("actor", "critic"):
                env[t.id] = V(kind)
            elif kind == "obs":
                env[t.id] = V("obs", "obs")
                fixed.append(("obs", "O"))
            elif kind == "mask":
                env[t.id] = V("mask", "action_mask")
                fixed.append(("action_mask", "Option M"))
        ex = Exec(self, cls, rel)
        ex.slice_mode = True
        if ex.run(lp.body, env) is not None:
            raise Unsupported(f"{rel}: return inside the per-group loop")
        outs = []
        for name in ("action_dict", "action_logprob_dict", "dist_entropy_dict", "state_values_dict"):
            v = env.get(name)
            if v is None or v.kind == "poison":
                raise Unsupported(f"{rel} {where(lp)}: `{name}[…]` is not filled inside the per-group loop")
            outs.append(v)
        ex.assumed.add("IPPO: `disassemble_homogeneous_outputs` and the replacement by env-defined actions after the loop are C14's (py2lean_action)")
        return self.emit(ex, "get_action_agent",
                         "`IPPO.get_action`, one homogeneous group: the entries of (action_dict, action_logprob_dict, dist_entropy_dict, state_values_dict); entropy `none`: `None.cpu()` raises",
                         fixed, outs)


PRELUDE = """namespace PpoGlueGen

/-- the entropy PPO reports: one number (the stand-in `-mean(log_prob)`) or one value per row -/
inductive Ent (α : Type) where
  | scalar (x : α)
  | rows (xs : List α)

/-- `.mean()` of a rank-0 tensor is the tensor -/
def Ent.mean {α : Type} (mean : List α → α) : Ent α → α
  | .scalar x => x
  | .rows xs => mean xs

/-- the actor, the critic and the tensor primitives the glue calls: explicit parameters of every definition.
    `α` numbers, `T` a batch tensor of actions, `O` a batch of observations, `M` a batch of masks, `D` the sampler's
    draw for one forward pass.  `forward_head o d m` / `forward o d m`: (action, log_prob, entropy or `None`);
    `action_log_prob o d m a`: `actor.action_log_prob(a)` when the most recent forward pass was `(o, d, m)`. -/
structure Env (α T O M D : Type) where
  lit : Rat → T
  num : Rat → α
  exp : α → α
  mean : List α → α
  squeeze : T → T
  unsqueeze : T → Nat → T
  dim : T → Nat
  clip : T → T → T → T
  scale_action : T → T
  squash_output : Bool
  forward_head : O → D → Option M → T × List α × Option (List α)
  forward : O → D → Option M → T × List α × Option (List α)
  action_log_prob : O → D → Option M → T → List α
  critic : O → List α
  critic_head : O → List α

variable {α T O M D : Type} [Add T] [Sub T] [Mul T] [Add α] [Sub α] [Mul α] [Neg α]
"""


def repo_dir(arg: str | None = None) -> Path:
    if arg:
        return Path(arg)
    return Path(os.environ.get("VERIF_REPO", "/repo"))


def translate(repo: Path) -> tuple[str, str]:
    h = hashlib.sha256()
    sources = {}
    for rel in REL_SOURCES:
        path = Path(repo) / rel
        try:
            raw = path.read_bytes()
        except OSError as e:
            raise Unsupported(f"cannot read {path}: {e}") from e
        h.update(rel.encode() + b"\0" + raw + b"\0")
        sources[rel] = raw.decode("utf-8")
    tr = Translator(sources)
    body = PRELUDE.split("\n")
    rel = REL_SOURCES[0]
    ppo = tr.cls(rel, "PPO")
    body += ["namespace PPO", ""]
    body += tr.whole(rel, ppo, "_get_action_and_values", "get_action_and_values",
                     "`PPO._get_action_and_values(obs, action_mask)`: (action, log_prob, entropy or None, values)",
                     [("obs", "obs", "O"), ("action_mask", "mask", "Option M")])
    body += tr.whole(rel, ppo, "evaluate_actions", "evaluate_actions",
                     "`PPO.evaluate_actions(obs, actions)`: (log_prob, entropy, values)",
                     [("obs", "obs", "O"), ("actions", "act", "T")])
    body += tr.whole(rel, ppo, "get_action", "get_action",
                     "`PPO.get_action(obs, action_mask)`: (action, log_prob, entropy, values) — the training loops store this action and this log_prob",
                     [("obs", "obs", "O"), ("action_mask", "mask", "Option M")])
    body += tr.learn_slice(rel, ppo, "learn", "learn_minibatch",
                           "`PPO.learn`, one minibatch, from the indexing to the loss: `none` = the minibatch is skipped; else (action handed to `action_log_prob`, log_prob, logratio, ratio, entropy_loss)",
                           {})
    body += ["end PPO", "", "namespace IPPO", ""]
    rel = REL_SOURCES[1]
    ippo = tr.cls(rel, "IPPO")
    body += tr.ippo_agent(rel, ippo)
    body += tr.learn_slice(rel, ippo, "_learn_individual", "learn_minibatch",
                           "`IPPO._learn_individual`, one minibatch: `none` = skipped; else (action handed to `action_log_prob`, log_prob, logratio, ratio, entropy_loss — `none`: `None.mean()` raises)",
                           {"actor": V("actor"), "critic": V("critic"), "action_space": V("space")})
    body += ["end IPPO", ""]
    sha = h.hexdigest()
    header = "\n".join([
        "/-",
        "  Gen/PpoGlueGen.lean — GENERATED by harness/py2lean_ppoglue.py from " + REL_SOURCE + " (get_action,",
        "  _get_action_and_values, evaluate_actions and the minibatch slice of learn / _learn_individual); do not edit.",
        "  Core Lean only.  Locals are substituted; the actor / critic / tensor primitives are the fields of `Env`.",
        "  `Proofs/PpoGlueGenEq.lean` proves the definitions equal to the glue functions of `Model/Dist.lean`.",
        "  Assumed (identities / inputs met in the source):",
    ] + [f"    * {a}" for a in sorted(tr.assumed)] + [
        "-/",
        SHA_PREFIX + sha,
        "set_option linter.unusedVariables false",
        "",
    ])
    return header + "\n" + "\n".join(body).rstrip() + "\n\nend PpoGlueGen\n", sha


def strip_sha(text: str) -> str:
    return "\n".join(ln for ln in text.split("\n") if not ln.startswith(SHA_PREFIX))


def write_if_changed(text: str, out: Path, force: bool = False) -> bool:
    out = Path(out)
    old = out.read_text() if out.exists() else None
    if old is not None and not force and strip_sha(old) == strip_sha(text):
        return False
    if old == text:
        return False
    out.parent.mkdir(parents=True, exist_ok=True)
    tmp = out.with_suffix(".lean.tmp")
    tmp.write_text(text)
    os.replace(tmp, out)
    return True


def main(argv: list[str]) -> int:
    import argparse
    ap = argparse.ArgumentParser()
    ap.add_argument("--repo", default=None)
    ap.add_argument("--out", default=str(DEFAULT_OUT))
    ap.add_argument("--stdout", action="store_true")
    ap.add_argument("--force", action="store_true")
    a = ap.parse_args(argv)
    try:
        text, sha = translate(repo_dir(a.repo))
    except Unsupported as e:
        print(f"py2lean_ppoglue: {e}", file=sys.stderr)
        return 1
    if a.stdout:
        sys.stdout.write(text)
        return 0
    changed = write_if_changed(text, Path(a.out), a.force)
    print(f"{a.out}: {'written' if changed else 'unchanged'} (source sha256 {sha[:16]}…)")
    return 0


if __name__ == "__main__":
    sys.exit(main(sys.argv[1:]))
