#!/usr/bin/env python3
"""
py2lean_preserve.py — translate the WEIGHT-CARRY-OVER functions of AgileRL's architecture mutations into Lean 4.

    python3 harness/py2lean_preserve.py [--repo DIR] [--out FILE] [--stdout] [--force]

Reads the *source text* only (Python `ast`; agilerl is never imported) of

    agilerl/modules/base.py         EvolvableModule.preserve_parameters   (carry)
                                    EvolvableModule.clone                 (wire)
    agilerl/modules/cnn.py          EvolvableCNN.shrink_preserve_parameters (carry)
                                    EvolvableCNN.recreate_network         (wire)
    agilerl/modules/multi_input.py  EvolvableMultiInput.recreate_network  (wire)
    agilerl/networks/base.py        EvolvableNetwork.recreate_encoder     (wire)
    agilerl/hpo/mutation.py         Mutations.reinit_from_mutated         (wire; the single-network branch)

and writes lean/Gen/PreserveGen.lean (namespace PreserveGen, core Lean only, imports nothing).
`Proofs/PreserveGenEq.lean` proves the generated definitions equal to the hand-written model
`Model/Preserve.lean` (`preserveKey`, `preserveNet`, `recreate`, `clone` with the switches
`NormPolicy.slice`, `BufPolicy.carry`), `Props/C04.lean` restates the C04 theorems over the generated
definitions (`C04_source_translation_*`), so they are re-checked against what the code says now.

Two kinds of function are translated.

CARRY functions (`@staticmethod f(old_net: nn.Module, new_net: nn.Module)`): the dicts of named tensors, the
loop over them, the per-tensor branch, the index expressions and the copies.
  Values and their Lean types
    network            `PyNet α`      two association lists `named_parameters`, `named_buffers` : name → tensor
    `dict(...)`        `PyDict α`     association list with Python's dict semantics (`pyDict`, `pyUpdate`:
                                      an existing key keeps its position and takes the new value)
    tensor             `PyTensor α`   shape (`List Nat`) + flat row-major data (the representation of the model;
                                      `α` arbitrary: values are only moved)
    `t[slices]` (read) `PyView α`     shape of the view + element function on multi-indices
    `x.size()`         `Shape`        (`List Nat`); an element of a size is a `Nat`; other ints are `Int`
    `slice(a, b)`      `PySlice`      start / stop `Option Int`; a tuple / list of them `List PySlice`
  Statements: docstring; `x = e`; `d.update(<items>)`; `for key, param in <items>:` at the top level of the
    function (items = `d.items()` of a dict built from ONE network, or `net.named_parameters()` /
    `net.named_buffers()`); in the loop body `x = e`, `param.data = e` (whole copy: the tensor is replaced,
    shape included), `param.data[idx] = e` / `param[idx] = e` (slice assignment, `none` = torch raises),
    `if / elif / else`, `continue`, `pass`; `return <network parameter>` as the last statement.
  Expressions: names, int / str constants, `None` (slice bounds), `x.data` (identity), `x.size()` / `x.shape`
    / `x.data.size()`, `d[key]` (`none` = KeyError), `size[k]` with a constant k (`none` = IndexError),
    `t[a:b, c:d]` / `t[<tuple of slices>]` (`none` = IndexError: too many indices), `slice(b)`, `slice(a, b)`,
    `slice(a, b, None)`, `min(a, b)` / `max(a, b)`, `+ - *`, `len(x)`, `== != < <= > >=` (ints; `== !=` also
    sizes and strings), `key in d` / `key in d.keys()` / `not in`, `"lit" in key` / `not in`, `and / or / not`,
    `tuple(g)` / `list(g)` / `[g]` with ONE generator `for x in <size | list of ints>` or
    `for x, y in zip(<size | list of ints>, <size | list of ints>)` and no condition (element: a slice or an int),
    `net.named_parameters()`, `net.named_buffers()`, `dict(<items>)`, `d.items()`.
  Shape of the output, for `C.f`:
    `C.f_body<k> (free variables…) (key : String) (param : PyTensor α) : Option (PyTensor α)` — one iteration of
        the k-th loop: the tensor `param` holds afterwards (`none` = the iteration raises).  Straight-line code
        in continuation-passing style: after `if c: A else: B` the rest of the body is emitted in both
        branches; fallible sub-expressions are bound first (`match … with | none => none | some r =>`) in
        Python's evaluation order (right-hand side before the assignment target);
    `C.f_loop<k> (free variables…) : List (String × PyTensor α) → Option (List (String × PyTensor α))` — the
        loop by structural recursion, stops at the first iteration that raises;
    `C.f (a0 a1 : PyNet α) : Option (PyNet α)` — the function; after a loop over a dict built from network N
        the tensors are written back into N (`pyStore`), after a loop over `N.named_parameters()` they
        replace that list.
  Names: parameters `a0, a1`, locals `v0, v1, …` in order of first assignment, comprehension variables
    `c0, c1, …`, bound results `r0, r1, …` (renaming a local does not change the text).

WIRE functions (methods that build a new network and call a carry function / `load_state_dict`): control flow
and which state goes where.
  * every network attribute `self.<f>` the method reads is a parameter `self_<f> : PyNet α`, a `bool` parameter
    a `Bool`; a network parameter (`offspring`) a `PyNet α`;
  * a local assigned from any other call (a constructor: `self.create_cnn(…)`, `nn.Linear(…)`,
    `self.__class__(**…)`, `self.reinit_module(…)` …) is a FRESH network: an explicit parameter
    `new<k> : PyNet α` in order of appearance (arbitrary initialisation; the theorems quantify over it).
    `if c: …x = <ctor>… else: …x = <ctor>…` whose branches only construct is ONE fresh network;
  * `f(old, new)` / `f(old_net=…, new_net=…)` for a translated carry function `f` (also through a local
    `g = A if <bool parameter> else B`) is the generated `f`; keyword arguments are matched by name;
  * `x.load_state_dict(y.state_dict()[, strict=…])` is `pyLoadStateDict strict x (pyStateDict y)` which returns
    the state after the call and whether torch raises (torch copies every matching entry first and raises a
    RuntimeError at the end: size mismatch always, missing / unexpected keys when strict);
    `try: <that> except RuntimeError: pass` keeps the state and drops the error;
  * `if isinstance(<network parameter>, list): A else: B` is `B` (the single-network branch; the list branch
    of `reinit_from_mutated` / `load_state_dicts` is NOT translated);
  * the result is `Option` of the tuple of the network attributes assigned (`self.f = …`, in order of first
    assignment) or of the returned network; `none` = raises.
  Skipped, after a check of their form (they touch no tensor): assignments to locals that are never used as a
    network and whose right-hand side mentions no network local, `x.disable_mutations(…)`,
    `x._layer_mutation_methods = …` / `x._node_mutation_methods = …`, and a `for` loop whose body only
    calls `setattr(<module>, <name from a literal list of those two attribute names>, …)`.

Anything else raises `Unsupported` naming the construct and its line — never a default.

Python / torch semantics used (fixed prelude of the output, proved about in Proofs/PreserveGenEq.lean)
  * `min` / `max` return the first argument on ties; slice bounds: negative counts from the end, clipped to
    `[0, len]`, stop < start is empty, step 1 only;
  * `t[s_0, …, s_{r-1}]`: IndexError when r exceeds the rank; the view has shape
    `[len s_k] ++ shape[r:]`, element `i` of the view is element `(start_k + i_k) ++ i[r:]` of `t`;
  * `t[idx] = v` (torch `setitem`): leading 1-dims of `v` are dropped while it has more dims than the view,
    then right-aligned with the view, each dim 1 (broadcast) or equal, else RuntimeError; exactly the elements
    of the region are overwritten, all others keep their value (validated against torch by the `pure` suite
    of harness/c04.py on every run);
  * dicts keep insertion order; `d.update(items)` / `dict(items)` overwrite the value of an existing key.

Assumptions (external / runtime behaviour that is a parameter or the identity)
  * `.data` is the identity on values (autograd is not modelled); `param.data = old.data` shares storage in
    torch — values only are modelled (aliasing is C01's model), so a slice assignment into a tensor after it
    was replaced in the same iteration is rejected;
  * within one module the names of parameters and buffers are pairwise distinct and distinct names are
    distinct tensor objects (torch refuses to register a name twice), so the dict built from both lists has one
    entry per tensor and writing the loop results back by name (`pyStore`) is what the in-place updates do;
  * `state_dict()` is parameters followed by buffers (non-persistent buffers are not distinguished);
  * float values are opaque (`α`): nothing computes with them.
The header carries the sha256 over all source files; `write_if_changed` compares everything *but* that line and
the output contains no line numbers, so an edit that leaves the translation unchanged does not touch the file.
"""
from __future__ import annotations

import ast
import hashlib
import os
import sys
from pathlib import Path

HERE = Path(__file__).resolve().parent
DEFAULT_OUT = HERE.parent / "lean" / "Gen" / "PreserveGen.lean"
REL_SOURCES = (
    "agilerl/modules/base.py",
    "agilerl/modules/cnn.py",
    "agilerl/modules/multi_input.py",
    "agilerl/networks/base.py",
    "agilerl/hpo/mutation.py",
)
REL_SOURCE = "agilerl/modules/{base,cnn,multi_input}.py + agilerl/networks/base.py + agilerl/hpo/mutation.py"  # messages only
SHA_PREFIX = "-- sha256(source) = "

# (file, class, function, kind)
TARGETS = (
    (REL_SOURCES[0], "EvolvableModule", "preserve_parameters", "carry"),
    (REL_SOURCES[1], "EvolvableCNN", "shrink_preserve_parameters", "carry"),
    (REL_SOURCES[0], "EvolvableModule", "clone", "wire"),
    (REL_SOURCES[1], "EvolvableCNN", "recreate_network", "wire"),
    (REL_SOURCES[2], "EvolvableMultiInput", "recreate_network", "wire"),
    (REL_SOURCES[3], "EvolvableNetwork", "recreate_encoder", "wire"),
    (REL_SOURCES[4], "Mutations", "reinit_from_mutated", "wire"),
)


class Unsupported(Exception):
    pass


_current_file = [REL_SOURCE]


def fail(node, what: str):
    line = getattr(node, "lineno", "?")
    raise Unsupported(f"{_current_file[0]}:{line}: unsupported construct: {what}")


# types of the translated fragment
NET, ITEMS, DICT, STR, TENSOR, VIEW, SIZE, NAT, INT, INTS, BOOL, SLICE, SLICES, NONE, FN = (
    "net", "items", "dict", "str", "tensor", "view", "size", "nat", "int", "ints", "bool", "slice", "slices", "none", "fn")
LEAN_TY = {NET: "PyNet α", ITEMS: "List (String × PyTensor α)", DICT: "PyDict α", STR: "String",
           TENSOR: "PyTensor α", VIEW: "PyView α", SIZE: "Shape", NAT: "Nat", INT: "Int", INTS: "List Int",
           BOOL: "Bool", SLICE: "PySlice", SLICES: "List PySlice"}
CMPOPS = {ast.Eq: "=", ast.NotEq: "≠", ast.Lt: "<", ast.LtE: "≤", ast.Gt: ">", ast.GtE: "≥"}
ARITH = {ast.Add: "+", ast.Sub: "-", ast.Mult: "*"}

PRELUDE = r'''
/-! ### Python / torch semantics used by the translation (fixed text) -/

abbrev Shape := List Nat

/-- number of elements -/
def numel : Shape → Nat
  | [] => 1
  | d :: ds => d * numel ds

/-- the multi-index addresses an element of a tensor of that shape -/
def inBounds : Shape → List Nat → Bool
  | [], [] => true
  | d :: ds, i :: is => decide (i < d) && inBounds ds is
  | _, _ => false

/-- row-major flat offset of a multi-index -/
def offset : Shape → List Nat → Nat
  | _ :: ds, i :: is => i * numel ds + offset ds is
  | _, _ => 0

/-- the multi-index of a flat offset -/
def unravel : Shape → Nat → List Nat
  | [], _ => []
  | _ :: ds, k => (k / numel ds) :: unravel ds (k % numel ds)

/-- a tensor: shape and flat row-major data -/
structure PyTensor (α : Type) where
  shape : Shape
  data : List α

/-- a `dict` name → tensor (insertion order) -/
abbrev PyDict (α : Type) := List (String × PyTensor α)

/-- what a module holds: `named_parameters()` and `named_buffers()` -/
structure PyNet (α : Type) where
  named_parameters : List (String × PyTensor α)
  named_buffers : List (String × PyTensor α)

/-- builtin `min(a, b)` (the first argument on ties) -/
def pyMin (a b : Int) : Int := if b < a then b else a

/-- builtin `max(a, b)` (the first argument on ties) -/
def pyMax (a b : Int) : Int := if b > a then b else a

/-- a slice bound: negative counts from the end, then clipped to `[0, len]` -/
def pyClip (len : Nat) (i : Int) : Nat :=
  if i < 0 then (i + len).toNat else min i.toNat len

/-- `size[i]` (`none` = IndexError) -/
def pyIndex (s : Shape) (i : Int) : Option Nat :=
  let j := if i < 0 then i + s.length else i
  if j < 0 then none else s[j.toNat]?

/-- `slice(start, stop)` (step 1) -/
structure PySlice where
  start : Option Int
  stop : Option Int

/-- (first index, length) of a slice on an axis of size `d` -/
def PySlice.range (s : PySlice) (d : Nat) : Nat × Nat :=
  let a := match s.start with
    | none => 0
    | some i => pyClip d i
  let b := match s.stop with
    | none => d
    | some i => pyClip d i
  (a, b - a)

/-- a tuple of slices applied to the leading axes (`none` = IndexError: too many indices) -/
def pyRanges (shape : Shape) (idx : List PySlice) : Option (List (Nat × Nat)) :=
  if idx.length ≤ shape.length then some (List.zipWith PySlice.range idx shape) else none

/-- shape of the view `t[idx]` -/
def viewShape (rs : List (Nat × Nat)) (shape : Shape) : Shape :=
  rs.map Prod.snd ++ shape.drop rs.length

/-- index of the tensor that a view index addresses -/
def viewIdx : List (Nat × Nat) → List Nat → List Nat
  | (a, _) :: rs, i :: is => (a + i) :: viewIdx rs is
  | _, is => is

/-- view index of a tensor index (`none` = outside the region) -/
def regionIdx : List (Nat × Nat) → Shape → List Nat → Option (List Nat)
  | (a, l) :: rs, _ :: ds, j :: js =>
    if a ≤ j ∧ j < a + l then (regionIdx rs ds js).map (fun is => (j - a) :: is) else none
  | [], ds, js => if inBounds ds js then some js else none
  | _, _, _ => none

/-- the value `t[idx]` on the right-hand side of an assignment -/
structure PyView (α : Type) where
  shape : Shape
  elem : List Nat → Option α

/-- `t[idx]` -/
def pyGetItem (t : PyTensor α) (idx : List PySlice) : Option (PyView α) :=
  (pyRanges t.shape idx).map fun rs =>
    { shape := viewShape rs t.shape,
      elem := fun i =>
        if inBounds (viewShape rs t.shape) i then t.data[offset t.shape (viewIdx rs i)]? else none }

/-- torch `setitem`: leading 1-dims of the value are dropped while it has more dims than the view -/
def stripLead (rv : Nat) : Shape → Shape
  | 1 :: rest => if (1 :: rest).length > rv then stripLead rv rest else 1 :: rest
  | w => w

/-- value dims (right-aligned with the view dims) must each be 1 or equal -/
def compat : Shape → Shape → Bool
  | [], [] => true
  | d :: ds, e :: es => (d == 1 || d == e) && compat ds es
  | _, _ => false

/-- index into the (stripped) value for a view index: broadcast dims read element 0 -/
def alignIdx : Shape → List Nat → List Nat
  | d :: ds, i :: is => (if d = 1 then 0 else i) :: alignIdx ds is
  | _, _ => []

/-- `t[idx] = v` (`none` = IndexError / RuntimeError: shapes cannot be broadcast) -/
def pySetItem (t : PyTensor α) (idx : List PySlice) (v : PyView α) : Option (PyTensor α) :=
  match pyRanges t.shape idx with
  | none => none
  | some rs =>
    let view := viewShape rs t.shape
    let wst := stripLead view.length v.shape
    if wst.length ≤ view.length ∧ compat wst (view.drop (view.length - wst.length)) = true then
      some { shape := t.shape,
             data := t.data.mapIdx fun k x =>
               match regionIdx rs t.shape (unravel t.shape k) with
               | none => x
               | some i =>
                 (v.elem (List.replicate (v.shape.length - wst.length) 0 ++
                    alignIdx wst (i.drop (view.length - wst.length)))).getD x }
    else none

/-- `d[key]` (`none` = KeyError) -/
def pyLookup (d : PyDict α) (key : String) : Option (PyTensor α) :=
  match d with
  | [] => none
  | (k, t) :: rest => if k = key then some t else pyLookup rest key

/-- `key in d` -/
def pyContains (d : PyDict α) (key : String) : Bool := (pyLookup d key).isSome

/-- `d[key] = t` -/
def pyInsert (d : PyDict α) (key : String) (t : PyTensor α) : PyDict α :=
  match d with
  | [] => [(key, t)]
  | (k, t') :: rest => if k = key then (k, t) :: rest else (k, t') :: pyInsert rest key t

/-- `d.update(items)` -/
def pyUpdate (d : PyDict α) (items : List (String × PyTensor α)) : PyDict α :=
  items.foldl (fun d kt => pyInsert d kt.1 kt.2) d

/-- `dict(items)` -/
def pyDict (items : List (String × PyTensor α)) : PyDict α := pyUpdate [] items

/-- the network after its tensors were updated in place through a dict of them (by name) -/
def pyStore (net : PyNet α) (d : PyDict α) : PyNet α :=
  { named_parameters := net.named_parameters.map fun kt => (kt.1, (pyLookup d kt.1).getD kt.2),
    named_buffers := net.named_buffers.map fun kt => (kt.1, (pyLookup d kt.1).getD kt.2) }

def pyHasPrefix : List Char → List Char → Bool
  | [], _ => true
  | _ :: _, [] => false
  | p :: ps, c :: cs => p == c && pyHasPrefix ps cs

def pyHasInfix (p : List Char) : List Char → Bool
  | [] => p.isEmpty
  | c :: cs => pyHasPrefix p (c :: cs) || pyHasInfix p cs

/-- `sub in s` on strings -/
def pyStrContains (sub s : String) : Bool := pyHasInfix sub.toList s.toList

/-- `net.state_dict()`: parameters, then buffers -/
def pyStateDict (net : PyNet α) : List (String × PyTensor α) := net.named_parameters ++ net.named_buffers

/-- entries of the target after `load_state_dict`: a same-named entry of the same shape is copied -/
def pyLoadEntries (sd : List (String × PyTensor α)) (l : List (String × PyTensor α)) : List (String × PyTensor α) :=
  l.map fun kt =>
    match pyLookup sd kt.1 with
    | some s => if s.shape = kt.2.shape then (kt.1, s) else kt
    | none => kt

/-- does `load_state_dict` report an error for these entries (size mismatch; missing key when strict) -/
def pyLoadErrors (strict : Bool) (sd : List (String × PyTensor α)) (l : List (String × PyTensor α)) : Bool :=
  l.any fun kt =>
    match pyLookup sd kt.1 with
    | some s => !decide (s.shape = kt.2.shape)
    | none => strict

/-- `target.load_state_dict(sd, strict=…)`: (the state after the call, a RuntimeError is raised at the end) -/
def pyLoadStateDict (strict : Bool) (target : PyNet α) (sd : List (String × PyTensor α)) : PyNet α × Bool :=
  ({ named_parameters := pyLoadEntries sd target.named_parameters,
     named_buffers := pyLoadEntries sd target.named_buffers },
   pyLoadErrors strict sd target.named_parameters || pyLoadErrors strict sd target.named_buffers ||
     (strict && sd.any fun kt => !(pyContains (pyStateDict target) kt.1)))
'''


def ind(lines, n=2):
    return [" " * n + ln for ln in lines]


def is_docstring(st) -> bool:
    return isinstance(st, ast.Expr) and isinstance(st.value, ast.Constant) and isinstance(st.value.value, str)


def dotted(n):
    if isinstance(n, ast.Name):
        return n.id
    if isinstance(n, ast.Attribute):
        b = dotted(n.value)
        return None if b is None else f"{b}.{n.attr}"
    return None


def lean_str(s: str) -> str:
    if not all(32 <= ord(c) < 127 and c not in '"\\' for c in s):
        raise Unsupported(f"string constant {s!r} (printable ASCII without quotes / backslashes only)")
    return '"' + s + '"'


def find_function(mod: ast.Module, rel: str, cls: str, name: str) -> ast.FunctionDef:
    found = [s for s in mod.body if isinstance(s, ast.ClassDef) and s.name == cls]
    if len(found) != 1:
        raise Unsupported(f"{rel}: class {cls} not found exactly once at module level")
    fns = [s for s in found[0].body if isinstance(s, ast.FunctionDef) and s.name == name]
    if len(fns) != 1:
        raise Unsupported(f"{rel}: {cls}.{name} defined {len(fns)} times")
    return fns[0]


# ---------------------------------------------------------------------------------------------- carry functions
class Carry:
    """one `@staticmethod f(old_net, new_net)`"""

    def __init__(self, cls: str, fn: ast.FunctionDef):
        self.cls, self.fn = cls, fn
        self.qual = f"{cls}.{fn.name}"
        self.canon: dict[str, str] = {}
        self.types: dict[str, str] = {}
        self.defined: set[str] = set()
        self.prov: dict[str, frozenset] = {}        # dict local -> network parameters its values belong to
        self.stale: set[str] = set()
        self.binds: list[tuple] = []
        self.nbind = 0
        self.ncomp = 0
        self.nloop = 0
        self.defs: list[list[str]] = []
        self.loop_tensor: str | None = None         # python name of the loop's tensor variable
        self.loop_key: str | None = None
        self.replaced = False                       # `param.data = …` happened on this path
        self.params: list[str] = []

    # ---------------- signature / naming
    def signature(self):
        fn = self.fn
        ok = len(fn.decorator_list) == 1 and isinstance(fn.decorator_list[0], ast.Name) \
            and fn.decorator_list[0].id == "staticmethod"
        if not ok:
            fail(fn, f"{self.qual} is not a plain @staticmethod")
        a = fn.args
        if a.vararg or a.kwarg or a.kwonlyargs or a.posonlyargs or a.defaults:
            fail(fn, f"parameter list of {self.qual}")
        for i, p in enumerate(a.args):
            if dotted(p.annotation) not in ("nn.Module", "torch.nn.Module", "Module"):
                fail(p, f"annotation of parameter {p.arg} (nn.Module is supported)")
            self.canon[p.arg], self.types[p.arg] = f"a{i}", NET
            self.defined.add(p.arg)
            self.params.append(p.arg)

    def collect_locals(self):
        k = 0

        def name(t):
            nonlocal k
            if isinstance(t, ast.Name):
                if t.id not in self.canon:
                    self.canon[t.id] = f"v{k}"
                    k += 1
            elif isinstance(t, ast.Tuple):
                for e in t.elts:
                    name(e)

        def visit(sts):
            for st in sts:
                if isinstance(st, ast.Assign):
                    for t in st.targets:
                        name(t)
                elif isinstance(st, (ast.AugAssign, ast.AnnAssign)):
                    name(st.target)
                elif isinstance(st, ast.For):
                    name(st.target)
                    visit(st.body)
                elif isinstance(st, ast.If):
                    visit(st.body)
                    visit(st.orelse)
        visit(self.fn.body)

    def fresh(self) -> str:
        r = f"r{self.nbind}"
        self.nbind += 1
        return r

    def bind(self, txt: str) -> str:
        r = self.fresh()
        self.binds.append((r, txt))
        return r

    # ---------------- expressions
    def as_int(self, txt: str, ty: str, node) -> str:
        if ty == INT:
            return txt
        if ty == NAT:
            return f"({txt} : Int)"
        fail(node, f"integer expected, got a value of type {ty}")

    def bound(self, n) -> str:
        if n is None or (isinstance(n, ast.Constant) and n.value is None):
            return "none"
        t, ty = self.ex(n)
        return f"(some {self.as_int(t, ty, n)})"

    def slices_of(self, sl) -> str:
        """the index expression of a subscript on a tensor -> text of type List PySlice"""
        def one(s):
            if isinstance(s, ast.Slice):
                if s.step is not None and not (isinstance(s.step, ast.Constant) and s.step.value in (None, 1)):
                    fail(s, "slice with a step")
                return f"PySlice.mk {self.bound(s.lower)} {self.bound(s.upper)}"
            t, ty = self.ex(s)
            if ty != SLICE:
                fail(s, f"tensor index of type {ty} (slices are supported)")
            return t
        if isinstance(sl, ast.Tuple):
            return "[" + ", ".join(one(e) for e in sl.elts) + "]"
        if isinstance(sl, ast.Slice):
            return "[" + one(sl) + "]"
        t, ty = self.ex(sl)
        if ty == SLICES:
            return t
        if ty == SLICE:
            return f"[{t}]"
        fail(sl, f"tensor index of type {ty} (a slice or a tuple of slices is supported)")

    def ex(self, n, top: bool = False) -> tuple[str, str]:
        par = (lambda s: s) if top else (lambda s: f"({s})")
        if isinstance(n, ast.Constant):
            if type(n.value) is int:
                return (str(n.value) if n.value >= 0 else f"({n.value})"), INT
            if type(n.value) is str:
                return lean_str(n.value), STR
            if type(n.value) is bool:
                return ("true" if n.value else "false"), BOOL
            fail(n, f"constant {n.value!r}")
        if isinstance(n, ast.Name):
            if n.id not in self.defined or n.id not in self.types:
                fail(n, f"name {n.id} (not a parameter / local assigned before on every path)")
            if n.id in self.stale:
                fail(n, f"{n.id}: a dict of tensors of a network that was updated through another dict")
            return self.canon[n.id], self.types[n.id]
        if isinstance(n, ast.Attribute):
            base, ty = self.ex(n.value)
            if ty == TENSOR and n.attr == "data":
                return base, TENSOR
            if ty == TENSOR and n.attr == "shape":
                return f"{base}.shape", SIZE
            fail(n, f"attribute .{n.attr} of a value of type {ty}")
        if isinstance(n, ast.Subscript):
            base, ty = self.ex(n.value)
            if ty == DICT:
                k, tk = self.ex(n.slice)
                if tk != STR:
                    fail(n, f"dict subscript of type {tk}")
                return self.bind(f"pyLookup {base} {k}"), TENSOR
            if ty == SIZE:
                i, ti = self.ex(n.slice)
                if ti != INT:
                    fail(n, f"size subscript of type {ti} (an int is supported)")
                return self.bind(f"pyIndex {base} {i}"), NAT
            if ty == TENSOR:
                idx = self.slices_of(n.slice)
                return self.bind(f"pyGetItem {base} {idx}"), VIEW
            fail(n, f"subscript of a value of type {ty}")
        if isinstance(n, ast.BinOp):
            (a, ta), (b, tb) = self.ex(n.left), self.ex(n.right)
            if type(n.op) not in ARITH:
                fail(n, f"operator {type(n.op).__name__}")
            return par(f"{self.as_int(a, ta, n.left)} {ARITH[type(n.op)]} {self.as_int(b, tb, n.right)}"), INT
        if isinstance(n, ast.UnaryOp) and isinstance(n.op, ast.USub):
            t, ty = self.ex(n.operand)
            return par(f"-{self.as_int(t, ty, n.operand)}"), INT
        if isinstance(n, ast.UnaryOp) and isinstance(n.op, ast.Not):
            t, ty = self.ex(n.operand)
            if ty != BOOL:
                fail(n, "not <non-boolean>")
            return par(f"¬ {t}"), BOOL
        if isinstance(n, ast.BoolOp):
            op = " ∧ " if isinstance(n.op, ast.And) else " ∨ "
            vs = []
            nb = len(self.binds)
            for v in n.values:
                t, ty = self.ex(v)
                if ty != BOOL:
                    fail(v, "non-boolean operand of and / or")
                vs.append(t)
            if len(self.binds) != nb:
                fail(n, "and / or with an operand that can raise (short circuit)")
            return par(op.join(vs)), BOOL
        if isinstance(n, ast.Compare):
            return self.compare(n, par)
        if isinstance(n, ast.Call):
            return self.call(n, par)
        if isinstance(n, (ast.ListComp, ast.GeneratorExp)):
            return self.comprehension(n, par)
        if isinstance(n, (ast.Tuple, ast.List)):
            parts = [self.ex(e, top=True) for e in n.elts]
            if parts and all(ty == SLICE for _, ty in parts):
                return "[" + ", ".join(t for t, _ in parts) + "]", SLICES
            fail(n, "tuple / list display (of slices is supported)")
        fail(n, type(n).__name__)

    def compare(self, n: ast.Compare, par):
        parts, (ltxt, lt) = [], self.ex(n.left)
        lnode = n.left
        for o, r in zip(n.ops, n.comparators):
            if isinstance(o, (ast.In, ast.NotIn)):
                want = "true" if isinstance(o, ast.In) else "false"
                if isinstance(r, ast.Call) and isinstance(r.func, ast.Attribute) and r.func.attr == "keys" \
                        and not r.args and not r.keywords:
                    r = r.func.value
                rtxt, rt = self.ex(r)
                if lt == STR and rt == DICT:
                    parts.append(f"pyContains {rtxt} {ltxt} = {want}")
                elif lt == STR and rt == STR:
                    parts.append(f"pyStrContains {ltxt} {rtxt} = {want}")
                else:
                    fail(n, f"`in` between {lt} and {rt}")
            else:
                rtxt, rt = self.ex(r)
                op = CMPOPS.get(type(o)) or fail(n, f"comparison {type(o).__name__}")
                if lt in (INT, NAT) and rt in (INT, NAT):
                    parts.append(f"{self.as_int(ltxt, lt, lnode)} {op} {self.as_int(rtxt, rt, r)}")
                elif lt == rt and lt in (SIZE, STR) and isinstance(o, (ast.Eq, ast.NotEq)):
                    parts.append(f"{ltxt} {op} {rtxt}")
                else:
                    fail(n, f"comparison {type(o).__name__} between {lt} and {rt}")
            ltxt, lt, lnode = rtxt, rt, r
        return par(parts[0] if len(parts) == 1 else " ∧ ".join(f"({p})" for p in parts)), BOOL

    def call(self, n: ast.Call, par):
        f = n.func
        name = dotted(f)
        plain = not n.keywords and not any(isinstance(a, ast.Starred) for a in n.args)
        if name in ("min", "max") and plain and len(n.args) == 2:
            (a, ta), (b, tb) = self.ex(n.args[0]), self.ex(n.args[1])
            return par(f"py{name.capitalize()} {self.as_int(a, ta, n.args[0])} {self.as_int(b, tb, n.args[1])}"), INT
        if name == "len" and plain and len(n.args) == 1:
            a, ta = self.ex(n.args[0])
            if ta in (SIZE, INTS, DICT, ITEMS, SLICES):
                return par(f"({a}.length : Int)"), INT
            fail(n, f"len of a value of type {ta}")
        if name == "slice" and plain and 1 <= len(n.args) <= 3:
            if len(n.args) == 3 and not (isinstance(n.args[2], ast.Constant) and n.args[2].value in (None, 1)):
                fail(n, "slice with a step")
            if len(n.args) == 1:
                return par(f"PySlice.mk none {self.bound(n.args[0])}"), SLICE
            return par(f"PySlice.mk {self.bound(n.args[0])} {self.bound(n.args[1])}"), SLICE
        if name == "dict" and plain and len(n.args) == 1:
            a, ta = self.ex(n.args[0])
            if ta != ITEMS:
                fail(n, f"dict(<value of type {ta}>)")
            return par(f"pyDict {a}"), DICT
        if name in ("tuple", "list") and plain and len(n.args) == 1:
            a0 = n.args[0]
            if isinstance(a0, (ast.GeneratorExp, ast.ListComp)):
                return self.comprehension(a0, par)
            a, ta = self.ex(a0, top=top_of(par))
            if ta in (SLICES, INTS, SIZE):
                return a, ta
            fail(n, f"{name}(<value of type {ta}>)")
        if isinstance(f, ast.Attribute) and plain and not n.args:
            base, ty = self.ex(f.value)
            if ty == NET and f.attr in ("named_parameters", "named_buffers"):
                return f"{base}.{f.attr}", ITEMS
            if ty == DICT and f.attr == "items":
                return base, ITEMS
            if ty == TENSOR and f.attr == "size":
                return f"{base}.shape", SIZE
        fail(n, f"call of {name or ast.unparse(f)}")

    def comprehension(self, n, par):
        if len(n.generators) != 1:
            fail(n, "comprehension with several generators")
        g = n.generators[0]
        if g.ifs or g.is_async:
            fail(n, "comprehension with a condition")

        def seq(e):
            t, ty = self.ex(e)
            if ty == SIZE:
                return t, NAT
            if ty == INTS:
                return t, INT
            fail(e, f"iteration over a value of type {ty} (a size / a list of ints is supported)")

        def newvar(t, ty):
            if not isinstance(t, ast.Name):
                fail(t, "comprehension target")
            c = f"c{self.ncomp}"
            self.ncomp += 1
            return t.id, c, ty
        it = g.iter
        if isinstance(it, ast.Call) and dotted(it.func) == "zip" and not it.keywords and len(it.args) == 2:
            (a, ea), (b, eb) = seq(it.args[0]), seq(it.args[1])
            if not (isinstance(g.target, ast.Tuple) and len(g.target.elts) == 2):
                fail(g.target, "target of a comprehension over zip (two names are supported)")
            vs = [newvar(g.target.elts[0], ea), newvar(g.target.elts[1], eb)]
            src, pat = f"(List.zip {a} {b})", f"({vs[0][1]}, {vs[1][1]})"
        elif isinstance(it, ast.Call) and dotted(it.func) == "zip":
            fail(it, "zip of other than two sequences")
        else:
            a, ea = seq(it)
            vs = [newvar(g.target, ea)]
            src, pat = a, vs[0][1]
        saved = {py: (self.canon.get(py), self.types.get(py), py in self.defined) for py, _, _ in vs}
        for py, c, ty in vs:
            self.canon[py], self.types[py] = c, ty
            self.defined.add(py)
        nb = len(self.binds)
        elt, te = self.ex(n.elt, top=True)
        if len(self.binds) != nb:
            fail(n.elt, "comprehension element that can raise")
        for py, (c, ty, d) in saved.items():
            if c is None:
                self.canon.pop(py, None)
            else:
                self.canon[py] = c
            if ty is None:
                self.types.pop(py, None)
            else:
                self.types[py] = ty
            if not d:
                self.defined.discard(py)
        if te == SLICE:
            res = SLICES
        elif te in (INT, NAT):
            elt, res = self.as_int(elt, te, n.elt), INTS
        else:
            fail(n.elt, f"comprehension element of type {te} (a slice or an int is supported)")
        return par(f"{src}.map (fun {pat} => {elt})"), res

    # ---------------- statements
    def with_binds(self, build) -> list[str]:
        saved, self.binds = self.binds, []
        lines = build()
        binds, self.binds = self.binds, saved
        for r, txt in reversed(binds):
            lines = [f"match {txt} with", "| none => none", f"| some {r} =>"] + lines
        return lines

    def snapshot(self):
        return (dict(self.types), set(self.defined), self.replaced, dict(self.prov), set(self.stale))

    def restore(self, s):
        self.types, self.defined, self.replaced, self.prov, self.stale = dict(s[0]), set(s[1]), s[2], dict(s[3]), set(s[4])

    def let(self, py: str, ty: str, txt: str) -> str:
        self.types[py] = ty
        self.defined.add(py)
        return f"let {self.canon[py]} : {LEAN_TY[ty]} := {txt}"

    def body_block(self, stmts, k, k_end=None) -> list[str]:
        """statements of a loop body; `k()` = what follows these statements, `k_end()` = the end of the iteration"""
        k_end = k_end or k
        if not stmts:
            return k()
        st, rest = stmts[0], stmts[1:]
        cont = lambda: self.body_block(rest, k, k_end)          # noqa: E731
        if is_docstring(st) or isinstance(st, ast.Pass):
            return cont()
        if isinstance(st, ast.Continue):
            return k_end()
        if isinstance(st, ast.AnnAssign) and st.value is not None:
            st = ast.copy_location(ast.Assign(targets=[st.target], value=st.value), st)
        if isinstance(st, ast.Assign):
            if len(st.targets) != 1:
                fail(st, "chained assignment")
            tg = st.targets[0]
            P = self.loop_tensor
            if isinstance(tg, ast.Name):
                if tg.id in (P, self.loop_key) or tg.id in self.params:
                    fail(st, f"assignment to {tg.id} inside the loop")

                def build():
                    txt, ty = self.ex(st.value, top=True)
                    if ty not in LEAN_TY or ty in (NET, BOOL):
                        fail(st, f"local variable of type {ty}")
                    if ty == DICT:
                        fail(st, "dict built inside the loop")
                    return [self.let(tg.id, ty, txt)] + cont()
                return self.with_binds(build)
            if isinstance(tg, ast.Attribute) and tg.attr == "data" and isinstance(tg.value, ast.Name) and tg.value.id == P:
                def build():
                    txt, ty = self.ex(st.value, top=True)
                    if ty != TENSOR:
                        fail(st, f"{P}.data = <value of type {ty}>")
                    line = self.let(P, TENSOR, txt)
                    self.replaced = True
                    return [line] + cont()
                return self.with_binds(build)
            if isinstance(tg, ast.Subscript):
                b = tg.value
                if isinstance(b, ast.Attribute) and b.attr == "data":
                    b = b.value
                if not (isinstance(b, ast.Name) and b.id == P):
                    fail(st, "subscript assignment to other than the loop's tensor")
                if self.replaced:
                    fail(st, f"slice assignment into {P} after `{P}.data = …` (writes into shared storage)")

                def build():
                    v, tv = self.ex(st.value)          # right-hand side first
                    if tv != VIEW:
                        fail(st, f"{P}[…] = <value of type {tv}> (a view `t[slices]` is supported)")
                    idx = self.slices_of(tg.slice)
                    self.types[P] = TENSOR
                    return [f"match pySetItem {self.canon[P]} {idx} {v} with", "| none => none",
                            f"| some {self.canon[P]} =>"] + cont()
                return self.with_binds(build)
            fail(st, f"assignment target {ast.unparse(tg)}")
        if isinstance(st, ast.If):
            def build():
                c, ty = self.ex(st.test, top=True)
                if ty != BOOL:
                    fail(st, "if <non-boolean>")
                s = self.snapshot()
                a = self.body_block(list(st.body), cont, k_end)
                self.restore(s)
                b = self.body_block(list(st.orelse), cont, k_end)
                self.restore(s)
                return [f"if {c} then"] + ind(a) + ["else"] + ind(b)
            return self.with_binds(build)
        if isinstance(st, ast.Expr) and isinstance(st.value, ast.Call):
            fail(st, f"call of {ast.unparse(st.value.func)} as a statement in the loop body")
        fail(st, f"{type(st).__name__} in the loop body")

    def free_vars(self, loop: ast.For) -> list[str]:
        own = {n.id for n in ast.walk(loop.target) if isinstance(n, ast.Name)}
        seen = []
        for st in loop.body:
            for n in ast.walk(st):
                if isinstance(n, ast.Name) and isinstance(n.ctx, ast.Load) and n.id in self.defined \
                        and n.id not in own and n.id not in seen:
                    seen.append(n.id)
        return sorted(seen, key=lambda v: (self.canon[v][0], int(self.canon[v][1:])))

    def loop(self, st: ast.For, cont) -> list[str]:
        if st.orelse:
            fail(st, "for … else")
        tg = st.target
        if not (isinstance(tg, ast.Tuple) and len(tg.elts) == 2 and all(isinstance(e, ast.Name) for e in tg.elts)):
            fail(st, "loop target (two names `key, tensor` are supported)")
        kname, pname = tg.elts[0].id, tg.elts[1].id
        # what is iterated, and which network its tensors belong to
        it = st.iter
        target_net = field = dict_local = None
        if isinstance(it, ast.Call) and isinstance(it.func, ast.Attribute) and not it.args and not it.keywords:
            b = it.func.value
            if it.func.attr == "items" and isinstance(b, ast.Name) and self.types.get(b.id) == DICT:
                pv = self.prov.get(b.id, frozenset())
                if len(pv) != 1:
                    fail(st, f"loop over a dict whose tensors belong to {len(pv)} networks")
                dict_local, target_net = b.id, next(iter(pv))
            elif it.func.attr in ("named_parameters", "named_buffers") and isinstance(b, ast.Name) \
                    and self.types.get(b.id) == NET:
                target_net, field = b.id, it.func.attr
        if target_net is None:
            fail(st, "loop iterable (d.items() / net.named_parameters() / net.named_buffers() are supported)")
        items, _ = self.ex(it, top=True)
        free = self.free_vars(st)
        k = self.nloop
        self.nloop += 1
        body_name, loop_name = f"{self.qual}_body{k}", f"{self.qual}_loop{k}"
        s = self.snapshot()
        self.loop_key, self.loop_tensor, self.replaced = kname, pname, False
        self.types[kname], self.types[pname] = STR, TENSOR
        self.defined |= {kname, pname}
        ck, cp = self.canon[kname], self.canon[pname]
        body = self.body_block(list(st.body), lambda: [f"some {self.canon[pname]}"])
        self.restore(s)
        self.loop_key = self.loop_tensor = None
        decl = "".join(f" ({self.canon[v]} : {LEAN_TY[self.types[v]]})" for v in free)
        args = "".join(f" {self.canon[v]}" for v in free)
        self.defs.append([
            f"/-- one iteration of loop {k} of `{self.qual}`: the tensor afterwards (`none` = raises) -/",
            f"def {body_name}{decl} ({ck} : String) ({cp} : PyTensor α) : Option (PyTensor α) :=",
        ] + ind(body) + [""])
        self.defs.append([
            f"/-- loop {k} of `{self.qual}` -/",
            f"def {loop_name}{decl} : List (String × PyTensor α) → Option (List (String × PyTensor α))",
            "  | [] => some []",
            f"  | ({ck}, {cp}) :: rest =>",
            f"    match {body_name}{args} {ck} {cp} with",
            "    | none => none",
            f"    | some {cp} =>",
            f"      match {loop_name}{args} rest with",
            "      | none => none",
            f"      | some out => some (({ck}, {cp}) :: out)",
            ""])
        cn = self.canon[target_net]
        lines = [f"match {loop_name}{args} {items} with", "| none => none"]
        if dict_local is not None:
            cd = self.canon[dict_local]
            lines += [f"| some {cd} =>", f"let {cn} : PyNet α := pyStore {cn} {cd}"]
            for d, pv in self.prov.items():
                if d != dict_local and target_net in pv:
                    self.stale.add(d)
        else:
            r = self.fresh()
            lines += [f"| some {r} =>", f"let {cn} : PyNet α := {{ {cn} with {field} := {r} }}"]
            for d, pv in self.prov.items():
                if target_net in pv:
                    self.stale.add(d)
        return lines + cont()

    def top_block(self, stmts) -> list[str]:
        if not stmts:
            fail(self.fn, f"{self.qual}: the end is reached without `return`")
        st, rest = stmts[0], stmts[1:]
        cont = lambda: self.top_block(rest)          # noqa: E731
        if is_docstring(st) or isinstance(st, ast.Pass):
            return cont()
        if isinstance(st, ast.Return):
            if rest:
                fail(rest[0], "statement after return")
            if not (isinstance(st.value, ast.Name) and self.types.get(st.value.id) == NET):
                fail(st, "return of other than a network parameter")
            return [f"some {self.canon[st.value.id]}"]
        if isinstance(st, ast.AnnAssign) and st.value is not None:
            st = ast.copy_location(ast.Assign(targets=[st.target], value=st.value), st)
        if isinstance(st, ast.Assign):
            if len(st.targets) != 1 or not isinstance(st.targets[0], ast.Name):
                fail(st, "assignment target (a local name is supported)")
            tg = st.targets[0].id
            if tg in self.params:
                fail(st, f"assignment to the parameter {tg}")

            def build():
                txt, ty = self.ex(st.value, top=True)
                if ty not in LEAN_TY or ty in (NET, BOOL, TENSOR, VIEW):
                    fail(st, f"local variable of type {ty}")
                if ty == DICT:
                    self.prov[tg] = self.items_prov(st.value)
                    self.stale.discard(tg)
                return [self.let(tg, ty, txt)] + cont()
            return self.with_binds(build)
        if isinstance(st, ast.Expr) and isinstance(st.value, ast.Call):
            c = st.value
            if isinstance(c.func, ast.Attribute) and c.func.attr == "update" and isinstance(c.func.value, ast.Name) \
                    and self.types.get(c.func.value.id) == DICT and len(c.args) == 1 and not c.keywords:
                d = c.func.value.id

                def build():
                    dtxt, _ = self.ex(c.func.value)
                    txt, ty = self.ex(c.args[0])
                    if ty not in (ITEMS, DICT):
                        fail(st, f"update(<value of type {ty}>)")
                    self.prov[d] = self.prov.get(d, frozenset()) | self.items_prov(c.args[0])
                    return [self.let(d, DICT, f"pyUpdate {dtxt} {txt}")] + cont()
                return self.with_binds(build)
            fail(st, f"call of {ast.unparse(c.func)} as a statement")
        if isinstance(st, ast.For):
            return self.loop(st, cont)
        fail(st, f"{type(st).__name__} at the top level of {self.qual}")

    def items_prov(self, e) -> frozenset:
        """the network parameters whose tensor objects an items / dict expression holds"""
        out = set()
        for n in ast.walk(e):
            if isinstance(n, ast.Name) and isinstance(n.ctx, ast.Load):
                if self.types.get(n.id) == NET:
                    out.add(n.id)
                elif self.types.get(n.id) == DICT:
                    out |= self.prov.get(n.id, frozenset())
        return frozenset(out)

    def run(self) -> list[str]:
        self.signature()
        self.collect_locals()
        body = self.top_block([s for s in self.fn.body])
        params = " ".join(self.canon[p] for p in self.params)
        out = []
        for d in self.defs:
            out += d
        out += [f"/-- `{self.qual}` -/",
                f"def {self.qual} ({params} : PyNet α) : Option (PyNet α) :="] + ind(body) + [""]
        return out


def top_of(par) -> bool:
    return par("x") == "x"


# ---------------------------------------------------------------------------------------------- wire functions
BOOKKEEPING_ATTRS = ("_layer_mutation_methods", "_node_mutation_methods")
NEUTRAL_METHODS = ("disable_mutations",)
# wire target -> network attributes of self it must assign (in this order) / whether it returns a network
WIRE_SPEC = {
    "EvolvableModule.clone": ((), True),
    "EvolvableCNN.recreate_network": (("model",), False),
    "EvolvableMultiInput.recreate_network": (("feature_net", "final_dense"), False),
    "EvolvableNetwork.recreate_encoder": (("encoder",), False),
    "Mutations.reinit_from_mutated": ((), True),
}


class Val:
    """value of a local of a wire function"""

    def __init__(self, kind, txt=None, extra=None):
        self.kind, self.txt, self.extra = kind, txt, extra      # kind: net | ctor | fn | bool | opaque | poison


class Wire:
    def __init__(self, cls: str, fn: ast.FunctionDef, carry_sigs: dict[str, list[str]]):
        self.cls, self.fn, self.carry_sigs = cls, fn, carry_sigs
        self.qual = f"{cls}.{fn.name}"
        self.fields, self.returns = WIRE_SPEC[self.qual]
        self.carry_by_name = {q.split(".")[-1]: q for q in carry_sigs}
        self.env: dict[str, Val] = {}
        self.state: dict[str, str] = {}        # self.<f> -> current lean text
        self.assigned: list[str] = []
        self.inputs: list[tuple[str, str]] = []      # (lean name, lean type) in order of first use
        self.nfresh = 0
        self.nbind = 0
        self.in_try = False
        self.construct_only = 0
        self.net_params: set[str] = set()

    # ---------------- inputs
    def input(self, name: str, ty: str) -> str:
        if (name, ty) not in self.inputs:
            self.inputs.append((name, ty))
        return name

    def fresh_net(self) -> str:
        n = f"new{self.nfresh}"
        self.nfresh += 1
        return self.input(n, "PyNet α")

    def signature(self):
        fn = self.fn
        if fn.decorator_list:
            fail(fn, f"decorator on {self.qual}")
        a = fn.args
        if a.vararg or a.kwarg or a.kwonlyargs or a.posonlyargs or not a.args or a.args[0].arg != "self":
            fail(fn, f"parameter list of {self.qual}")
        k = 0
        for p in a.args[1:]:
            if dotted(p.annotation) == "bool":
                self.env[p.arg] = Val("bool", f"a{k}")
                self.bool_inputs.append((f"a{k}", "Bool"))
            else:
                self.env[p.arg] = Val("param", f"a{k}")
            k += 1

    # ---------------- classification
    def mentions_net(self, e) -> bool:
        for n in ast.walk(e):
            if isinstance(n, ast.Name) and isinstance(n.ctx, ast.Load) and n.id in self.env \
                    and self.env[n.id].kind in ("net", "fn", "poison"):
                return True
            if isinstance(n, ast.Call):
                if self.carry_ref(n.func) is not None:
                    return True
                if isinstance(n.func, ast.Attribute) and n.func.attr in ("load_state_dict", "state_dict"):
                    return True
        return False

    def carry_ref(self, f):
        """`EvolvableModule.preserve_parameters` / `self.shrink_preserve_parameters` -> generated name"""
        if isinstance(f, ast.Attribute) and f.attr in self.carry_by_name and isinstance(f.value, ast.Name):
            q = self.carry_by_name[f.attr]
            if f.value.id in ("self", "cls", q.split(".")[0]):
                return q
            fail(f, f"{ast.unparse(f)}: a carry function reached through {f.value.id}")
        return None

    def net(self, e, what: str) -> str:
        """lean text of an expression in a network position"""
        if isinstance(e, ast.Name):
            if e.id == "self":
                return self.input("self_net", "PyNet α")
            v = self.env.get(e.id)
            if v is None:
                fail(e, f"name {e.id} ({what}) is not assigned before on every path")
            if v.kind == "net":
                return v.txt
            if v.kind == "ctor":
                if self.construct_only:
                    fail(e, "network operation under a condition that is not translated")
                v.kind, v.txt = "net", self.fresh_net()
                return v.txt
            if v.kind == "param":
                self.net_params.add(e.id)
                v.kind = "net"
                self.input(v.txt, "PyNet α")
                return v.txt
            fail(e, f"{e.id} ({what}) is not a network here ({v.kind})")
        if isinstance(e, ast.Attribute) and isinstance(e.value, ast.Name) and e.value.id == "self":
            if e.attr not in self.state:
                self.state[e.attr] = self.input(f"self_{e.attr}", "PyNet α")
            return self.state[e.attr]
        fail(e, f"{ast.unparse(e)} ({what}): a local, self or self.<attribute> is supported")

    def bind(self) -> str:
        r = f"r{self.nbind}"
        self.nbind += 1
        return r

    # ---------------- carry calls
    def carry_call(self, c: ast.Call, lines: list[str]) -> str:
        """appends the fallible call to `lines`, returns the bound name"""
        f = c.func
        targets = []      # (condition text or None, generated name)
        q = self.carry_ref(f)
        if q is not None:
            targets = [(None, q)]
        elif isinstance(f, ast.Name) and f.id in self.env and self.env[f.id].kind == "fn":
            cond, qa, qb = self.env[f.id].extra
            targets = [(cond, qa), (None, qb)]
        else:
            fail(c, f"call of {ast.unparse(f)}")
        if any(isinstance(a, ast.Starred) for a in c.args) or any(kw.arg is None for kw in c.keywords):
            fail(c, "starred arguments of a carry function")

        def args_for(q):
            names = self.carry_sigs[q]
            vals: dict[str, ast.expr] = {}
            if len(c.args) > len(names):
                fail(c, f"too many arguments of {q}")
            for nm, a in zip(names, c.args):
                vals[nm] = a
            for kw in c.keywords:
                if kw.arg not in names or kw.arg in vals:
                    fail(c, f"keyword argument {kw.arg} of {q}")
                vals[kw.arg] = kw.value
            if set(vals) != set(names):
                fail(c, f"missing argument of {q}")
            return " ".join(self.net(vals[nm], f"argument {nm} of {q}") for nm in names)
        if self.construct_only:
            fail(c, "network operation under a condition that is not translated")
        if len(targets) == 1:
            txt = f"{targets[0][1]} {args_for(targets[0][1])}"
        else:
            txt = f"(if {targets[0][0]} then {targets[0][1]} {args_for(targets[0][1])} else {targets[1][1]} {args_for(targets[1][1])})"
        r = self.bind()
        lines += [f"match {txt} with", "| none => none", f"| some {r} =>"]
        return r

    # ---------------- statements
    def snapshot(self):
        return ({k: Val(v.kind, v.txt, v.extra) for k, v in self.env.items()}, dict(self.state), list(self.assigned))

    def restore(self, s):
        self.env = {k: Val(v.kind, v.txt, v.extra) for k, v in s[0].items()}
        self.state, self.assigned = dict(s[1]), list(s[2])

    def result(self) -> list[str]:
        if self.returns:
            fail(self.fn, f"{self.qual}: a path ends without returning a network")
        missing = [f for f in self.fields if f not in self.assigned]
        if missing:
            fail(self.fn, f"{self.qual}: a path does not assign self.{missing[0]}")
        vals = [self.state[f] for f in self.fields]
        return ["some " + (vals[0] if len(vals) == 1 else "(" + ", ".join(vals) + ")")]

    def bool_test(self, t):
        """a test over bool parameters -> lean text, or None"""
        if isinstance(t, ast.Name) and t.id in self.env and self.env[t.id].kind == "bool":
            self.input(self.env[t.id].txt, "Bool")
            return f"{self.env[t.id].txt} = true"
        if isinstance(t, ast.UnaryOp) and isinstance(t.op, ast.Not):
            inner = self.bool_test(t.operand)
            return None if inner is None else f"¬ ({inner})"
        return None

    def block(self, stmts) -> list[str]:
        if not stmts:
            return self.result()
        st, rest = stmts[0], list(stmts[1:])

        def cont():
            return self.block(rest)
        cont.rest = rest
        if is_docstring(st) or isinstance(st, ast.Pass):
            return cont()
        if isinstance(st, ast.Return):
            if rest:
                fail(rest[0], "statement after return")
            if st.value is None or (isinstance(st.value, ast.Constant) and st.value.value is None):
                return self.result()
            if not self.returns:
                fail(st, f"{self.qual} returns a value")
            return [f"some {self.net(st.value, 'returned value')}"]
        if isinstance(st, ast.AnnAssign) and st.value is not None:
            st = ast.copy_location(ast.Assign(targets=[st.target], value=st.value), st)
        if isinstance(st, ast.Assign):
            if len(st.targets) != 1:
                fail(st, "chained assignment")
            return self.assign(st, st.targets[0], cont)
        if isinstance(st, ast.AugAssign):
            if self.mentions_net(st.value) or (isinstance(st.target, ast.Name) and st.target.id in self.env
                                               and self.env[st.target.id].kind != "opaque"):
                fail(st, "augmented assignment involving a network")
            return ["-- (a statement that touches no tensor)"] + cont()
        if isinstance(st, ast.Expr) and isinstance(st.value, ast.Call):
            return self.call_stmt(st, st.value, cont)
        if isinstance(st, ast.If):
            return self.if_stmt(st, cont)
        if isinstance(st, ast.Try):
            return self.try_stmt(st, cont)
        if isinstance(st, ast.For):
            self.check_bookkeeping_loop(st)
            return ["-- (a loop that only copies the lists of enabled mutation methods)"] + cont()
        fail(st, f"{type(st).__name__} in {self.qual}")

    def assign(self, st, tg, cont) -> list[str]:
        v = st.value
        if isinstance(tg, ast.Name):
            if tg.id in self.env and self.env[tg.id].kind in ("bool", "param") and tg.id not in self.net_params \
                    and not self.mentions_net(v) and not isinstance(v, ast.Call):
                self.env[tg.id] = Val("opaque")
                return ["-- (a statement that touches no tensor)"] + cont()
            if isinstance(v, ast.Call) and (self.carry_ref(v.func) is not None or
                                            (isinstance(v.func, ast.Name) and v.func.id in self.env
                                             and self.env[v.func.id].kind == "fn")):
                lines: list[str] = []
                r = self.carry_call(v, lines)
                self.env[tg.id] = Val("net", r)
                return lines + cont()
            if isinstance(v, ast.IfExp):
                qa, qb = self.carry_ref(v.body), self.carry_ref(v.orelse)
                if qa is not None and qb is not None:
                    c = self.bool_test(v.test)
                    if c is None:
                        fail(v, "choice between carry functions on other than a bool parameter")
                    self.env[tg.id] = Val("fn", None, (c, qa, qb))
                    return cont()
                if qa is not None or qb is not None:
                    fail(v, "conditional expression mixing a carry function and something else")
            if isinstance(v, ast.Name) and v.id in self.env and self.env[v.id].kind in ("net", "ctor", "fn"):
                self.env[tg.id] = self.env[v.id]          # alias
                return cont()
            if isinstance(v, ast.Call) and not self.mentions_net_ops(v):
                self.env[tg.id] = Val("ctor")
                return ["-- (a call that may construct a network: a fresh network `new<k>` if it is used as one)"] + cont()
            if self.mentions_net(v):
                fail(st, f"{tg.id} = {ast.unparse(v)[:60]}: an expression over networks outside the subset")
            self.env[tg.id] = Val("opaque")
            return ["-- (a statement that touches no tensor)"] + cont()
        if isinstance(tg, ast.Attribute) and isinstance(tg.value, ast.Name):
            base = tg.value.id
            if base == "self":
                if tg.attr in self.fields:
                    if isinstance(v, ast.Call) and not (isinstance(v.func, ast.Attribute) and v.func.attr == "state_dict"):
                        if self.carry_ref(v.func) is not None or (isinstance(v.func, ast.Name) and v.func.id in self.env
                                                                  and self.env[v.func.id].kind == "fn"):
                            lines = []
                            r = self.carry_call(v, lines)
                        else:
                            if self.mentions_net_ops(v):
                                fail(st, "an expression over networks outside the subset")
                            if self.construct_only:
                                fail(st, "network operation under a condition that is not translated")
                            lines, r = ["-- (a constructor call: a fresh network)"], self.fresh_net()
                    else:
                        lines, r = [], self.net(v, f"value of self.{tg.attr}")
                    if self.construct_only:
                        fail(st, "network operation under a condition that is not translated")
                    self.state[tg.attr] = r
                    if tg.attr not in self.assigned:
                        self.assigned.append(tg.attr)
                    return lines + cont()
                if self.mentions_net(v) or tg.attr in self.state:
                    fail(st, f"self.{tg.attr} = <network expression> (not a network attribute of {self.qual})")
                return ["-- (a statement that touches no tensor)"] + cont()
            if base in self.env and self.env[base].kind in ("net", "ctor") and tg.attr in BOOKKEEPING_ATTRS \
                    and not self.mentions_net_call(v):
                return [f"-- (the list of enabled mutation methods is copied)"] + cont()
            if base in self.env and self.env[base].kind == "opaque" and not self.mentions_net(v):
                return ["-- (a statement that touches no tensor)"] + cont()
            fail(st, f"assignment to {ast.unparse(tg)}")
        if isinstance(tg, ast.Subscript) and isinstance(tg.value, ast.Name) and tg.value.id in self.env \
                and self.env[tg.value.id].kind == "opaque" and not self.mentions_net(v):
            return ["-- (a statement that touches no tensor)"] + cont()
        fail(st, f"assignment target {ast.unparse(tg)}")

    PURE_COPIES = ("list", "tuple", "copy.copy", "copy.deepcopy")

    def mentions_net_call(self, e) -> bool:
        """any call other than a pure copy of a container (`list(x)`, `copy.copy(x)` …), which touches no tensor"""
        for n in ast.walk(e):
            if isinstance(n, ast.Call) and not (dotted(n.func) in self.PURE_COPIES and len(n.args) == 1 and not n.keywords):
                return True
        return False

    def load_call(self, c: ast.Call):
        """`X.load_state_dict(Y.state_dict()[, strict=…])` -> (X expr, Y expr, strict text) or None"""
        f = c.func
        if not (isinstance(f, ast.Attribute) and f.attr == "load_state_dict"):
            return None
        strict = "true"
        for kw in c.keywords:
            if kw.arg == "strict" and isinstance(kw.value, ast.Constant) and type(kw.value.value) is bool:
                strict = "true" if kw.value.value else "false"
            else:
                fail(c, f"keyword argument {kw.arg} of load_state_dict")
        args = list(c.args)
        if len(args) == 2 and isinstance(args[1], ast.Constant) and type(args[1].value) is bool and not c.keywords:
            strict = "true" if args[1].value else "false"
            args = args[:1]
        if len(args) != 1:
            fail(c, "arguments of load_state_dict")
        sd = args[0]
        if not (isinstance(sd, ast.Call) and isinstance(sd.func, ast.Attribute) and sd.func.attr == "state_dict"
                and not sd.args and not sd.keywords):
            fail(c, "load_state_dict(<other than y.state_dict()>)")
        return f.value, sd.func.value, strict

    def rebind_net(self, e, txt: str):
        if isinstance(e, ast.Name) and e.id != "self":
            self.env[e.id] = Val("net", txt)
        elif isinstance(e, ast.Attribute) and isinstance(e.value, ast.Name) and e.value.id == "self" \
                and e.attr in self.fields:
            self.state[e.attr] = txt
        else:
            fail(e, f"load_state_dict into {ast.unparse(e)} (a local or a network attribute assigned by {self.qual})")

    def call_stmt(self, st, c: ast.Call, cont) -> list[str]:
        ld = self.load_call(c)
        if ld is not None:
            if self.construct_only:
                fail(st, "network operation under a condition that is not translated")
            x, y, strict = ld
            ytxt = self.net(y, "source of load_state_dict")
            xtxt = self.net(x, "target of load_state_dict")
            r = self.bind()
            lines = [f"let {r} := pyLoadStateDict {strict} {xtxt} (pyStateDict {ytxt})"]
            r2 = self.bind()
            if self.in_try:
                lines += [f"let {r2} : PyNet α := {r}.1          -- RuntimeError swallowed: the state after the partial load"]
                self.rebind_net(x, r2)
                return lines + cont()
            lines += [f"if {r}.2 = true then none else", f"let {r2} : PyNet α := {r}.1"]
            self.rebind_net(x, r2)
            return lines + cont()
        f = c.func
        if isinstance(f, ast.Attribute) and isinstance(f.value, ast.Name) and f.value.id in self.env \
                and self.env[f.value.id].kind in ("net", "ctor") and f.attr in NEUTRAL_METHODS \
                and not any(self.mentions_net(a) for a in list(c.args) + [k.value for k in c.keywords]):
            return [f"-- (`.{f.attr}(…)`: no tensor is touched)"] + cont()
        fail(st, f"call of {ast.unparse(f)} as a statement")

    def try_stmt(self, st: ast.Try, cont) -> list[str]:
        ok = not st.orelse and not st.finalbody and len(st.handlers) == 1 \
            and dotted(st.handlers[0].type) == "RuntimeError" and st.handlers[0].name is None \
            and all(isinstance(b, ast.Pass) for b in st.handlers[0].body)
        if not ok:
            fail(st, "try statement other than `try: … except RuntimeError: pass`")
        for b in st.body:
            if not (isinstance(b, ast.Expr) and isinstance(b.value, ast.Call) and self.load_call(b.value) is not None):
                fail(b, "statement in a try block (load_state_dict calls are supported)")
        if len(st.body) != 1:
            fail(st, "try block with several statements (a raise skips the later ones)")
        self.in_try = True
        try:
            return self.block_try(st.body, cont)
        finally:
            self.in_try = False

    def block_try(self, body, cont):
        lines = self.call_stmt(body[0], body[0].value, lambda: ["«CONT»"])
        assert lines[-1] == "«CONT»"
        self.in_try = False
        return lines[:-1] + cont()

    def if_stmt(self, st: ast.If, cont) -> list[str]:
        t = st.test
        # static type dispatch on a network parameter
        if isinstance(t, ast.Call) and dotted(t.func) == "isinstance" and len(t.args) == 2 \
                and isinstance(t.args[0], ast.Name) and t.args[0].id in self.env \
                and self.env[t.args[0].id].kind in ("param", "net") and dotted(t.args[1]) == "list":
            self.net(t.args[0], "subject of isinstance")
            return [f"-- `isinstance({self.env[t.args[0].id].txt}, list)` is False for a single network: the else branch"] \
                + self.block(list(st.orelse) + list(stmts_after(cont)))
        c = self.bool_test(t)
        if c is not None:
            s = self.snapshot()
            a = self.block(list(st.body) + list(stmts_after(cont)))
            self.restore(s)
            b = self.block(list(st.orelse) + list(stmts_after(cont)))
            return [f"if {c} then"] + ind(a) + ["else"] + ind(b)
        # a condition outside the subset: the branches may only construct
        if self.mentions_net(t):
            fail(st, "condition over networks")
        before = self.snapshot()
        outs = []
        for branch in (st.body, st.orelse):
            self.restore(before)
            self.construct_only += 1
            try:
                self.block_construct(list(branch))
            finally:
                self.construct_only -= 1
            outs.append(self.snapshot())
        self.restore(before)
        for nm in sorted(set(outs[0][0]) | set(outs[1][0])):
            in_a, in_b = self.assigned_in_branch(nm, st.body), self.assigned_in_branch(nm, st.orelse)
            if not (in_a or in_b):
                continue
            kinds = [o[0][nm].kind if nm in o[0] else None for o in outs]
            if in_a and in_b and kinds == ["ctor", "ctor"]:
                self.env[nm] = Val("ctor")
            elif in_a and in_b and kinds == ["opaque", "opaque"]:
                self.env[nm] = Val("opaque")
            else:
                self.env[nm] = Val("poison")
        return ["-- (a condition outside the subset; its branches only construct: one fresh network per local built in both)"] + cont()

    def assigned_in_branch(self, nm: str, branch) -> bool:
        return any(isinstance(n, ast.Name) and isinstance(n.ctx, ast.Store) and n.id == nm
                   for s in branch for n in ast.walk(s))

    def block_construct(self, stmts):
        """statements under an untranslated condition: nothing here may touch a network's tensors"""
        for st in stmts:
            if isinstance(st, ast.Return):
                fail(st, "return under a condition that is not translated")
            self.block_one(st)

    def block_one(self, st):
        saved_result = self.result
        self.result = lambda: []          # the end of a branch is not the end of the function
        try:
            return self.block([st])
        finally:
            self.result = saved_result

    def check_bookkeeping_loop(self, st: ast.For):
        """a loop that only does `setattr(module, <one of BOOKKEEPING_ATTRS>, …)`"""
        attr_vars: set[str] = set()
        for n in ast.walk(st):
            if isinstance(n, ast.For):
                if n.orelse:
                    fail(n, "for … else")
                if isinstance(n.iter, (ast.List, ast.Tuple)) and n.iter.elts and isinstance(n.target, ast.Name) and all(
                        isinstance(e, ast.Constant) and e.value in BOOKKEEPING_ATTRS for e in n.iter.elts):
                    attr_vars.add(n.target.id)
        for n in ast.walk(st):
            if isinstance(n, ast.stmt) and not isinstance(n, (ast.For, ast.If, ast.Assign, ast.Expr, ast.Pass)):
                fail(n, f"{type(n).__name__} in a loop of {self.qual}")
            if isinstance(n, ast.Assign):
                for t in n.targets:
                    if not isinstance(t, ast.Name):
                        fail(n, f"assignment to {ast.unparse(t)} in a loop of {self.qual}")
            if isinstance(n, ast.Call):
                name = dotted(n.func)
                if name == "setattr":
                    ok = len(n.args) == 3 and ((isinstance(n.args[1], ast.Name) and n.args[1].id in attr_vars) or (
                        isinstance(n.args[1], ast.Constant) and n.args[1].value in BOOKKEEPING_ATTRS))
                    if not ok:
                        fail(n, "setattr of other than the lists of enabled mutation methods")
                elif name == "getattr":
                    pass
                elif isinstance(n.func, ast.Attribute) and n.func.attr in ("modules", "items", "keys", "values") and not n.args:
                    pass
                else:
                    fail(n, f"call of {name or ast.unparse(n.func)} in a loop of {self.qual}")
        if self.mentions_net_ops(st):
            fail(st, f"network operation in a loop of {self.qual}")

    def mentions_net_ops(self, st) -> bool:
        for n in ast.walk(st):
            if isinstance(n, ast.Call):
                if self.carry_ref(n.func) is not None:
                    return True
                if isinstance(n.func, ast.Attribute) and n.func.attr in ("load_state_dict", "state_dict", "copy_"):
                    return True
            if isinstance(n, ast.Attribute) and n.attr == "data":
                return True
        return False

    def run(self) -> list[str]:
        self.bool_inputs: list[tuple[str, str]] = []
        self.signature()
        body = self.block([s for s in self.fn.body])
        def keyf(nt):
            n = nt[0]
            grp = 0 if n.startswith("self_") else (2 if n.startswith("new") else 1)
            return (grp, self.inputs.index(nt) if grp != 1 else int(n[1:]))
        ins = sorted(self.inputs, key=keyf)
        decl = "".join(f" ({n} : {t})" for n, t in ins)
        nout = 1 if self.returns else len(self.fields)
        rt = "PyNet α" if nout == 1 else " × ".join(["PyNet α"] * nout)
        what = "the returned network" if self.returns else "the new " + ", ".join(f"self.{f}" for f in self.fields)
        return [f"/-- `{self.qual}`: {what} (`none` = raises) -/",
                f"def {self.qual}{decl} : Option ({rt}) :="] + ind(body) + [""]


def stmts_after(cont):
    """the statements a continuation stands for (set by Wire.block through a closure attribute)"""
    return getattr(cont, "rest", [])


# ---------------------------------------------------------------------------------------------- driver
def repo_dir(arg: str | None = None) -> Path:
    if arg:
        return Path(arg)
    return Path(os.environ.get("VERIF_REPO", "/repo"))


def translate(repo: Path) -> tuple[str, str]:
    """returns (lean text, sha256 over all source files); raises Unsupported"""
    h = hashlib.sha256()
    mods: dict[str, ast.Module] = {}
    for rel in REL_SOURCES:
        path = Path(repo) / rel
        try:
            raw = path.read_bytes()
        except OSError as e:
            raise Unsupported(f"cannot read {path}: {e}") from e
        h.update(rel.encode() + b"\0" + raw + b"\0")
        try:
            mods[rel] = ast.parse(raw.decode("utf-8"))
        except UnicodeDecodeError as e:
            raise Unsupported(f"{rel}: not utf-8: {e}") from e
        except SyntaxError as e:
            raise Unsupported(f"{rel}:{e.lineno}: not parseable: {e.msg}") from e
    sha = h.hexdigest()
    body: list[str] = []
    carry_sigs: dict[str, list[str]] = {}        # qualified name -> python parameter names
    try:
        for rel, cls, name, kind in TARGETS:
            _current_file[0] = rel
            fn = find_function(mods[rel], rel, cls, name)
            body += [f"/-! ### `{cls}.{name}` ({rel}) -/", ""]
            if kind == "carry":
                c = Carry(cls, fn)
                body += c.run()
                carry_sigs[c.qual] = list(c.params)
            else:
                body += Wire(cls, fn, carry_sigs).run()
    except RecursionError as e:
        raise Unsupported(f"{_current_file[0]}: nesting too deep") from e
    finally:
        _current_file[0] = REL_SOURCE
    header = "\n".join([
        "/-",
        "  Gen/PreserveGen.lean — GENERATED by harness/py2lean_preserve.py from the weight-carry-over functions",
        "  " + ", ".join(f"{c}.{f}" for _, c, f, _ in TARGETS),
        "  (" + ", ".join(REL_SOURCES) + ");",
        "  do not edit.  Core Lean only.  `Proofs/PreserveGenEq.lean` proves each definition equal to its counterpart",
        "  in `Model/Preserve.lean`.",
        "-/",
        SHA_PREFIX + sha,
        "set_option linter.unusedVariables false",
        "",
        "namespace PreserveGen",
        "",
        "section",
        "variable {α : Type}",
    ])
    text = header + "\n" + PRELUDE + "\n" + "\n".join(body).rstrip() + "\n\nend\n\nend PreserveGen\n"
    return text, sha


def strip_sha(text: str) -> str:
    return "\n".join(ln for ln in text.split("\n") if not ln.startswith(SHA_PREFIX))


def write_if_changed(text: str, out: Path, force: bool = False) -> bool:
    """writes `text` unless the file already holds the same translation (sha line ignored)"""
    out = Path(out)
    old = out.read_text() if out.exists() else None
    if old is not None and not force and strip_sha(old) == strip_sha(text):
        return False
    if old == text:
        return False
    out.parent.mkdir(parents=True, exist_ok=True)
    tmp = out.with_suffix(".lean.tmp")
    tmp.write_text(text)
    os.replace(tmp, out)
    return True


def main(argv: list[str]) -> int:
    import argparse
    ap = argparse.ArgumentParser()
    ap.add_argument("--repo", default=None)
    ap.add_argument("--out", default=str(DEFAULT_OUT))
    ap.add_argument("--stdout", action="store_true")
    ap.add_argument("--force", action="store_true", help="rewrite even if only the sha256 line differs")
    a = ap.parse_args(argv)
    try:
        text, sha = translate(repo_dir(a.repo))
    except Unsupported as e:
        print(f"py2lean_preserve: {e}", file=sys.stderr)
        return 1
    if a.stdout:
        sys.stdout.write(text)
        return 0
    changed = write_if_changed(text, Path(a.out), a.force)
    print(f"{a.out}: {'written' if changed else 'unchanged'} (source sha256 {sha[:16]}…, "
          f"translation sha256 {hashlib.sha256(strip_sha(text).encode()).hexdigest()[:16]}…)")
    return 0


if __name__ == "__main__":
    sys.exit(main(sys.argv[1:]))
