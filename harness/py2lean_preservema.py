#!/usr/bin/env python3
"""
py2lean_preservema.py — translate (a) the LIST branch of the weight plumbing of `agilerl/hpo/mutation.py`
(multi-agent algorithms keep one network per sub-agent in a list) and (b) the mutation DECORATOR machinery of
`agilerl/modules/base.py` into Lean 4.

    python3 harness/py2lean_preservema.py [--repo DIR] [--out FILE] [--stdout] [--force]

Reads the *source text* only (Python `ast`; agilerl is never imported) of

    agilerl/hpo/mutation.py    Mutations.load_state_dicts                       (the loop over zip(modules, state_dicts))
                               Mutations.reinit_from_mutated                    (the `isinstance(offspring, list)` branch)
                               Mutations._apply_arch_mutation                   (the `isinstance(networks, list)` branch)
                               get_offspring_eval_modules                       (the clone expression, list branch)
    agilerl/modules/base.py    MutationContext.{__init__, __enter__, __exit__, _resolve_final_mutation_attr}
                               _mutation_wrapper.wrapped                        (the `with MutationContext(...)` body)

and writes lean/Gen/PreserveMaGen.lean (namespace PreserveMaGen, core Lean only, imports Gen.PreserveGen whose
`PyNet`, `pyStateDict`, `pyLoadStateDict`, `EvolvableModule.clone` it calls: the two ties compose).
`Proofs/PreserveMaGenEq.lean` proves every generated definition equal to its counterpart in `Model/Preserve.lean`
(`loadList`, `reinitList`, `applyList`, `cloneList`, `Deco.enter / resolve / exit / wrapped`), `Props/C04.lean`
restates the theorems over the generated definitions (`C04_source_translation_list_*`, `…_decorator_*`).

Values and their Lean types
    a network (tensors)                     `PyNet α` (of Gen/PreserveGen)
    a state dict                            `SD α` = `List (String × PyTensor α)`
    a network OBJECT in `_apply_arch_mutation`   `PyObj σ`: `net : σ` (everything the dynamic call may change),
                                            `last_mutation_attr`, `last_mutation : Option String`
    `Union[Optional[str], List[Optional[str]]]`  `PyMeths` (`.one m | .many ms`); `isinstance(x, str) or x is None` = `.one`
    keyword dicts returned by / passed to a mutation method      an abstract type `κ`, `{}` = `ext_empty`
    a module's bookkeeping (decorator)      `PyMod`: `_mutation_depth : Int`, `last_mutation : Option PyMeth`,
                                            `last_mutation_attr : Option String`, `mutation_methods : List String`,
                                            `_mutations_forwarded`, `is_wrapper` (`isinstance(·, EvolvableWrapper)`),
                                            `has_hook` (`_mutation_hook is not None`), `recreate_params`
                                            (`inspect.signature(recreate_network).parameters`), and the ghost `log` of the
                                            calls `recreate_network(**kw)` / `_mutation_hook()` in order
    a mutation method object                `PyMeth`: `name`, `_recreate_kwargs : List (String × String)`
    the outcome of a call                   `PyRes κ` (`.ret v | .raised`)
Statements: `x = e`, `x.f = e` / `x.f += c` / `x.f -= c` on an object variable (`self.module`, `module`, `net`), `if / elif /
else` (continuation duplicated into both branches; `if x is None` / `is not None` on an optional local narrows it),
`return`, `continue`, `acc.append(e)` (per-iteration items, concatenated in order), `for a, b in zip(xs, ys)`,
`for i, x in enumerate(xs)`, `for p in L: v = getattr(v, p)` (a getattr chain), `with C(a, b, c): body` (= `C.__init__`
field binding, `__enter__`, body, `__exit__` on every path; `__exit__` returns None so the outcome of the body
propagates), calls of translated functions, `obj.recreate_network(**kw)` / `obj._mutation_hook()` (logged).
Expressions: names, `None`, `{}`, `[]`, str / int / bool constants, `x.f`, `l[i]` (`none` = IndexError), `[e] * len(xs)`,
`a if c else b`, `x is None`, `is not None`, `==`, `in` / `not in` (str in str, str in list), `and / or / not`,
`isinstance(x, list | str | EvolvableWrapper)` on the typed values above, `getattr(net, m)(**kw)` (the dynamic call:
parameter `ext_call`), `getattr(obj, "f", False)`, `getattr(obj, name)` (method table `ext_method`), `s.split(c)` (one
character), `c.join(l)`, `l[:-1]`, `l + [e]`, list comprehensions `[E for x in xs]` with E = `x.state_dict()`,
`x.clone()` or a constructor call `self.reinit_module(x, x.init_dict)` (one FRESH network per element, the explicit
parameter `new0`), dict comprehension `{k: v for k, v in d.items() if k in r}`.
Anything else raises `Unsupported` naming construct and line — never a default.

Assumptions (parameters / identities)
  * `remove_compile_prefix` (another module) is the function parameter `ext_remove_compile_prefix`;
  * the dynamic call `getattr(net, m)(**kw)` is the parameter `ext_call : PyObj σ → String → κ → Option (PyObj σ × Option κ)`
    (`none` = raises); it is applied to the object at hand only — that a network's method touches no other network's
    tensors is object separation (C01);
  * `method(*args, **kwargs)` (the raw mutation method) and `module.get_mutation_methods()[attribute](…)` (the nested
    module's own wrapped method) are the parameters `ext_body`, `ext_nested : PyMod → … → PyMod × PyRes κ`; `getattr(m, part)`
    (a nested module object as it is now) is `ext_getattr`, `module.wrapped` is `ext_wrapped`; `recreate_network` and the hook
    return normally (their effect on tensors is Gen/PreserveGen's `recreate_*`), they are recorded in `log`;
  * `reinit_module(x, x.init_dict)` returns a freshly constructed network (C03: of x's architecture); `.clone()` on a list
    element is `EvolvableModule.clone` of Gen/PreserveGen with its fresh network;
  * an `in place` loop over network objects returns the list of their states afterwards.
The header carries the sha256 over both source files; `write_if_changed` compares everything *but* that line.
"""
from __future__ import annotations

import ast
import hashlib
import os
import sys
from pathlib import Path

HERE = Path(__file__).resolve().parent
DEFAULT_OUT = HERE.parent / "lean" / "Gen" / "PreserveMaGen.lean"
REL_SOURCES = ("agilerl/hpo/mutation.py", "agilerl/modules/base.py")
REL_SOURCE = "agilerl/hpo/mutation.py"      # messages only (the first of the two files)
SHA_PREFIX = "-- sha256(source) = "


class Unsupported(Exception):
    pass


_cur = [REL_SOURCE]


def fail(node, what: str):
    raise Unsupported(f"{_cur[0]}:{getattr(node, 'lineno', '?')}: unsupported construct: {what}")


def src(n, k=60) -> str:
    s = " ".join(ast.unparse(n).split())
    return s if len(s) <= k else s[:k] + "…"


def lean_str(s: str) -> str:
    if not all(32 <= ord(c) < 127 and c not in '"\\' for c in s):
        raise Unsupported(f"string constant {s!r}")
    return '"' + s + '"'


PRELUDE = r'''
/-! ### Python semantics used by the translation (fixed text) -/

abbrev SD (α : Type) := List (String × PyTensor α)

/-- `[<constructor>(x, x.init_dict) for x in xs]`: one freshly constructed network per element of `xs` -/
def pyFreshEach {β γ : Type} (xs : List β) (news : List γ) : List γ := List.zipWith (fun _ n => n) xs news

/-- `[f(x) for x in xs]` where `f` needs the k-th fresh network and may raise -/
def pyZipM {β γ δ : Type} (f : β → γ → Option δ) : List β → List γ → Option (List δ)
  | x :: xs, y :: ys =>
    match f x y with
    | none => none
    | some d =>
      match pyZipM f xs ys with
      | none => none
      | some r => some (d :: r)
  | _, _ => some []

/-- `enumerate(l)` -/
def pyEnumFrom {β : Type} : Nat → List β → List (Nat × β)
  | _, [] => []
  | n, x :: xs => (n, x) :: pyEnumFrom (n + 1) xs

/-- a network object as `_apply_arch_mutation` sees it -/
structure PyObj (σ : Type) where
  net : σ
  last_mutation_attr : Option String
  last_mutation : Option String

/-- `Union[Optional[str], List[Optional[str]]]` -/
inductive PyMeths where
  | one (m : Option String)
  | many (ms : List (Option String))

/-- a mutation method object -/
structure PyMeth where
  name : String
  _recreate_kwargs : List (String × String)
deriving DecidableEq, Repr

inductive PyEv where
  | recreate (kwargs : List (String × String))
  | hook
deriving DecidableEq, Repr

/-- the bookkeeping of one evolvable module -/
structure PyMod where
  _mutation_depth : Int
  last_mutation : Option PyMeth
  last_mutation_attr : Option String
  mutation_methods : List String
  _mutations_forwarded : Bool
  is_wrapper : Bool
  has_hook : Bool
  recreate_params : List String
  log : List PyEv
deriving DecidableEq, Repr

/-- outcome of a call -/
inductive PyRes (κ : Type) where
  | ret (v : Option κ)
  | raised

def pySplitAux (sep : Char) : List Char → List Char → List (List Char)
  | [], cur => [cur.reverse]
  | c :: cs, cur => if c = sep then cur.reverse :: pySplitAux sep cs [] else pySplitAux sep cs (c :: cur)

/-- `s.split(sep)` for a one-character separator -/
def pySplit (sep : Char) (s : String) : List String := (pySplitAux sep s.toList []).map String.ofList

/-- `sep.join(l)` -/
def pyJoin (sep : String) (l : List String) : String := sep.intercalate l

/-- `for p in path: v = getattr(v, p)` (`none` = AttributeError) -/
def pyGetattrChain {μ : Type} (g : μ → String → Option μ) : μ → List String → Option μ
  | v, [] => some v
  | v, p :: ps =>
    match g v p with
    | none => none
    | some w => pyGetattrChain g w ps
'''

# ------------------------------------------------------------------------------------------------ types
NET, NETS, SDT, SDS, BOOL, OBJ, OBJS, METHS, OSTR, OSTRS, KW, OKW, KWS, OKWS, NAT, INT, STR, STRS, MOD, METH, KWD, RES, NONE = (
    "net", "nets", "sd", "sds", "bool", "obj", "objs", "meths", "ostr", "ostrs", "kw", "okw", "kws", "okws", "nat", "int",
    "str", "strs", "mod", "meth", "kwd", "res", "none")
LEAN_TY = {NET: "PyNet α", NETS: "List (PyNet α)", SDT: "SD α", SDS: "List (SD α)", BOOL: "Bool", OBJ: "PyObj σ",
           OBJS: "List (PyObj σ)", METHS: "PyMeths", OSTR: "Option String", OSTRS: "List (Option String)", KW: "κ",
           OKW: "Option κ", KWS: "List κ", OKWS: "Option (List κ)", NAT: "Nat", INT: "Int", STR: "String",
           STRS: "List String", MOD: "PyMod", METH: "PyMeth", KWD: "List (String × String)", RES: "PyRes κ"}
ELEM = {NETS: NET, SDS: SDT, OBJS: OBJ, OSTRS: OSTR, KWS: KW, STRS: STR}
LIST_OF = {v: k for k, v in ELEM.items()}
OBJ_FIELDS = {"last_mutation_attr": OSTR, "last_mutation": OSTR}
MOD_FIELDS = {"_mutation_depth": INT, "last_mutation": "ometh", "last_mutation_attr": OSTR, "mutation_methods": STRS,
              "_mutations_forwarded": BOOL}
LEAN_TY["ometh"] = "Option PyMeth"
METH_FIELDS = {"_recreate_kwargs": KWD}


def find_function(mod: ast.Module, rel: str, path: list[str]) -> ast.FunctionDef:
    body = mod.body
    node = None
    for i, name in enumerate(path):
        want = (ast.ClassDef, ast.FunctionDef)
        found = [s for s in body if isinstance(s, want) and s.name == name]
        if len(found) != 1:
            raise Unsupported(f"{rel}: {'.'.join(path[:i + 1])} not found exactly once")
        node = found[0]
        body = node.body
    if not isinstance(node, ast.FunctionDef):
        raise Unsupported(f"{rel}: {'.'.join(path)} is not a function")
    return node


def strip_doc(stmts):
    if stmts and isinstance(stmts[0], ast.Expr) and isinstance(stmts[0].value, ast.Constant) and isinstance(stmts[0].value.value, str):
        return stmts[1:]
    return stmts


def norm_assign(st):
    """`x: T = e` is `x = e` (annotations of locals are not evaluated for simple names)"""
    if isinstance(st, ast.AnnAssign) and st.value is not None and st.simple and isinstance(st.target, ast.Name):
        return ast.copy_location(ast.Assign(targets=[st.target], value=st.value), st)
    return st


# ------------------------------------------------------------------------------------------------ engine
class Emit:
    """CPS emitter: lines with indentation; fallible expressions are bound by `match … | none => none | some r =>`"""

    def __init__(self):
        self.lines: list[str] = []
        self.indent = 1
        self.nv = 0
        self.nr = 0
        self.nc = 0

    def put(self, s: str):
        self.lines.append("  " * self.indent + s)

    def fresh_v(self):
        self.nv += 1
        return f"v{self.nv - 1}"

    def fresh_r(self):
        self.nr += 1
        return f"r{self.nr - 1}"

    def fresh_c(self):
        self.nc += 1
        return f"c{self.nc - 1}"

    def bind(self, e: str) -> str:
        r = self.fresh_r()
        self.put(f"match {e} with")
        self.put("| none => none")
        self.put(f"| some {r} =>")
        return r


class Fn:
    """one translated function.  env: python name (or `self.x`) -> (lean expression, type)"""

    def __init__(self, em: Emit, env: dict, finish, ext: set, allow_fallible=True, loop=None, sigs=None):
        self.em, self.env, self.finish, self.ext = em, env, finish, ext
        self.allow_fallible = allow_fallible
        self.loop = loop            # dict(accs={name: [items]}, objvar=name) inside a loop body
        self.sigs = sigs or {}

    def fork(self):
        f = Fn(self.em, dict(self.env), self.finish, self.ext, self.allow_fallible,
               None if self.loop is None else {"accs": {k: list(v) for k, v in self.loop["accs"].items()}}, self.sigs)
        return f

    def bind(self, node, e):
        if not self.allow_fallible:
            fail(node, f"an expression that may raise inside a `with` body: {src(node)}")
        return self.em.bind(e)

    # -------------------------------------------------------------------------------- names
    def key_of(self, n):
        if isinstance(n, ast.Name):
            return n.id
        if isinstance(n, ast.Attribute) and isinstance(n.value, ast.Name) and n.value.id == "self":
            return "self." + n.attr
        return None

    def lookup(self, n):
        k = self.key_of(n)
        if k is not None and k in self.env:
            return self.env[k]
        if isinstance(n, ast.Attribute) and ("#expr:" + ast.dump(n)) in self.env:
            return self.env["#expr:" + ast.dump(n)]
        return None

    # -------------------------------------------------------------------------------- expressions
    def ex(self, n, want=None):
        """-> (lean, type)"""
        em = self.em
        hit = self.lookup(n)
        if hit is not None:
            if hit[1] == "emptydict" and want in (KW, KWD):
                return self.coerce(n, hit[0], hit[1], want)
            return hit
        if isinstance(n, ast.Constant):
            v = n.value
            if v is None:
                if want in (OSTR, OKW, "ometh", OKWS):
                    return "none", want
                return "none", NONE
            if isinstance(v, bool):
                return ("true" if v else "false"), BOOL
            if isinstance(v, int):
                return (f"({v} : Int)"), INT
            if isinstance(v, str):
                return lean_str(v), STR
            fail(n, f"constant {v!r}")
        if isinstance(n, ast.Dict) and not n.keys:
            if want in (KW, KWD):
                return self.coerce(n, "{}", "emptydict", want)
            return "{}", "emptydict"
        if isinstance(n, ast.List):
            if not n.elts:
                return "[]", want or "emptylist"
            if len(n.elts) == 1:
                e, t = self.ex(n.elts[0])
                e, t = self.coerce(n, e, t, ELEM.get(want, t)) if want in ELEM else (e, t)
                if t not in LIST_OF:
                    fail(n, f"list of {t}")
                return f"[{e}]", LIST_OF[t]
            fail(n, "list literal with several elements")
        if isinstance(n, ast.Attribute):
            b, bt = self.ex(n.value)
            if bt == OBJ and n.attr in OBJ_FIELDS:
                return f"{b}.{n.attr}", OBJ_FIELDS[n.attr]
            if bt == MOD and n.attr in MOD_FIELDS:
                return f"{b}.{n.attr}", MOD_FIELDS[n.attr]
            if bt == MOD and n.attr == "wrapped":
                self.ext.add("ext_wrapped")
                return f"(ext_wrapped {b})", MOD
            if bt == METH and n.attr in METH_FIELDS:
                return f"{b}.{n.attr}", METH_FIELDS[n.attr]
            fail(n, f"attribute .{n.attr} of a {bt}")
        if isinstance(n, ast.Subscript):
            b, bt = self.ex(n.value)
            if isinstance(n.slice, ast.Slice):
                s = n.slice
                if (bt == STRS and s.lower is None and s.step is None and isinstance(s.upper, ast.UnaryOp)
                        and isinstance(s.upper.op, ast.USub) and isinstance(s.upper.operand, ast.Constant)
                        and isinstance(s.upper.operand.value, int) and s.upper.operand.value >= 0):
                    k = s.upper.operand.value
                    return f"({b}.take ({b}.length - {k}))", STRS
                fail(n, f"slice {src(n)}")
            if bt in ELEM:
                i, it = self.ex(n.slice)
                if it != NAT:
                    fail(n, f"index of type {it}")
                r = self.bind(n, f"{b}[{i}]?")
                return r, ELEM[bt]
            fail(n, f"subscript of a {bt}")
        if isinstance(n, ast.IfExp):
            t = n.test
            if (isinstance(t, ast.Compare) and len(t.ops) == 1 and isinstance(t.ops[0], (ast.Is, ast.IsNot))
                    and isinstance(t.comparators[0], ast.Constant) and t.comparators[0].value is None
                    and isinstance(t.left, ast.Name) and t.left.id in self.env and self.env[t.left.id][1] in (OSTR, OKW)):
                name = t.left.id
                e0, ty = self.env[name]
                some_e, none_e = (n.orelse, n.body) if isinstance(t.ops[0], ast.Is) else (n.body, n.orelse)
                r = self.em.fresh_r()
                sub = self.fork()
                sub.env[name] = (r, STR if ty == OSTR else KW)
                a, at = sub.ex(some_e, want)
                sub2 = self.fork()
                sub2.env[name] = ("none", ty)
                b, bt = sub2.ex(none_e, at)
                if at != bt:
                    fail(n, f"branches of different types {at} / {bt}")
                return f"(match {e0} with | some {r} => {a} | none => {b})", at
            c = self.cond(n.test)
            a, at = self.ex(n.body, want)
            b, bt = self.ex(n.orelse, want)
            if at != bt:
                if {at, bt} == {KW, OKW}:
                    fail(n, "mixing a dict and an optional dict")
                fail(n, f"branches of different types {at} / {bt}")
            return f"(if {c} then {a} else {b})", at
        if isinstance(n, ast.BinOp):
            if isinstance(n.op, ast.Mult):
                # [e] * len(xs)
                if (isinstance(n.right, ast.Call) and isinstance(n.right.func, ast.Name) and n.right.func.id == "len"
                        and len(n.right.args) == 1 and not n.right.keywords and isinstance(n.left, ast.List) and len(n.left.elts) == 1):
                    xs, xt = self.ex(n.right.args[0])
                    if xt not in ELEM:
                        fail(n, f"len of a {xt}")
                    e, t = self.ex(n.left.elts[0], ELEM.get(want))
                    if t == NONE and want in ELEM:
                        t = ELEM[want]
                    if t not in LIST_OF:
                        fail(n, f"list of {t}")
                    return f"(List.replicate {xs}.length {e})", LIST_OF[t]
                fail(n, f"product {src(n)}")
            if isinstance(n.op, ast.Add):
                a, at = self.ex(n.left)
                b, bt = self.ex(n.right, at)
                if at == bt and at in ELEM:
                    return f"({a} ++ {b})", at
                fail(n, f"sum of {at} and {bt}")
            fail(n, f"operator in {src(n)}")
        if isinstance(n, ast.ListComp):
            return self.listcomp(n)
        if isinstance(n, ast.DictComp):
            return self.dictcomp(n)
        if isinstance(n, ast.Call):
            return self.call(n, want)
        if isinstance(n, (ast.Compare, ast.BoolOp)) or (isinstance(n, ast.UnaryOp) and isinstance(n.op, ast.Not)):
            return f"(decide ({self.cond(n)}))", BOOL
        fail(n, src(n))

    def coerce(self, node, e, t, want):
        if t == want or want is None:
            return e, t
        if t == STR and want == OSTR:
            return f"(some {e})", OSTR
        if t == METH and want == "ometh":
            return f"(some {e})", "ometh"
        if t == NONE and want in (OSTR, OKW, "ometh", OKWS):
            return "none", want
        if t == "emptylist" and want in ELEM:
            return "[]", want
        if t == "emptydict" and want == KWD:
            return "([] : List (String × String))", KWD
        if t == "emptydict" and want == KW:
            self.ext.add("ext_empty")
            return "ext_empty", KW
        fail(node, f"a {t} where a {want} is needed")

    def listcomp(self, n):
        if len(n.generators) != 1 or n.generators[0].ifs or n.generators[0].is_async:
            fail(n, "comprehension with conditions / several generators")
        g = n.generators[0]
        if not isinstance(g.target, ast.Name):
            fail(n, "comprehension target")
        xs, xt = self.ex(g.iter)
        if xt != NETS:
            fail(n, f"comprehension over a {xt}")
        x = g.target.id
        e = n.elt
        # x.state_dict() / x.clone() / self.reinit_module(x, x.init_dict)
        if isinstance(e, ast.Call) and isinstance(e.func, ast.Attribute) and isinstance(e.func.value, ast.Name) \
                and e.func.value.id == x and not e.args and not e.keywords:
            if e.func.attr == "state_dict":
                c = self.em.fresh_c()
                return f"({xs}.map (fun {c} => pyStateDict {c}))", SDS
            if e.func.attr == "clone":
                new = self.new_list(n)
                r = self.bind(n, f"pyZipM (fun {{c}} new => EvolvableModule.clone {{c}} new) {xs} {new}".replace("{c}", self.em.fresh_c()))
                return r, NETS
        if isinstance(e, ast.Call) and isinstance(e.func, ast.Attribute) and isinstance(e.func.value, ast.Name) \
                and e.func.value.id == "self" and e.func.attr == "reinit_module" and not e.keywords and len(e.args) == 2:
            a0, a1 = e.args
            if (isinstance(a0, ast.Name) and a0.id == x and isinstance(a1, ast.Attribute) and a1.attr == "init_dict"
                    and isinstance(a1.value, ast.Name) and a1.value.id == x):
                new = self.new_list(n)
                return f"(pyFreshEach {xs} {new})", NETS
            fail(e, "reinit_module whose arguments are not (x, x.init_dict) of the comprehension variable")
        fail(n, f"comprehension element {src(e)}")

    def new_list(self, node):
        k = self.env.setdefault("#new", [0])
        name = f"new{k[0]}"
        k[0] += 1
        self.env.setdefault("#news", []).append(name)
        return name

    def dictcomp(self, n):
        # {k: v for k, v in D.items() if k in R}
        if len(n.generators) != 1:
            fail(n, "dict comprehension with several generators")
        g = n.generators[0]
        if not (isinstance(g.target, ast.Tuple) and len(g.target.elts) == 2 and all(isinstance(t, ast.Name) for t in g.target.elts)):
            fail(n, "dict comprehension target")
        k, v = (t.id for t in g.target.elts)
        if not (isinstance(n.key, ast.Name) and n.key.id == k and isinstance(n.value, ast.Name) and n.value.id == v):
            fail(n, "dict comprehension that is not {k: v …}")
        it = g.iter
        if not (isinstance(it, ast.Call) and isinstance(it.func, ast.Attribute) and it.func.attr == "items" and not it.args):
            fail(n, "dict comprehension not over d.items()")
        d, dt = self.ex(it.func.value)
        if dt != KWD:
            fail(n, f"items of a {dt}")
        c = self.em.fresh_c()
        sub = self.fork()
        sub.env[k] = (f"{c}.1", STR)
        sub.env[v] = (f"{c}.2", STR)
        conds = [sub.cond(i) for i in g.ifs]
        if not conds:
            return d, KWD
        return f"({d}.filter (fun {c} => decide ({' ∧ '.join(conds)})))", KWD

    def call(self, n, want=None):
        f = n.func
        # getattr(net, m)(**kw): the dynamic call
        if isinstance(f, ast.Call) and isinstance(f.func, ast.Name) and f.func.id == "getattr" and len(f.args) == 2 \
                and not f.keywords:
            o, ot = self.ex(f.args[0])
            if ot != OBJ:
                fail(n, f"dynamic call on a {ot}")
            m, mt = self.ex(f.args[1])
            if mt == OSTR:
                m, mt = self.bind(n, m), STR          # getattr(net, None) raises TypeError
            if mt != STR:
                fail(n, f"method name of type {mt}")
            if n.args or len(n.keywords) != 1 or n.keywords[0].arg is not None:
                fail(n, "dynamic call whose arguments are not **kwargs")
            kw, kt = self.ex(n.keywords[0].value)
            if kt != KW:
                fail(n, f"**{kt}")
            self.ext.add("ext_call")
            r = self.bind(n, f"ext_call {o} {m} {kw}")
            key = self.key_of(f.args[0])
            if key is None:
                fail(n, "dynamic call on an expression")
            self.env[key] = (f"{r}.1", OBJ)
            return f"{r}.2", OKW
        if isinstance(f, ast.Name) and f.id == "getattr" and n.keywords:
            fail(n, "getattr with keyword arguments")
        if isinstance(f, ast.Name) and f.id == "getattr":
            if len(n.args) == 3:
                o, ot = self.ex(n.args[0])
                a, d = n.args[1], n.args[2]
                if (ot == MOD and isinstance(a, ast.Constant) and a.value in MOD_FIELDS and MOD_FIELDS[a.value] == BOOL
                        and isinstance(d, ast.Constant) and d.value is False):
                    return f"{o}.{a.value}", BOOL
                fail(n, src(n))
            if len(n.args) == 2:
                o, ot = self.ex(n.args[0])
                a, at = self.ex(n.args[1])
                if ot == MOD and at == STR:
                    self.ext.add("ext_method")
                    return f"(ext_method {o} {a})", METH
                fail(n, src(n))
        if isinstance(f, ast.Name) and f.id == "remove_compile_prefix" and len(n.args) == 1 and not n.keywords:
            a, at = self.ex(n.args[0])
            if at != SDT:
                fail(n, f"remove_compile_prefix of a {at}")
            self.ext.add("ext_remove_compile_prefix")
            return f"(ext_remove_compile_prefix {a})", SDT
        if isinstance(f, ast.Attribute):
            if f.attr == "split" and len(n.args) == 1 and not n.keywords:
                s, st = self.ex(f.value)
                c = n.args[0]
                if st == STR and isinstance(c, ast.Constant) and isinstance(c.value, str) and len(c.value) == 1:
                    return f"(pySplit '{c.value}' {s})", STRS
                fail(n, src(n))
            if f.attr == "join" and len(n.args) == 1 and not n.keywords:
                s, st = self.ex(f.value)
                l, lt = self.ex(n.args[0])
                if st == STR and lt == STRS:
                    return f"(pyJoin {s} {l})", STR
                fail(n, src(n))
            # self._resolve_final_mutation_attr() and other translated methods
            if isinstance(f.value, ast.Name) and f.value.id == "self" and f.attr in self.sigs:
                return self.sigs[f.attr](self, n)
        fail(n, f"call {src(n)}")

    # -------------------------------------------------------------------------------- conditions (Prop)
    def cond(self, n) -> str:
        if isinstance(n, ast.BoolOp):
            op = " ∧ " if isinstance(n.op, ast.And) else " ∨ "
            return "(" + op.join(self.cond(v) for v in n.values) + ")"
        if isinstance(n, ast.UnaryOp) and isinstance(n.op, ast.Not):
            return f"¬ {self.cond(n.operand)}"
        if isinstance(n, ast.Compare) and len(n.ops) == 1:
            op, l, r = n.ops[0], n.left, n.comparators[0]
            if isinstance(op, (ast.Is, ast.IsNot)) and isinstance(r, ast.Constant) and r.value is None:
                e, t = self.ex(l)
                if t == METHS:
                    e, t = f"(match {e} with | .one m => m | .many _ => some \"\")", OSTR
                if t not in (OSTR, OKW, OKWS, "ometh"):
                    fail(n, f"`is None` on a {t}")
                return f"{e} = none" if isinstance(op, ast.Is) else f"{e} ≠ none"
            if isinstance(op, (ast.In, ast.NotIn)):
                a, at = self.ex(l)
                b, bt = self.ex(r)
                neg = "¬ " if isinstance(op, ast.NotIn) else ""
                if at == STR and bt == STR:
                    return f"{neg}pyStrContains {a} {b} = true"
                if at == STR and bt == OSTR:
                    fail(n, "`in` on an optional string that was not narrowed")
                if at == STR and bt == STRS:
                    return f"{neg}{a} ∈ {b}"
                fail(n, f"`in` between {at} and {bt}")
            if isinstance(op, (ast.Eq, ast.NotEq)):
                a, at = self.ex(l)
                b, bt = self.ex(r, at)
                if at != bt or at not in (INT, STR, NAT, BOOL):
                    fail(n, f"comparison of {at} and {bt}")
                return f"{a} {'=' if isinstance(op, ast.Eq) else '≠'} {b}"
            fail(n, src(n))
        if isinstance(n, ast.Call) and isinstance(n.func, ast.Name) and n.func.id == "isinstance" and len(n.args) == 2 \
                and not n.keywords:
            e, t = self.ex(n.args[0])
            cls = n.args[1]
            cname = cls.id if isinstance(cls, ast.Name) else None
            if t == MOD and cname == "EvolvableWrapper":
                return f"{e}.is_wrapper = true"
            if t == METHS and cname == "str":
                return f"(match {e} with | .one m => m.isSome | .many _ => false) = true"
            if t == METHS and cname == "list":
                return f"(match {e} with | .one _ => false | .many _ => true) = true"
            if t in ELEM and cname == "list":
                return "True"
            fail(n, src(n))
        e, t = self.ex(n)
        if t == BOOL:
            return f"{e} = true"
        if t == KWD or t in ELEM:
            return f"{e} ≠ []"
        fail(n, f"truth value of a {t}: {src(n)}")

    # -------------------------------------------------------------------------------- statements
    def block(self, stmts, k):
        """translate `stmts`, then call k(self) for what follows (None = falls off the end: finish)"""
        em = self.em
        if not stmts:
            return k(self)
        st, rest = stmts[0], stmts[1:]
        nxt = lambda me: me.block(rest, k)
        if isinstance(st, ast.Pass) or (isinstance(st, ast.Expr) and isinstance(st.value, ast.Constant)):
            return nxt(self)
        if isinstance(st, ast.Return):
            return self.finish(self, st.value, st)
        if isinstance(st, ast.Continue):
            if self.loop is None:
                fail(st, "continue outside a loop")
            return self.finish(self, None, st)
        if isinstance(st, ast.If):
            return self.if_(st, nxt)
        st = norm_assign(st)
        if isinstance(st, ast.Assign) and len(st.targets) == 1:
            self.assign(st.targets[0], st.value, st)
            return nxt(self)
        if isinstance(st, ast.AugAssign):
            t = st.target
            if (isinstance(t, ast.Attribute) and isinstance(st.op, (ast.Add, ast.Sub)) and isinstance(st.value, ast.Constant)
                    and isinstance(st.value.value, int)):
                b, bt = self.ex(t.value)
                if bt == MOD and MOD_FIELDS.get(t.attr) == INT:
                    op = "+" if isinstance(st.op, ast.Add) else "-"
                    self.store_field(t.value, t.attr, f"{b}.{t.attr} {op} {st.value.value}", st)
                    return nxt(self)
            fail(st, src(st))
        if isinstance(st, ast.Expr) and isinstance(st.value, ast.Call):
            self.expr_call(st.value)
            return nxt(self)
        if isinstance(st, ast.For):
            self.for_(st)
            return nxt(self)
        if isinstance(st, ast.With):
            return self.with_(st, nxt)
        fail(st, src(st))

    def if_(self, st, nxt):
        em = self.em
        t = st.test
        # narrowing of an optional local
        if (isinstance(t, ast.Compare) and len(t.ops) == 1 and isinstance(t.ops[0], (ast.Is, ast.IsNot))
                and isinstance(t.comparators[0], ast.Constant) and t.comparators[0].value is None
                and isinstance(t.left, ast.Name) and t.left.id in self.env and self.env[t.left.id][1] in (OSTR, OKW)):
            name = t.left.id
            e, ty = self.env[name]
            inner = STR if ty == OSTR else KW
            some_branch, none_branch = (st.orelse, st.body) if isinstance(t.ops[0], ast.Is) else (st.body, st.orelse)
            em.put(f"match {e} with")
            r = em.fresh_r()
            em.put(f"| some {r} =>")
            a = self.fork()
            a.env[name] = (r, inner)
            a.env["#narrow:" + name] = (e, ty)
            em.indent += 1
            a.block(some_branch, nxt)
            em.indent -= 1
            em.put("| none =>")
            b = self.fork()
            b.env[name] = ("none", ty)
            em.indent += 1
            b.block(none_branch, nxt)
            em.indent -= 1
            return
        if (isinstance(t, ast.Compare) and len(t.ops) == 1 and isinstance(t.ops[0], (ast.Is, ast.IsNot))
                and isinstance(t.comparators[0], ast.Constant) and t.comparators[0].value is None
                and isinstance(t.left, ast.Attribute) and t.left.attr != "_mutation_hook"):
            e, ty = self.ex(t.left)
            if ty == OSTR:
                some_branch, none_branch = (st.orelse, st.body) if isinstance(t.ops[0], ast.Is) else (st.body, st.orelse)
                em.put(f"match {e} with")
                r = em.fresh_r()
                em.put(f"| some {r} =>")
                a = self.fork()
                a.env["#expr:" + ast.dump(t.left)] = (r, STR)
                em.indent += 1
                a.block(some_branch, nxt)
                em.indent -= 1
                em.put("| none =>")
                b = self.fork()
                em.indent += 1
                b.block(none_branch, nxt)
                em.indent -= 1
                return
        c = self.cond(t)
        em.put(f"if {c} then")
        a = self.fork()
        em.indent += 1
        a.block(st.body, nxt)
        em.indent -= 1
        em.put("else")
        b = self.fork()
        em.indent += 1
        b.block(st.orelse, nxt)
        em.indent -= 1

    def opt_of(self, name):
        """the value of a (possibly narrowed) local as an option"""
        e, t = self.env[name]
        if t == STR and ("#narrow:" + name) in self.env:
            return f"(some {e})", OSTR
        return e, t

    def store_field(self, base, field, e, node):
        key = self.key_of(base)
        if key is None or key not in self.env:
            fail(node, f"store into a field of {src(base)}")
        b, bt = self.env[key]
        v = self.em.fresh_v()
        self.em.put(f"let {v} : {LEAN_TY[bt]} := {{ {b} with {field} := {e} }}")
        self.env[key] = (v, bt)
        for k2 in [k2 for k2 in self.env if k2.startswith("#expr:") and f"attr='{field}'" in k2]:
            del self.env[k2]          # a narrowed read of that field is stale now
        # aliases of the same object
        for k2, v2 in list(self.env.items()):
            if not k2.startswith("#") and k2 != key and v2 == (b, bt):
                self.env[k2] = (v, bt)

    def assign(self, tgt, val, st):
        em = self.em
        if isinstance(tgt, ast.Attribute):
            b, bt = self.ex(tgt.value)
            fields = OBJ_FIELDS if bt == OBJ else MOD_FIELDS if bt == MOD else None
            if fields is None or tgt.attr not in fields:
                fail(st, f"store into .{tgt.attr} of a {bt}")
            want = fields[tgt.attr]
            if isinstance(val, ast.Name) and val.id in self.env:
                e, t = self.opt_of(val.id)
            else:
                e, t = self.ex(val, want)
            e, t = self.coerce(st, e, t, want)
            self.store_field(tgt.value, tgt.attr, e, st)
            return
        if isinstance(tgt, ast.Name):
            # accumulators of a loop are handled by for_
            old = self.env.get(tgt.id)
            e, t = self.ex(val, old[1] if old else None)
            if t == NONE:
                # `x = None` before the real initialisation: remember as untyped none
                self.env[tgt.id] = ("none", NONE)
                return
            if t in ("emptylist", "emptydict"):
                self.env[tgt.id] = (e, t)
                return
            if t in (MOD, OBJ):
                self.env[tgt.id] = (e, t)       # an alias, not a copy
                return
            v = em.fresh_v()
            em.put(f"let {v} : {LEAN_TY[t]} := {e}")
            self.env[tgt.id] = (v, t)
            self.env.pop("#narrow:" + tgt.id, None)
            return
        fail(st, f"assignment target {src(tgt)}")

    def expr_call(self, c):
        em = self.em
        f = c.func
        if isinstance(f, ast.Attribute):
            # acc.append(e)
            if f.attr == "append" and isinstance(f.value, ast.Name) and self.loop is not None \
                    and f.value.id in self.loop["accs"] and len(c.args) == 1:
                ty = self.loop["types"][f.value.id] if "types" in self.loop else None
                a = c.args[0]
                if isinstance(a, ast.Name) and a.id in self.env:
                    e, t = self.opt_of(a.id)
                else:
                    e, t = self.ex(a)
                self.loop["accs"][f.value.id].append((e, t, c))
                return
            # x.load_state_dict(sd, strict=False)
            if f.attr == "load_state_dict" and len(c.args) == 1:
                o, ot = self.ex(f.value)
                sd, sdt = self.ex(c.args[0])
                if ot != NET or sdt != SDT:
                    fail(c, f"load_state_dict of a {sdt} into a {ot}")
                strict = "true"
                for kw in c.keywords:
                    if kw.arg == "strict" and isinstance(kw.value, ast.Constant) and isinstance(kw.value.value, bool):
                        strict = "true" if kw.value.value else "false"
                    else:
                        fail(c, f"keyword {kw.arg}")
                r = em.fresh_r()
                em.put(f"let {r} := pyLoadStateDict {strict} {o} {sd}")
                em.put(f"if {r}.2 = true then none else")
                v = em.fresh_v()
                em.put(f"let {v} : PyNet α := {r}.1")
                key = self.key_of(f.value)
                if key is None:
                    fail(c, "load_state_dict into an expression")
                self.env[key] = (v, NET)
                return
            # obj.recreate_network(**kw) / obj._mutation_hook()
            if f.attr in ("recreate_network", "_mutation_hook"):
                o, ot = self.ex(f.value)
                if ot != MOD:
                    fail(c, src(c))
                if f.attr == "recreate_network":
                    if c.args or len(c.keywords) != 1 or c.keywords[0].arg is not None:
                        fail(c, "recreate_network called with something else than **kwargs")
                    kw, kt = self.ex(c.keywords[0].value, KWD)
                    if kt != KWD:
                        fail(c, f"**{kt}")
                    ev = f"PyEv.recreate {kw}"
                else:
                    if c.args or c.keywords:
                        fail(c, "hook with arguments")
                    ev = "PyEv.hook"
                self.store_field(f.value, "log", f"{o}.log ++ [{ev}]", c)
                return
            if isinstance(f.value, ast.Name) and f.value.id == "self" and f.attr in self.sigs:
                self.sigs[f.attr](self, c)
                return
        fail(c, f"call statement {src(c)}")

    def for_(self, st):
        # for p in L: v = getattr(v, p)
        em = self.em
        if st.orelse:
            fail(st, "for … else")
        if isinstance(st.target, ast.Name) and len(st.body) == 1 and isinstance(norm_assign(st.body[0]), ast.Assign):
            a = norm_assign(st.body[0])
            if (len(a.targets) == 1 and isinstance(a.targets[0], ast.Name) and isinstance(a.value, ast.Call)
                    and isinstance(a.value.func, ast.Name) and a.value.func.id == "getattr" and len(a.value.args) == 2
                    and isinstance(a.value.args[0], ast.Name) and a.value.args[0].id == a.targets[0].id
                    and isinstance(a.value.args[1], ast.Name) and a.value.args[1].id == st.target.id):
                v = a.targets[0].id
                e, t = self.env.get(v, (None, None))
                if t != MOD:
                    fail(st, f"getattr chain on a {t}")
                l, lt = self.ex(st.iter)
                if lt != STRS:
                    fail(st, f"getattr chain over a {lt}")
                self.ext.add("ext_getattr")
                r = self.bind(st, f"pyGetattrChain ext_getattr {e} {l}")
                self.env[v] = (r, MOD)
                return
        fail(st, f"loop {src(st)}")

    def with_(self, st, nxt):
        fail(st, "with statement here")


# ------------------------------------------------------------------------------------------------ part L
def ext_params(ext: set, order) -> str:
    sig = {
        "ext_remove_compile_prefix": "(ext_remove_compile_prefix : SD α → SD α)",
        "ext_call": "(ext_call : PyObj σ → String → κ → Option (PyObj σ × Option κ))",
        "ext_empty": "(ext_empty : κ)",
        "ext_getattr": "(ext_getattr : PyMod → String → Option PyMod)",
        "ext_wrapped": "(ext_wrapped : PyMod → PyMod)",
        "ext_method": "(ext_method : PyMod → String → PyMeth)",
        "ext_body": "(ext_body : PyMod → PyMeth → PyMod × PyRes κ)",
        "ext_nested": "(ext_nested : PyMod → String → PyMod × PyRes κ)",
    }
    return " ".join(sig[e] for e in order if e in ext)


EXT_ORDER = ["ext_remove_compile_prefix", "ext_call", "ext_empty", "ext_getattr", "ext_wrapped", "ext_method", "ext_body",
             "ext_nested"]


def ext_args(ext: set) -> str:
    return "".join(" " + e for e in EXT_ORDER if e in ext)


def ann_type(a) -> str | None:
    s = ast.unparse(a) if a is not None else ""
    return {"List[ModuleType]": NETS, "List[Dict[str, Any]]": SDS, "bool": BOOL, "OffspringType": "offspring",
            "Union[Optional[str], List[Optional[str]]]": METHS,
            "Optional[Union[Dict[str, Any], List[Dict[str, Any]]]]": OKWS}.get(s)


def fn_args(fn: ast.FunctionDef, skip_self=True):
    a = fn.args
    if a.vararg or a.kwarg or a.kwonlyargs or a.posonlyargs:
        fail(fn, "signature with * / ** / keyword-only parameters")
    return [x for x in a.args if not (skip_self and x.arg == "self")]


def list_branch(fn: ast.FunctionDef, var: str):
    """the statements of `fn` with every `if isinstance(var, list): A else: B` replaced by A and every conditional
    expression `A if isinstance(var, list) else B` by A"""
    def is_test(t):
        return (isinstance(t, ast.Call) and isinstance(t.func, ast.Name) and t.func.id == "isinstance" and len(t.args) == 2
                and isinstance(t.args[0], ast.Name) and t.args[0].id == var and isinstance(t.args[1], ast.Name)
                and t.args[1].id == "list")

    class T(ast.NodeTransformer):
        hits = 0

        def visit_If(self, node):
            self.generic_visit(node)
            if is_test(node.test):
                T.hits += 1
                return node.body
            return node

        def visit_IfExp(self, node):
            self.generic_visit(node)
            if is_test(node.test):
                T.hits += 1
                return node.body
            return node

    import copy
    body = [T().visit(copy.deepcopy(s)) for s in strip_doc(fn.body)]
    flat = []
    for s in body:
        flat += s if isinstance(s, list) else [s]
    if T.hits == 0:
        fail(fn, f"no `isinstance({var}, list)` test in {fn.name}")
    return flat


def tr_load_state_dicts(fn: ast.FunctionDef) -> tuple[list[str], set]:
    args = fn_args(fn)
    tys = [ann_type(a.annotation) for a in args]
    if tys != [NETS, SDS, BOOL]:
        fail(fn, f"signature of load_state_dicts: {[ast.unparse(a.annotation) if a.annotation else None for a in args]}")
    body = strip_doc(fn.body)
    if len(body) != 1 or not isinstance(body[0], ast.For):
        fail(fn, "load_state_dicts is not a single loop")
    lp = body[0]
    it = lp.iter
    if not (isinstance(it, ast.Call) and isinstance(it.func, ast.Name) and it.func.id == "zip" and len(it.args) == 2 and not it.keywords
            and all(isinstance(a, ast.Name) for a in it.args) and isinstance(lp.target, ast.Tuple)
            and len(lp.target.elts) == 2 and all(isinstance(t, ast.Name) for t in lp.target.elts)) or lp.orelse:
        fail(lp, "loop that is not `for a, b in zip(x, y)`")
    names = [a.arg for a in args]
    za, zb = (a.id for a in it.args)
    if za not in names or zb not in names:
        fail(lp, "zip over something else than the parameters")
    pos = {n: i for i, n in enumerate(names)}
    ty_of = dict(zip(names, tys))
    if ty_of[za] != NETS or ty_of[zb] != SDS:
        fail(lp, f"zip({ty_of[za]}, {ty_of[zb]}): the in-place loop must run over (modules, state dicts)")
    em = Emit()
    em.indent = 2
    ext: set = set()
    ta, tb = (t.id for t in lp.target.elts)
    env = {ta: ("e0", NET), tb: ("e1", SDT)}
    for n in names:
        if ty_of[n] == BOOL:
            env[n] = (f"a{pos[n]}", BOOL)

    def finish(me, val, node):
        if val is not None:
            fail(node, "return inside the loop")
        e, _ = me.env[ta]
        me.em.put(f"match Mutations.load_state_dicts_loop0{ext_args(ext)}{bools} rest with")
        me.em.put("| none => none")
        me.em.put(f"| some out => some ({e} :: out)")

    bools = "".join(f" a{pos[n]}" for n in names if ty_of[n] == BOOL)
    f = Fn(em, dict(env), finish, ext, loop={"accs": {}})
    # two passes: the set of external functions must be known for the recursive call
    f.block(lp.body, lambda me: me.finish(me, None, lp))
    em2 = Emit()
    em2.indent = 2
    f2 = Fn(em2, dict(env), finish, ext, loop={"accs": {}})
    f2.block(lp.body, lambda me: me.finish(me, None, lp))
    bparams = "".join(f" (a{pos[n]} : Bool)" for n in names if ty_of[n] == BOOL)
    ep = ext_params(ext, EXT_ORDER)
    ep = (" " + ep) if ep else ""
    out = ["/-- the loop of `Mutations.load_state_dicts`: the modules after their `load_state_dict` (`none` = raises) -/",
           f"def Mutations.load_state_dicts_loop0{ep}{bparams} : List (PyNet α × SD α) → Option (List (PyNet α))",
           "  | [] => some []", "  | (e0, e1) :: rest =>"] + em2.lines + [""]
    out += ["/-- `Mutations.load_state_dicts`: the state of `modules` afterwards; `zip` stops at the shorter list, the remaining",
            "    modules are not touched -/",
            f"def Mutations.load_state_dicts{ep} " + " ".join(f"(a{i} : {LEAN_TY[t]})" for i, t in enumerate(tys))
            + " : Option (List (PyNet α)) :=",
            f"  match Mutations.load_state_dicts_loop0{ext_args(ext)}{bools} (List.zip a{pos[za]} a{pos[zb]}) with",
            "  | none => none",
            f"  | some out => some (out ++ a{pos[za]}.drop out.length)", ""]
    return out, set(ext), (pos[za], pos[zb])


def tr_reinit_list(fn: ast.FunctionDef, lsd_ext: set) -> list[str]:
    args = fn_args(fn)
    if len(args) != 2 or ann_type(args[0].annotation) != "offspring" or ann_type(args[1].annotation) != BOOL:
        fail(fn, "signature of reinit_from_mutated")
    var = args[0].arg
    stmts = list_branch(fn, var)
    em = Emit()
    ext = set(lsd_ext)
    env = {var: ("a0", NETS), args[1].arg: ("a1", BOOL)}

    def lsd(me, c):
        if c.keywords or len(c.args) != 3:
            fail(c, "load_state_dicts not called with three positional arguments")
        vals = [me.ex(a) for a in c.args]
        if [t for _, t in vals] != [NETS, SDS, BOOL]:
            fail(c, f"load_state_dicts({', '.join(t for _, t in vals)})")
        r = me.bind(c, f"Mutations.load_state_dicts{ext_args(lsd_ext)} {vals[0][0]} {vals[1][0]} {vals[2][0]}")
        key = me.key_of(c.args[0])
        if key is None:
            fail(c, "load_state_dicts into an expression")
        v = me.em.fresh_v()
        me.em.put(f"let {v} : List (PyNet α) := {r}")
        me.env[key] = (v, NETS)
        return "()", NONE

    def finish(me, val, node):
        if val is None:
            fail(node, "reinit_from_mutated returns nothing")
        e, t = me.ex(val)
        if t != NETS:
            fail(node, f"returns a {t}")
        me.em.put(f"some {e}")

    f = Fn(em, env, finish, ext, sigs={"load_state_dicts": lsd})
    f.block(stmts, lambda me: fail(fn, "falls off the end"))
    news = env.get("#news", [])
    ep = ext_params(ext, EXT_ORDER)
    ep = (" " + ep) if ep else ""
    return ["/-- `Mutations.reinit_from_mutated`, the `isinstance(offspring, list)` branch: the returned list (`none` = raises) -/",
            f"def Mutations.reinit_from_mutated_list{ep} (a0 : List (PyNet α)) (a1 : Bool)"
            + "".join(f" ({n} : List (PyNet α))" for n in news) + " : Option (List (PyNet α)) :="] + em.lines + [""]


def tr_clone_list(fn: ast.FunctionDef) -> list[str]:
    """the clone expression of get_offspring_eval_modules: `[mod.clone() for mod in M] if isinstance(M, list) else M.clone()`"""
    found = []
    for n in ast.walk(fn):
        if isinstance(n, ast.IfExp) and isinstance(n.test, ast.Call) and isinstance(n.test.func, ast.Name) \
                and n.test.func.id == "isinstance" and len(n.test.args) == 2 and isinstance(n.test.args[1], ast.Name) \
                and n.test.args[1].id == "list" and isinstance(n.test.args[0], ast.Name):
            found.append(n)
    if len(found) != 1:
        fail(fn, f"{len(found)} expressions `… if isinstance(x, list) else …` in get_offspring_eval_modules")
    n = found[0]
    var = n.test.args[0].id
    em = Emit()
    env = {var: ("a0", NETS)}
    f = Fn(em, env, None, set())
    e, t = f.ex(n.body)
    if t != NETS:
        fail(n, f"the list branch is a {t}")
    em.put(f"some {e}")
    news = env.get("#news", [])
    return ["/-- `get_offspring_eval_modules`, list branch: the offspring of a list of evaluation networks -/",
            "def get_offspring_eval_modules_list (a0 : List (PyNet α))" + "".join(f" ({x} : List (PyNet α))" for x in news)
            + " : Option (List (PyNet α)) :="] + em.lines + [""]


def tr_apply_list(fn: ast.FunctionDef) -> list[str]:
    args = fn_args(fn)
    tys = [ann_type(a.annotation) for a in args]
    if tys != ["offspring", METHS, OKWS]:
        fail(fn, f"signature of _apply_arch_mutation")
    nets, mm, amd = (a.arg for a in args)
    stmts = list_branch(fn, nets)
    ext: set = set()
    # split: statements before the loop, the loop, the return
    loops = [i for i, s in enumerate(stmts) if isinstance(s, ast.For)]
    if len(loops) != 1:
        fail(fn, f"{len(loops)} loops in the list branch of _apply_arch_mutation")
    li = loops[0]
    lp = stmts[li]
    if not (isinstance(lp.iter, ast.Call) and isinstance(lp.iter.func, ast.Name) and lp.iter.func.id == "enumerate"
            and len(lp.iter.args) == 1 and not lp.iter.keywords and isinstance(lp.iter.args[0], ast.Name) and lp.iter.args[0].id == nets
            and isinstance(lp.target, ast.Tuple) and len(lp.target.elts) == 2
            and all(isinstance(t, ast.Name) for t in lp.target.elts)) or lp.orelse:
        fail(lp, "loop that is not `for i, net in enumerate(networks)`")
    iv, nv = (t.id for t in lp.target.elts)
    if stmts[li + 1:] == [] or not isinstance(stmts[li + 1], ast.Return) or len(stmts) != li + 2:
        fail(fn, "the loop is not followed by exactly the return")
    ret = stmts[li + 1].value
    if not (isinstance(ret, ast.Tuple) and len(ret.elts) == 2 and all(isinstance(e, ast.Name) for e in ret.elts)):
        fail(stmts[li + 1], "return that is not a pair of names")
    ret_names = [e.id for e in ret.elts]
    # ---- pre-loop
    em = Emit()
    env = {nets: ("a0", OBJS), mm: ("a1", METHS), amd: ("a2", OKWS)}
    pre = Fn(em, env, None, ext)
    accs = []

    def pre_stmt(s):
        # `if X is None: X = e` on the optional parameter, `if isinstance(mm, str) or mm is None: mm = [mm] * len(nets)`
        if isinstance(s, ast.If) and not s.orelse and len(s.body) == 1 and isinstance(s.body[0], ast.Assign) \
                and len(s.body[0].targets) == 1 and isinstance(s.body[0].targets[0], ast.Name):
            tgt = s.body[0].targets[0].id
            val = s.body[0].value
            e0, t0 = pre.env.get(tgt, (None, None))
            if t0 == OKWS and isinstance(s.test, ast.Compare) and isinstance(s.test.ops[0], ast.Is) \
                    and isinstance(s.test.left, ast.Name) and s.test.left.id == tgt \
                    and isinstance(s.test.comparators[0], ast.Constant) and s.test.comparators[0].value is None:
                e, t = pre.ex(val, KWS)
                if t != KWS:
                    fail(s, f"default of type {t}")
                v = em.fresh_v()
                em.put(f"let {v} : List κ := match {e0} with")
                em.put(f"  | none => {e}")
                em.put("  | some l => l")
                pre.env[tgt] = (v, KWS)
                return
            if t0 == METHS:
                # the test must be exactly the `.one` case: isinstance(x, str) or x is None (either order)
                t = s.test
                ok = isinstance(t, ast.BoolOp) and isinstance(t.op, ast.Or) and len(t.values) == 2
                kinds = set()
                if ok:
                    for v_ in t.values:
                        if isinstance(v_, ast.Call) and isinstance(v_.func, ast.Name) and v_.func.id == "isinstance" \
                                and len(v_.args) == 2 and isinstance(v_.args[0], ast.Name) and v_.args[0].id == tgt \
                                and isinstance(v_.args[1], ast.Name) and v_.args[1].id == "str":
                            kinds.add("str")
                        elif isinstance(v_, ast.Compare) and isinstance(v_.ops[0], ast.Is) and isinstance(v_.left, ast.Name) \
                                and v_.left.id == tgt and isinstance(v_.comparators[0], ast.Constant) \
                                and v_.comparators[0].value is None:
                            kinds.add("none")
                if kinds != {"str", "none"}:
                    fail(s, f"test on the method argument that is not `isinstance(x, str) or x is None`: {src(t)}")
                sub = pre.fork()
                sub.env[tgt] = ("m", OSTR)
                e, ty = sub.ex(val, OSTRS)
                if ty != OSTRS:
                    fail(s, f"replicated value of type {ty}")
                v = em.fresh_v()
                em.put(f"let {v} : List (Option String) := match {e0} with")
                em.put(f"  | .one m => {e}")
                em.put("  | .many ms => ms")
                pre.env[tgt] = (v, OSTRS)
                return
        if isinstance(s, ast.Assign) and len(s.targets) == 1 and isinstance(s.targets[0], ast.Name):
            if isinstance(s.value, ast.List) and not s.value.elts:
                accs.append(s.targets[0].id)
                pre.env[s.targets[0].id] = ("[]", "emptylist")
                return
            if isinstance(s.value, ast.Constant) and s.value.value is None:
                pre.env[s.targets[0].id] = ("none", NONE)
                return
        fail(s, f"statement before the loop: {src(s)}")

    for s in stmts[:li]:
        pre_stmt(s)
    if env_ty(pre.env, mm) != OSTRS or env_ty(pre.env, amd) != KWS:
        fail(fn, "the method / keyword arguments are not normalised to lists before the loop")
    if sorted(accs) != sorted(ret_names) or any(pre.env[a][1] != "emptylist" for a in accs):
        fail(fn, f"the returned names {ret_names} are not exactly the lists initialised empty before the loop ({accs})")
    acc_ty = {ret_names[0]: OSTRS, ret_names[1]: KWS}
    # ---- loop body
    eml = Emit()
    eml.indent = 2
    lenv = {iv: ("i", NAT), nv: ("e", OBJ), mm: ("vm", OSTRS), amd: ("vk", KWS)}

    def finish(me, val, node):
        if val is not None:
            fail(node, "return inside the loop")
        items = {}
        for a in ret_names:
            its = []
            for (e, t, c) in me.loop["accs"][a]:
                e, t = me.coerce(c, e, t, ELEM[acc_ty[a]]) if t != ELEM[acc_ty[a]] else (e, t)
                its.append(e)
            items[a] = "[" + ", ".join(its) + "]"
        e, _ = me.env[nv]
        me.em.put(f"match Mutations._apply_arch_mutation_loop0{ext_args(ext)} vm vk rest with")
        me.em.put("| none => none")
        me.em.put(f"| some out => some ({e} :: out.1, {items[ret_names[0]]} ++ out.2.1, {items[ret_names[1]]} ++ out.2.2)")

    body = Fn(eml, dict(lenv), finish, ext, loop={"accs": {a: [] for a in ret_names}})
    body.block(lp.body, lambda me: me.finish(me, None, lp))
    eml2 = Emit()
    eml2.indent = 2
    body2 = Fn(eml2, dict(lenv), finish, ext, loop={"accs": {a: [] for a in ret_names}})
    body2.block(lp.body, lambda me: me.finish(me, None, lp))
    ep = ext_params(ext, EXT_ORDER)
    ep = (" " + ep) if ep else ""
    out = ["/-- the loop of `Mutations._apply_arch_mutation` (list branch): (the network objects afterwards, "
           f"`{ret_names[0]}`, `{ret_names[1]}`) -/",
           f"def Mutations._apply_arch_mutation_loop0{ep} (vm : List (Option String)) (vk : List κ) :",
           "    List (Nat × PyObj σ) → Option (List (PyObj σ) × List (Option String) × List κ)",
           "  | [] => some ([], [], [])", "  | (i, e) :: rest =>"] + eml2.lines + [""]
    out += ["/-- `Mutations._apply_arch_mutation`, the `isinstance(networks, list)` branch -/",
            f"def Mutations._apply_arch_mutation_list{ep} (a0 : List (PyObj σ)) (a1 : PyMeths) (a2 : Option (List κ)) :",
            "    Option (List (PyObj σ) × List (Option String) × List κ) :="] + em.lines
    out += [f"  Mutations._apply_arch_mutation_loop0{ext_args(ext)} {pre.env[mm][0]} {pre.env[amd][0]} (pyEnumFrom 0 a0)", ""]
    return out


def env_ty(env, name):
    return env.get(name, (None, None))[1]


# ------------------------------------------------------------------------------------------------ part D
def ctx_fields(init: ast.FunctionDef) -> dict:
    """MutationContext.__init__: positional parameter k is stored in field f  ->  {field: k}"""
    args = fn_args(init)
    out = {}
    for s in strip_doc(init.body):
        if not (isinstance(s, ast.Assign) and len(s.targets) == 1 and isinstance(s.targets[0], ast.Attribute)
                and isinstance(s.targets[0].value, ast.Name) and s.targets[0].value.id == "self"
                and isinstance(s.value, ast.Name) and s.value.id in [a.arg for a in args]):
            fail(s, f"MutationContext.__init__: {src(s)}")
        out[s.targets[0].attr] = [a.arg for a in args].index(s.value.id)
    return out


def tr_deco(cls: ast.ClassDef, wrapper: ast.FunctionDef, rel: str) -> list[str]:
    def method(name):
        fs = [s for s in cls.body if isinstance(s, ast.FunctionDef) and s.name == name]
        if len(fs) != 1:
            raise Unsupported(f"{rel}: MutationContext.{name} defined {len(fs)} times")
        return fs[0]

    fields = ctx_fields(method("__init__"))
    # the three fields: which is the module, the method, the attribute name is decided by the parameter order (module, method, attribute)
    if sorted(fields.values()) != [0, 1, 2]:
        fail(cls, "MutationContext.__init__ does not store its three parameters")
    by_pos = {v: k for k, v in fields.items()}
    fld_ty = {by_pos[0]: MOD, by_pos[1]: METH, by_pos[2]: STR}
    fld_lean = {by_pos[0]: "m", by_pos[1]: "meth", by_pos[2]: "attr"}

    def self_env():
        return {"self." + f: (fld_lean[f], fld_ty[f]) for f in fields}

    out = []
    modkey = "self." + by_pos[0]
    ext_all: set = set()

    # ---- __enter__
    fn = method("__enter__")
    em = Emit()

    def fin_enter(me, val, node):
        if val is not None and not (isinstance(val, ast.Name) and val.id == "self"):
            fail(node, "__enter__ returns something else than self")
        me.em.put(me.env[modkey][0])

    f = Fn(em, self_env(), fin_enter, set(), allow_fallible=False)
    f.block(strip_doc(fn.body), lambda me: me.finish(me, None, fn))
    out += ["/-- `MutationContext.__enter__`: the module's bookkeeping afterwards -/",
            "def MutationContext.__enter__ (m : PyMod) (meth : PyMeth) (attr : String) : PyMod :="] + em.lines + [""]

    # ---- _resolve_final_mutation_attr
    fn = method("_resolve_final_mutation_attr")
    em = Emit()
    ext_res: set = set()

    def fin_res(me, val, node):
        if val is None:
            me.em.put("some none")
            return
        if isinstance(val, ast.Name) and val.id in me.env:
            e, t = me.opt_of(val.id)
        else:
            e, t = me.ex(val)
        e, t = me.coerce(node, e, t, OSTR)
        me.em.put(f"some {e}")

    class FnRes(Fn):
        pass

    f = Fn(em, self_env(), fin_res, ext_res)
    # narrowing of `self.module.last_mutation_attr is not None and "." in self.module.last_mutation_attr`
    body = strip_doc(fn.body)
    f.block(narrow_attr_tests(body), lambda me: me.finish(me, None, fn))
    ep = ext_params(ext_res, EXT_ORDER)
    ep = (" " + ep) if ep else ""
    out += ["/-- `MutationContext._resolve_final_mutation_attr` (`none` = AttributeError) -/",
            f"def MutationContext._resolve_final_mutation_attr{ep} (m : PyMod) (meth : PyMeth) (attr : String) : Option (Option String) :="] \
        + em.lines + [""]
    ext_all |= ext_res

    # ---- __exit__
    fn = method("__exit__")
    em = Emit()
    ext_exit: set = set(ext_res)

    def call_res(me, c):
        if c.args or c.keywords:
            fail(c, "_resolve_final_mutation_attr with arguments")
        r = me.bind(c, f"MutationContext._resolve_final_mutation_attr{ext_args(ext_res)} {me.env[modkey][0]} meth attr")
        return r, OSTR

    def fin_exit(me, val, node):
        if val is not None:
            fail(node, "__exit__ returns a value (it could swallow the exception)")
        me.em.put(f"some {me.env[modkey][0]}")

    class FnExit(Fn):
        pass

    f = Fn(em, self_env(), fin_exit, ext_exit, sigs={"_resolve_final_mutation_attr": call_res})
    f.block(rewrite_exit(strip_doc(fn.body)), lambda me: me.finish(me, None, fn))
    ep = ext_params(ext_exit, EXT_ORDER)
    ep = (" " + ep) if ep else ""
    out += ["/-- `MutationContext.__exit__`: the module's bookkeeping afterwards, `recreate_network` / the hook logged",
            "    (`none` = raises; it returns None, so an exception of the body propagates) -/",
            f"def MutationContext.__exit__{ep} (m : PyMod) (meth : PyMeth) (attr : String) : Option PyMod :="] + em.lines + [""]
    ext_all |= ext_exit

    # ---- wrapped
    args = fn_args(wrapper, skip_self=False)
    if [a.arg for a in args][:0] != [] or len(args) != 3:
        fail(wrapper, "_mutation_wrapper does not take (module, method, attribute)")
    inner = [s for s in wrapper.body if isinstance(s, ast.FunctionDef)]
    if len(inner) != 1:
        fail(wrapper, "_mutation_wrapper does not define exactly one function")
    w = inner[0]
    rets = [s for s in strip_doc(wrapper.body) if not isinstance(s, ast.FunctionDef)]
    if not (len(rets) == 1 and isinstance(rets[0], ast.Return) and isinstance(rets[0].value, ast.Name) and rets[0].value.id == w.name):
        fail(wrapper, "_mutation_wrapper does not return its inner function")
    if not (w.args.vararg and w.args.kwarg and not w.args.args):
        fail(w, "the wrapped function does not take (*args, **kwargs)")
    body = strip_doc(w.body)
    if len(body) != 1 or not isinstance(body[0], ast.With):
        fail(w, "the wrapped function is not a single `with`")
    wi = body[0]
    if len(wi.items) != 1 or wi.items[0].optional_vars is not None:
        fail(wi, "with … as / several context managers")
    ce = wi.items[0].context_expr
    if not (isinstance(ce, ast.Call) and isinstance(ce.func, ast.Name) and ce.func.id == cls.name and not ce.keywords
            and len(ce.args) == 3 and all(isinstance(a, ast.Name) for a in ce.args)):
        fail(wi, "the context manager is not MutationContext(a, b, c)")
    pnames = [a.arg for a in args]
    wtypes = {}
    for k, a in enumerate(ce.args):
        if a.id not in pnames:
            fail(wi, f"MutationContext argument {a.id} is not a parameter of _mutation_wrapper")
        wtypes[a.id] = [MOD, METH, STR][k]
    if sorted(wtypes) != sorted(pnames):
        fail(wi, "MutationContext does not receive the three parameters")
    lean_of = {MOD: "m", METH: "meth", STR: "attr"}
    em = Emit()
    ext_w: set = set(ext_exit)
    em.put("let m0 : PyMod := MutationContext.__enter__ m meth attr")
    em.put("let wr : PyMod × PyRes κ :=")
    env = {p: (("m0" if wtypes[p] == MOD else lean_of[wtypes[p]]), wtypes[p]) for p in pnames}
    modname = [p for p in pnames if wtypes[p] == MOD][0]
    methname = [p for p in pnames if wtypes[p] == METH][0]
    attrname = [p for p in pnames if wtypes[p] == STR][0]

    def fin_w(me, val, node):
        mod = me.env[modname][0]
        if val is None:
            me.em.put(f"({mod}, PyRes.ret none)")
            return
        # return method(*args, **kwargs) / return module.get_mutation_methods()[attribute](*args, **kwargs)
        if isinstance(val, ast.Call) and len(val.args) == 1 and isinstance(val.args[0], ast.Starred) \
                and len(val.keywords) == 1 and val.keywords[0].arg is None:
            fnode = val.func
            if isinstance(fnode, ast.Name) and fnode.id == methname:
                ext_w.add("ext_body")
                me.em.put(f"ext_body {mod} meth")
                return
            if (isinstance(fnode, ast.Subscript) and isinstance(fnode.value, ast.Call)
                    and isinstance(fnode.value.func, ast.Attribute) and fnode.value.func.attr == "get_mutation_methods"
                    and isinstance(fnode.value.func.value, ast.Name) and fnode.value.func.value.id == modname
                    and not fnode.value.args):
                k, kt = me.ex(fnode.slice)
                if kt != STR:
                    fail(node, "method table indexed by a non-string")
                ext_w.add("ext_nested")
                me.em.put(f"ext_nested {mod} {k}")
                return
        fail(node, f"return value of the wrapped function: {src(val)}")

    em.indent = 2
    f = Fn(em, env, fin_w, ext_w, allow_fallible=False)
    f.block(wi.body, lambda me: me.finish(me, None, wi))
    em.indent = 1
    em.put(f"match MutationContext.__exit__{ext_args(ext_exit)} wr.1 meth attr with")
    em.put("| none => none")
    em.put("| some m1 => some (m1, wr.2)")
    ep = ext_params(ext_w, EXT_ORDER)
    ep = (" " + ep) if ep else ""
    out += ["/-- `_mutation_wrapper(module, method, attribute)(*args, **kwargs)`: `with MutationContext(…)` = `__enter__`, the body,",
            "    `__exit__` on every path; the outcome of the body (value or exception) propagates -/",
            f"def _mutation_wrapper.wrapped{ep} (m : PyMod) (meth : PyMeth) (attr : String) : Option (PyMod × PyRes κ) :="] \
        + em.lines + [""]
    return out


def narrow_attr_tests(stmts):
    """`X.f is not None and <c>` as the test of an if (X.f an attribute chain): bind `X.f` to a local first so that the
    narrowing of optional locals applies: `_t = X.f; if _t is not None: if <c with X.f -> _t>: A else: B else: B`"""
    import copy
    out = []
    for s in stmts:
        if isinstance(s, ast.If) and isinstance(s.test, ast.BoolOp) and isinstance(s.test.op, ast.And) and len(s.test.values) == 2:
            a, b = s.test.values
            if (isinstance(a, ast.Compare) and isinstance(a.ops[0], ast.IsNot) and isinstance(a.comparators[0], ast.Constant)
                    and a.comparators[0].value is None and isinstance(a.left, ast.Attribute)):
                key = ast.dump(a.left)

                class R(ast.NodeTransformer):
                    def visit_Attribute(self, node):
                        if ast.dump(node) == key:
                            return ast.copy_location(ast.Name(id="_t", ctx=ast.Load()), node)
                        return self.generic_visit(node)

                # only reads of X.f inside the branch may be replaced while X.f is not reassigned: require no store to it
                for sub in ast.walk(ast.Module(body=s.body, type_ignores=[])):
                    if isinstance(sub, ast.Attribute) and isinstance(sub.ctx, ast.Store) and sub.attr == a.left.attr:
                        fail(sub, "store into the tested attribute inside the branch")
                body2 = [R().visit(copy.deepcopy(x)) for x in s.body]
                b2 = R().visit(copy.deepcopy(b))
                inner = ast.If(test=b2, body=body2, orelse=copy.deepcopy(s.orelse))
                outer = ast.If(test=ast.Compare(left=ast.Name(id="_t", ctx=ast.Load()), ops=[ast.IsNot()],
                                                comparators=[ast.Constant(value=None)]),
                               body=[inner], orelse=copy.deepcopy(s.orelse))
                asg = ast.Assign(targets=[ast.Name(id="_t", ctx=ast.Store())], value=copy.deepcopy(a.left))
                for x in (inner, outer, asg):
                    ast.copy_location(x, s)
                    ast.fix_missing_locations(x)
                out += [asg, outer]
                continue
        out.append(s)
    return out


def rewrite_exit(stmts):
    """`inspect.signature(X.recreate_network).parameters` -> the field `recreate_params` of X (checked form)"""
    import copy

    class R(ast.NodeTransformer):
        def visit_Attribute(self, node):
            self.generic_visit(node)
            v = node.value
            if (node.attr == "parameters" and isinstance(v, ast.Call) and isinstance(v.func, ast.Attribute)
                    and v.func.attr == "signature" and isinstance(v.func.value, ast.Name) and v.func.value.id == "inspect"
                    and len(v.args) == 1 and isinstance(v.args[0], ast.Attribute) and v.args[0].attr == "recreate_network"):
                return ast.copy_location(ast.Attribute(value=v.args[0].value, attr="recreate_params", ctx=ast.Load()), node)
            if node.attr == "_mutation_hook" and isinstance(node.ctx, ast.Load):
                return node
            return node

    return [R().visit(copy.deepcopy(s)) for s in stmts]


MOD_FIELDS["recreate_params"] = STRS


# `X._mutation_hook is not None` -> has_hook
_orig_cond = Fn.cond


def _cond(self, n):
    if (isinstance(n, ast.Compare) and len(n.ops) == 1 and isinstance(n.ops[0], (ast.Is, ast.IsNot))
            and isinstance(n.comparators[0], ast.Constant) and n.comparators[0].value is None
            and isinstance(n.left, ast.Attribute) and n.left.attr == "_mutation_hook"):
        b, bt = self.ex(n.left.value)
        if bt == MOD:
            return f"{b}.has_hook = {'false' if isinstance(n.ops[0], ast.Is) else 'true'}"
    return _orig_cond(self, n)


Fn.cond = _cond


# ------------------------------------------------------------------------------------------------ driver
def repo_dir(arg: str | None = None) -> Path:
    if arg:
        return Path(arg)
    return Path(os.environ.get("VERIF_REPO", "/repo"))


def translate(repo: Path) -> tuple[str, str]:
    h = hashlib.sha256()
    mods = {}
    for rel in REL_SOURCES:
        path = Path(repo) / rel
        try:
            raw = path.read_bytes()
        except OSError as e:
            raise Unsupported(f"cannot read {path}: {e}") from e
        h.update(rel.encode() + b"\0" + raw + b"\0")
        try:
            mods[rel] = ast.parse(raw.decode("utf-8"))
        except UnicodeDecodeError as e:
            raise Unsupported(f"{rel}: not utf-8: {e}") from e
        except SyntaxError as e:
            raise Unsupported(f"{rel}:{e.lineno}: not parseable: {e.msg}") from e
    sha = h.hexdigest()
    body: list[str] = []
    try:
        rel = REL_SOURCES[0]
        _cur[0] = rel
        body += [f"/-! ### lists of networks (`{rel}`) -/", ""]
        lsd, lsd_ext, _ = tr_load_state_dicts(find_function(mods[rel], rel, ["Mutations", "load_state_dicts"]))
        body += lsd
        body += tr_reinit_list(find_function(mods[rel], rel, ["Mutations", "reinit_from_mutated"]), lsd_ext)
        body += tr_clone_list(find_function(mods[rel], rel, ["get_offspring_eval_modules"]))
        body += tr_apply_list(find_function(mods[rel], rel, ["Mutations", "_apply_arch_mutation"]))
        rel = REL_SOURCES[1]
        _cur[0] = rel
        body += [f"/-! ### the mutation decorator (`{rel}`) -/", ""]
        cls = [s for s in mods[rel].body if isinstance(s, ast.ClassDef) and s.name == "MutationContext"]
        if len(cls) != 1:
            raise Unsupported(f"{rel}: class MutationContext not found exactly once")
        body += tr_deco(cls[0], find_function(mods[rel], rel, ["_mutation_wrapper"]), rel)
    except RecursionError as e:
        raise Unsupported(f"{_cur[0]}: nesting too deep") from e
    finally:
        _cur[0] = REL_SOURCE
    header = "\n".join([
        "import Gen.PreserveGen",
        "/-",
        "  Gen/PreserveMaGen.lean — GENERATED by harness/py2lean_preservema.py from the list branch of the weight plumbing",
        "  (Mutations.load_state_dicts, reinit_from_mutated, _apply_arch_mutation, get_offspring_eval_modules) and the mutation",
        "  decorator (MutationContext, _mutation_wrapper) (" + ", ".join(REL_SOURCES) + ");",
        "  do not edit.  Core Lean only.  `Proofs/PreserveMaGenEq.lean` proves each definition equal to its counterpart",
        "  in `Model/Preserve.lean`.",
        "-/",
        SHA_PREFIX + sha,
        "set_option linter.unusedVariables false",
        "",
        "namespace PreserveMaGen",
        "open PreserveGen",
        "",
        "section",
        "variable {α σ κ : Type}",
    ])
    text = header + "\n" + PRELUDE + "\n" + "\n".join(body).rstrip() + "\n\nend\n\nend PreserveMaGen\n"
    return text, sha


def strip_sha(text: str) -> str:
    return "\n".join(ln for ln in text.split("\n") if not ln.startswith(SHA_PREFIX))


def write_if_changed(text: str, out: Path, force: bool = False) -> bool:
    out = Path(out)
    old = out.read_text() if out.exists() else None
    if old is not None and not force and strip_sha(old) == strip_sha(text):
        return False
    if old == text:
        return False
    out.parent.mkdir(parents=True, exist_ok=True)
    tmp = out.with_suffix(".lean.tmp")
    tmp.write_text(text)
    os.replace(tmp, out)
    return True


def main(argv: list[str]) -> int:
    import argparse
    ap = argparse.ArgumentParser()
    ap.add_argument("--repo", default=None)
    ap.add_argument("--out", default=str(DEFAULT_OUT))
    ap.add_argument("--stdout", action="store_true")
    ap.add_argument("--force", action="store_true")
    a = ap.parse_args(argv)
    try:
        text, sha = translate(repo_dir(a.repo))
    except Unsupported as e:
        print(f"py2lean_preservema: {e}", file=sys.stderr)
        return 1
    if a.stdout:
        sys.stdout.write(text)
        return 0
    changed = write_if_changed(text, Path(a.out), a.force)
    print(f"{a.out}: {'written' if changed else 'unchanged'} (source sha256 {sha[:16]}…, "
          f"translation sha256 {hashlib.sha256(strip_sha(text).encode()).hexdigest()[:16]}…)")
    return 0


if __name__ == "__main__":
    sys.exit(main(sys.argv[1:]))
