#!/usr/bin/env python3
"""py2lean_registry — AST translator of the mutation REGISTRY and of the validation run at the end of every algorithm's
`__init__` into Lean (lean/Gen/RegistryGen.lean).  Never imports agilerl.

Translated (every operator, `not`, `in` / `not in`, constant, statement order, comprehension clause, raised class and
field name flows from the AST):
  agilerl/algorithms/core/registry.py
    OptimizerConfig.__eq__                       -> optcfg_eq
    MutationRegistry.__eq__                      -> registry_eq        (groups: dataclass equality of NetworkGroup = all fields)
    MutationRegistry.optimizer_networks / policy / all_registered
    MutationRegistry.register_group / register_optimizer / register_hook
  agilerl/algorithms/core/base.py
    EvolvableAlgorithm._registry_init            -> registry_init : RegistryData -> Except String Unit (the raised CLASS name)
    EvolvableAlgorithm.register_network_group / register_mutation_hook
    EvolvableAlgorithm.__setattr__               -> setattr_ (the OptimizerWrapper auto-registration)
and the fixed trailer `registryAccepted r := registry_init r did not raise`.

Representation (registry-as-data, what the C02 harness reads from a live agent): attribute names are `Nat`s; a
NetworkGroup AFTER `__post_init__` is (eval name, shared names or None, policy, multiagent); an OptimizerConfig is
(name, networks, lr name, multiagent); `hp_config` is the list of its keys (`iter(hp_config)`), None if absent.
`RegistryData` = the registry + what `_registry_init` asks the algorithm object: `evolvable_attributes()` (names) and the
names for which `hasattr(self, ·)` holds.

Supported subset: `def` with `self`; statements: assignment to a fresh local, `x.update(gen)` on a local set (sets are
lists, only membership is observed), `self.<list>.append(e)`, `if` / `if not` with a body that raises or is a nested
`for` / `if`, `for x in <list>` whose body only tests and raises, `for … : if c: return e` followed by `return None`,
`return e`, `raise Cls(...)` (the message is dropped, the class is kept), `super().__setattr__` (records the attribute);
expressions: attribute chains over the typed fields below, `==`, `and`, `not`, `in`, `not in`, `is None`, `is not None`,
`any(gen)`, list / set / dict / generator comprehensions with several `for` / `if` clauses, the idiom
`X if isinstance(X, list) else [X]` (ASSUMED identity on this representation: a single shared name is the one-element
list), `isinstance(value, OptimizerWrapper)` (= the value is `some` wrapper), keyword construction of OptimizerConfig
(`optimizer_cls`, `optimizer_kwargs` are dropped: not part of the data), calls of the translated methods.
Docstrings are skipped.  Everything else raises `Unsupported` with the construct and the line.
NOT translated (too dynamic: stack frames, `id()`, `vars()`): NetworkGroup.__post_init__ / _infer_* — the harness suite
`registry` drives them on the real objects instead.
"""
from __future__ import annotations

import ast
import hashlib
import os
import sys
from pathlib import Path

HERE = Path(__file__).resolve().parent
DEFAULT_OUT = HERE.parent / "lean" / "Gen" / "RegistryGen.lean"
REL_SOURCE = "agilerl/algorithms/core/registry.py"
REL_SOURCE2 = "agilerl/algorithms/core/base.py"
SHA_PREFIX = "-- sha256(source) = "


class Unsupported(Exception):
    pass


def fail(node, what):
    raise Unsupported(f"{what} (line {getattr(node, 'lineno', '?')})")


# field -> (lean field, lean type) per receiver type
FIELDS = {
    "Registry": {"groups": ("groups", "List Grp"), "optimizers": ("optimizers", "List OptCfg"), "hooks": ("hooks", "List Nat"),
                 "hp_config": ("hp_config", "Option (List Nat)")},
    "Grp": {"eval": ("eval", "Nat"), "shared": ("shared", "Option (List Nat)"), "policy": ("policy", "Bool"),
            "multiagent": ("multiagent", "Bool")},
    "OptCfg": {"name": ("name", "Nat"), "networks": ("networks", "List Nat"), "lr": ("lr", "Nat"), "multiagent": ("multiagent", "Bool")},
    "RegistryData": {"registry": ("registry", "Registry")},
    "Wrap": {"network_names": ("network_names", "List Nat"), "lr_name": ("lr_name", "Nat"), "multiagent": ("multiagent", "Bool")},
    "Hook": {"__name__": ("", "Nat")},
}
ELEM = {"List Grp": "Grp", "List OptCfg": "OptCfg", "List Nat": "Nat", "Option (List Nat)": "Nat"}
REG_METHODS = {"all_registered": ("all_registered", "List Nat"), "register_group": ("register_group", "Registry"),
               "register_optimizer": ("register_optimizer", "Registry"), "register_hook": ("register_hook", "Registry")}
REG_PROPS = {"optimizer_networks": ("optimizer_networks", "List (Nat × List Nat)"), "policy": ("policy", "Option Nat")}
DROPPED_KW = {"optimizer_cls", "optimizer_kwargs"}


class Tr:
    def __init__(self, self_ty):
        self.self_ty = self_ty
        self.env = {}

    # ---- expressions: returns (lean, type)
    def expr(self, e):
        if isinstance(e, ast.Name):
            if e.id in self.env:
                return self.env[e.id]
            fail(e, f"unknown name {e.id}")
        if isinstance(e, ast.Constant) and e.value is None:
            return "none", "None"
        if isinstance(e, ast.Attribute):
            b, t = self.expr(e.value)
            if t == "Registry" and e.attr in REG_PROPS:
                n, ty = REG_PROPS[e.attr]
                return f"({n} {b})", ty
            if t == "Option Wrap" and e.attr in FIELDS["Wrap"]:
                f, ty = FIELDS["Wrap"][e.attr]
                return f"(wrapGet {b}).{f}", ty
            if t in FIELDS and e.attr in FIELDS[t]:
                f, ty = FIELDS[t][e.attr]
                return (f"{b}.{f}" if f else b), ty
            fail(e, f"attribute .{e.attr} of a {t}")
        if isinstance(e, ast.UnaryOp) and isinstance(e.op, ast.Not):
            return f"(!{self.truthy(e.operand)})", "Bool"
        if isinstance(e, ast.BoolOp):
            op = " && " if isinstance(e.op, ast.And) else " || "
            return "(" + op.join(self.truthy(v) for v in e.values) + ")", "Bool"
        if isinstance(e, ast.Compare) and len(e.ops) == 1:
            op, r = e.ops[0], e.comparators[0]
            if isinstance(op, (ast.Is, ast.IsNot)) and isinstance(r, ast.Constant) and r.value is None:
                a, t = self.expr(e.left)
                if not t.startswith("Option"):
                    fail(e, f"`is None` on a {t}")
                return (f"{a}.isNone" if isinstance(op, ast.Is) else f"{a}.isSome"), "Bool"
            a, ta = self.expr(e.left)
            b, tb = self.expr(r)
            if isinstance(op, (ast.Eq, ast.NotEq)):
                if ta != tb:
                    fail(e, f"== between {ta} and {tb}")
                eq = f"(listEqBy optcfg_eq {a} {b})" if ta == "List OptCfg" else f"({a} == {b})"
                return (eq if isinstance(op, ast.Eq) else f"(!{eq})"), "Bool"
            if isinstance(op, (ast.In, ast.NotIn)):
                if tb != f"List {ta}":
                    fail(e, f"`in` between {ta} and {tb}")
                c = f"({b}.contains {a})"
                return (c if isinstance(op, ast.In) else f"(!{c})"), "Bool"
            fail(e, f"comparison {type(op).__name__}")
        if isinstance(e, ast.IfExp):
            # X if isinstance(X, list) else [X]
            t = e.test
            if (isinstance(t, ast.Call) and isinstance(t.func, ast.Name) and t.func.id == "isinstance" and len(t.args) == 2
                    and isinstance(t.args[1], ast.Name) and t.args[1].id == "list" and ast.dump(t.args[0]) == ast.dump(e.body)
                    and isinstance(e.orelse, ast.List) and len(e.orelse.elts) == 1 and ast.dump(e.orelse.elts[0]) == ast.dump(e.body)):
                a, ta = self.expr(e.body)
                if ta != "Option (List Nat)":
                    fail(e, f"list-or-single idiom on a {ta}")
                return f"(asList {a})", "List Nat"
            fail(e, "conditional expression other than `X if isinstance(X, list) else [X]`")
        if isinstance(e, (ast.ListComp, ast.SetComp, ast.GeneratorExp)):
            return self.comp(e, e.elt)
        if isinstance(e, ast.DictComp):
            saved = dict(self.env)
            body = self.comp_clauses(e, lambda: self._pair(e))
            self.env = saved
            return body
        if isinstance(e, ast.Call):
            return self.call(e)
        fail(e, f"expression {type(e).__name__}")

    def _pair(self, e):
        k, tk = self.expr(e.key)
        v, tv = self.expr(e.value)
        return f"({k}, {v})", f"{tk} × {tv}"

    def comp(self, e, elt):
        saved = dict(self.env)
        r = self.comp_clauses(e, lambda: self.expr(elt))
        self.env = saved
        return r

    def comp_clauses(self, e, mk):
        opens, n = "", 0
        for g in e.generators:
            if g.is_async or not isinstance(g.target, ast.Name):
                fail(e, "comprehension target")
            it, tit = self.expr(g.iter)
            if tit not in ELEM or tit.startswith("Option"):
                fail(g.iter, f"iteration over a {tit}")
            self.env[g.target.id] = (g.target.id, ELEM[tit])
            opens += f"({it}.flatMap fun {g.target.id} => "
            n += 1
            for c in g.ifs:
                opens += f"if {self.truthy(c)} then "
                n += 0
        elt, te = mk()
        # close: innermost element, `else []` for every if, in order
        out = opens + f"[{elt}]"
        closes = []
        for g in e.generators:
            closes.append((len(g.ifs)))
        # ifs belong to the generator they follow: close in reverse
        for k in reversed(closes):
            out += " else []" * k + ")"
        return out, f"List {te}" if "×" not in te else f"List ({te})"

    def truthy(self, e):
        a, t = self.expr(e)
        if t == "Bool":
            return a
        if t.startswith("List"):
            return f"(!{a}.isEmpty)"
        fail(e, f"truth value of a {t}")

    def call(self, e):
        f = e.func
        if isinstance(f, ast.Name) and f.id == "any" and len(e.args) == 1 and isinstance(e.args[0], ast.GeneratorExp):
            a, t = self.expr(e.args[0])
            if t != "List Bool":
                fail(e, f"any over {t}")
            return f"({a}.any id)", "Bool"
        if isinstance(f, ast.Name) and f.id == "isinstance" and len(e.args) == 2 and isinstance(e.args[1], ast.Name) \
                and e.args[1].id == "OptimizerWrapper":
            a, t = self.expr(e.args[0])
            if t != "Option Wrap":
                fail(e, f"isinstance(_, OptimizerWrapper) on a {t}")
            return f"{a}.isSome", "Bool"
        if isinstance(f, ast.Name) and f.id == "hasattr" and len(e.args) == 2:
            a, t = self.expr(e.args[0])
            b, tb = self.expr(e.args[1])
            if t != "RegistryData" or tb != "Nat":
                fail(e, "hasattr")
            return f"({a}.attrs.contains {b})", "Bool"
        if isinstance(f, ast.Name) and f.id == "OptimizerConfig" and not e.args:
            kws = {}
            for k in e.keywords:
                if k.arg in DROPPED_KW:
                    continue
                if k.arg not in FIELDS["OptCfg"]:
                    fail(e, f"OptimizerConfig keyword {k.arg}")
                v, tv = self.expr(k.value)
                if tv != FIELDS["OptCfg"][k.arg][1]:
                    fail(e, f"OptimizerConfig {k.arg} : {tv}")
                kws[k.arg] = v
            if set(kws) != set(FIELDS["OptCfg"]):
                fail(e, "OptimizerConfig fields")
            return "({ " + ", ".join(f"{k} := {kws[k]}" for k in FIELDS["OptCfg"]) + " } : OptCfg)", "OptCfg"
        if isinstance(f, ast.Attribute):
            b, t = self.expr(f.value)
            if t == "RegistryData" and f.attr == "evolvable_attributes" and not e.args:
                return f"{b}.evolvable", "List Nat"
            if t == "Registry" and f.attr in REG_METHODS:
                n, ty = REG_METHODS[f.attr]
                args = [self.expr(a)[0] for a in e.args]
                return "(" + " ".join([n, b] + args) + ")", ty
        fail(e, f"call `{ast.unparse(e)[:60]}`")

    # ---- statement chains
    def pure_fn(self, fn, ret_ty):
        """body: locals, `.update`, final `return e` | for-return-None"""
        lines = []
        body = skip_doc(fn.body)
        for i, s in enumerate(body):
            if isinstance(s, ast.Assign) and len(s.targets) == 1:
                tgt = s.targets[0]
                if not isinstance(tgt, ast.Name) or tgt.id in self.env:
                    fail(s, "assignment target")
                v, t = self.expr(s.value)
                lines.append(f"let {tgt.id} := {v}")
                self.env[tgt.id] = (tgt.id, t)
            elif (isinstance(s, ast.Expr) and isinstance(s.value, ast.Call) and isinstance(s.value.func, ast.Attribute)
                  and s.value.func.attr == "update" and isinstance(s.value.func.value, ast.Name) and len(s.value.args) == 1):
                n = s.value.func.value.id
                if n not in self.env:
                    fail(s, "update of an unknown local")
                v, t = self.expr(s.value.args[0])
                if t != self.env[n][1]:
                    fail(s, f"update of a {self.env[n][1]} with a {t}")
                lines.append(f"let {n} := {n} ++ {v}")
            elif isinstance(s, ast.Return) and i == len(body) - 1:
                v, t = self.expr(s.value)
                if t != ret_ty:
                    fail(s, f"returns a {t}, expected {ret_ty}")
                lines.append(v)
                return lines
            elif (isinstance(s, ast.For) and i == len(body) - 2 and isinstance(body[-1], ast.Return)
                  and isinstance(body[-1].value, ast.Constant) and body[-1].value.value is None and not s.orelse
                  and len(s.body) == 1 and isinstance(s.body[0], ast.If) and not s.body[0].orelse
                  and len(s.body[0].body) == 1 and isinstance(s.body[0].body[0], ast.Return) and isinstance(s.target, ast.Name)):
                it, tit = self.expr(s.iter)
                self.env[s.target.id] = (s.target.id, ELEM[tit])
                c = self.truthy(s.body[0].test)
                v, t = self.expr(s.body[0].body[0].value)
                if f"Option {t}" != ret_ty:
                    fail(s, f"returns a {t}")
                lines.append(f"forReturn {it} fun {s.target.id} => if {c} then some {v} else none")
                return lines
            else:
                fail(s, f"statement {type(s).__name__}")
        fail(fn, "no return")

    def update_fn(self, fn, field_of):
        """single `self.<f>.append(e)` / `self.registry.<m>(x)`: returns the updated self"""
        body = skip_doc(fn.body)
        if len(body) != 1 or not isinstance(body[0], ast.Expr) or not isinstance(body[0].value, ast.Call):
            fail(fn, "expected a single call statement")
        c = body[0].value
        if isinstance(c.func, ast.Attribute) and c.func.attr == "append" and len(c.args) == 1:
            b, t = self.expr(c.func.value)
            v, tv = self.expr(c.args[0])
            tgt = c.func.value
            if not (isinstance(tgt, ast.Attribute) and isinstance(tgt.value, ast.Name) and tgt.value.id == "self") or t != f"List {tv}":
                fail(c, f"append of a {tv} to {t}")
            return f"{{ self with {FIELDS[self.self_ty][tgt.attr][0]} := {b} ++ [{v}] }}"
        v, t = self.expr(c)
        if t == "Registry" and self.self_ty == "RegistryData":
            return f"{{ self with registry := {v} }}"
        fail(c, "call statement")

    def checks(self, stmts, k):
        """statement chain in `Except String Unit`; `k` = the continuation text"""
        if not stmts:
            return k
        s, rest = stmts[0], stmts[1:]
        if isinstance(s, ast.Raise):
            if not (isinstance(s.exc, ast.Call) and isinstance(s.exc.func, ast.Name)):
                fail(s, "raise")
            return f'(.error "{s.exc.func.id}")'
        if isinstance(s, ast.Assign) and len(s.targets) == 1 and isinstance(s.targets[0], ast.Name):
            n = s.targets[0].id
            if n in self.env:
                fail(s, "re-assignment")
            v, t = self.expr(s.value)
            self.env[n] = (n, t)
            return f"let {n} := {v}\n  " + self.checks(rest, k)
        if isinstance(s, ast.If) and not s.orelse:
            c = self.truthy(s.test)
            saved = dict(self.env)
            inner = self.checks(s.body, "(.ok ())")
            self.env = saved
            return f"seq (if {c} then {inner} else (.ok ()))\n  (" + self.checks(rest, k) + ")"
        if isinstance(s, ast.For) and not s.orelse and isinstance(s.target, ast.Name):
            it, tit = self.expr(s.iter)
            if tit == "Option (List Nat)":
                it = f"(asList {it})"
            elif tit not in ELEM:
                fail(s, f"for over a {tit}")
            saved = dict(self.env)
            self.env[s.target.id] = (s.target.id, ELEM[tit])
            inner = self.checks(s.body, "(.ok ())")
            self.env = saved
            return f"seq (forM' {it} fun {s.target.id} => {inner})\n  (" + self.checks(rest, k) + ")"
        fail(s, f"statement {type(s).__name__}")


def skip_doc(body):
    if body and isinstance(body[0], ast.Expr) and isinstance(body[0].value, ast.Constant) and isinstance(body[0].value.value, str):
        return body[1:]
    return body


def find(tree, cls, name):
    for n in tree.body:
        if isinstance(n, ast.ClassDef) and n.name == cls:
            for m in n.body:
                if isinstance(m, ast.FunctionDef) and m.name == name:
                    return m
    raise Unsupported(f"{cls}.{name} not found")


def params(fn, n):
    a = fn.args
    if a.vararg or a.kwarg or a.kwonlyargs or a.defaults or len(a.args) != n or a.args[0].arg != "self":
        fail(fn, f"signature of {fn.name}")
    return [x.arg for x in a.args[1:]]


def gen(reg, base):
    out = []

    def pure(tree, cls, name, lname, self_ty, extra, ret):
        fn = find(tree, cls, name)
        ps = params(fn, 1 + len(extra))
        tr = Tr(self_ty)
        tr.env["self"] = ("self", self_ty)
        for p, t in zip(ps, extra):
            tr.env[p] = (p, t)
        lines = tr.pure_fn(fn, ret)
        sig = " ".join([f"(self : {self_ty})"] + [f"({p} : {t})" for p, t in zip(ps, extra)])
        out.append(f"/-- `{cls}.{name}` (line {fn.lineno}) -/\ndef {lname} {sig} : {ret} :=\n  " + "\n  ".join(lines))

    def upd(tree, cls, name, lname, self_ty, pty):
        fn = find(tree, cls, name)
        ps = params(fn, 2)
        tr = Tr(self_ty)
        tr.env["self"] = ("self", self_ty)
        tr.env[ps[0]] = (ps[0], pty)
        body = tr.update_fn(fn, None)
        out.append(f"/-- `{cls}.{name}` (line {fn.lineno}) -/\ndef {lname} (self : {self_ty}) ({ps[0]} : {pty}) : {self_ty} :=\n  {body}")

    pure(reg, "OptimizerConfig", "__eq__", "optcfg_eq", "OptCfg", ["OptCfg"], "Bool")
    pure(reg, "MutationRegistry", "__eq__", "registry_eq", "Registry", ["Registry"], "Bool")
    pure(reg, "MutationRegistry", "optimizer_networks", "optimizer_networks", "Registry", [], "List (Nat × List Nat)")
    pure(reg, "MutationRegistry", "policy", "policy", "Registry", [], "Option Nat")
    pure(reg, "MutationRegistry", "all_registered", "all_registered", "Registry", [], "List Nat")
    upd(reg, "MutationRegistry", "register_group", "register_group", "Registry", "Grp")
    upd(reg, "MutationRegistry", "register_optimizer", "register_optimizer", "Registry", "OptCfg")
    upd(reg, "MutationRegistry", "register_hook", "register_hook", "Registry", "Hook")
    upd(base, "EvolvableAlgorithm", "register_network_group", "algo_register_network_group", "RegistryData", "Grp")
    upd(base, "EvolvableAlgorithm", "register_mutation_hook", "algo_register_mutation_hook", "RegistryData", "Hook")

    # _registry_init
    fn = find(base, "EvolvableAlgorithm", "_registry_init")
    params(fn, 1)
    tr = Tr("RegistryData")
    tr.env["self"] = ("self", "RegistryData")
    body = tr.checks(skip_doc(fn.body), "(.ok ())")
    out.append(f"/-- `EvolvableAlgorithm._registry_init` (line {fn.lineno}): `.error <class>` = the constructor raises -/\n"
               f"def registry_init (self : RegistryData) : M Unit :=\n  {body}")

    # __setattr__
    fn = find(base, "EvolvableAlgorithm", "__setattr__")
    ps = params(fn, 3)
    tr = Tr("RegistryData")
    tr.env.update({"self": ("self", "RegistryData"), ps[0]: (ps[0], "Nat"), ps[1]: (ps[1], "Option Wrap")})
    b = skip_doc(fn.body)
    if not (len(b) == 2 and isinstance(b[0], ast.If) and not b[0].orelse and len(b[0].body) == 2
            and isinstance(b[0].body[0], ast.Assign) and isinstance(b[0].body[0].targets[0], ast.Name)
            and isinstance(b[0].body[1], ast.Expr) and isinstance(b[1], ast.Expr) and isinstance(b[1].value, ast.Call)
            and ast.unparse(b[1].value) == f"super().__setattr__({ps[0]}, {ps[1]})"):
        fail(fn, "shape of __setattr__")
    cond = tr.truthy(b[0].test)
    cn = b[0].body[0].targets[0].id
    cv, ct = tr.expr(b[0].body[0].value)
    tr.env[cn] = (cn, ct)
    rv, rt = tr.expr(b[0].body[1].value)
    if rt != "Registry":
        fail(b[0].body[1], "expected a registry call")
    out.append(f"/-- `EvolvableAlgorithm.__setattr__` (line {fn.lineno}); `value = none`: not an OptimizerWrapper -/\n"
               f"def setattr_ (self : RegistryData) ({ps[0]} : Nat) ({ps[1]} : Option Wrap) : RegistryData :=\n"
               f"  let self := if {cond} then\n      let {cn} := {cv}\n      {{ self with registry := {rv} }}\n    else self\n"
               f"  {{ self with attrs := self.attrs ++ [{ps[0]}] }}")
    return out


def repo_dir(arg=None) -> Path:
    if arg:
        return Path(arg)
    return Path(os.environ.get("VERIF_REPO", "/repo"))


def translate(repo: Path):
    raws = []
    for rel in (REL_SOURCE, REL_SOURCE2):
        p = Path(repo) / rel
        try:
            raws.append(p.read_bytes())
        except OSError as e:
            raise Unsupported(f"cannot read {p}: {e}") from e
    sha = hashlib.sha256(b"\0".join(raws)).hexdigest()
    try:
        reg, base = (ast.parse(r.decode("utf-8")) for r in raws)
    except (SyntaxError, UnicodeDecodeError) as e:
        raise Unsupported(f"cannot parse: {e}") from e
    defs = gen(reg, base)
    header = ("/-\n  Gen/RegistryGen.lean — GENERATED by harness/py2lean_registry.py from agilerl/algorithms/core/registry.py\n"
              "  (OptimizerConfig.__eq__, MutationRegistry) and agilerl/algorithms/core/base.py (_registry_init, __setattr__,\n"
              "  register_network_group, register_mutation_hook); do not edit.  Core Lean only.\n"
              "  `Proofs/RegistryGenEq.lean` proves the generated definitions equal to `Coherence.registry*`.\n-/\n" + SHA_PREFIX + sha)
    return header + "\n" + PRELUDE + "\n/-! ### generated -/\n\n" + "\n\n".join(defs) + "\n\n" + TRAILER, sha


def strip_sha(text: str) -> str:
    return "\n".join(ln for ln in text.split("\n") if not ln.startswith(SHA_PREFIX))


def write_if_changed(text: str, out: Path, force: bool = False) -> bool:
    out = Path(out)
    old = out.read_text() if out.exists() else None
    if old is not None and not force and strip_sha(old) == strip_sha(text):
        return False
    if old == text:
        return False
    out.parent.mkdir(parents=True, exist_ok=True)
    tmp = out.with_suffix(".lean.tmp")
    tmp.write_text(text)
    os.replace(tmp, out)
    return True


def main(argv) -> int:
    import argparse
    ap = argparse.ArgumentParser()
    ap.add_argument("--repo", default=None)
    ap.add_argument("--out", default=str(DEFAULT_OUT))
    ap.add_argument("--stdout", action="store_true")
    ap.add_argument("--force", action="store_true")
    a = ap.parse_args(argv)
    try:
        text, sha = translate(repo_dir(a.repo))
    except Unsupported as e:
        print(f"py2lean_registry: {e}", file=sys.stderr)
        return 1
    if a.stdout:
        sys.stdout.write(text)
        return 0
    changed = write_if_changed(text, Path(a.out), a.force)
    print(f"{a.out}: {'written' if changed else 'unchanged'} (source sha256 {sha[:16]}…)")
    return 0


PRELUDE = r"""set_option linter.unusedVariables false

namespace RegistryGen

/-- a `NetworkGroup` after `__post_init__`: attribute names -/
structure Grp where
  eval : Nat
  shared : Option (List Nat)
  policy : Bool
  multiagent : Bool
deriving DecidableEq, Repr

/-- an `OptimizerConfig` (the optimizer class and kwargs are not part of the data) -/
structure OptCfg where
  name : Nat
  networks : List Nat
  lr : Nat
  multiagent : Bool
deriving DecidableEq, Repr

/-- a hook is registered as its `__name__` -/
abbrev Hook := Nat

/-- `MutationRegistry`; `hp_config` = the keys of the hyperparameter configuration -/
structure Registry where
  groups : List Grp
  optimizers : List OptCfg
  hooks : List Nat
  hp_config : Option (List Nat)
deriving DecidableEq, Repr

/-- the registry and what `_registry_init` / `__setattr__` ask the algorithm object -/
structure RegistryData where
  registry : Registry
  /-- the keys of `self.evolvable_attributes()` -/
  evolvable : List Nat
  /-- the names for which `hasattr(self, ·)` -/
  attrs : List Nat
deriving DecidableEq, Repr

/-- what `__setattr__` reads of an `OptimizerWrapper` -/
structure Wrap where
  network_names : List Nat
  lr_name : Nat
  multiagent : Bool
deriving DecidableEq, Repr

def wrapGet : Option Wrap → Wrap
  | some w => w
  | none => { network_names := [], lr_name := 0, multiagent := false }

abbrev M := Except String

def seq (a b : M Unit) : M Unit :=
  match a with
  | .error e => .error e
  | .ok _ => b

def forM' {α : Type} : List α → (α → M Unit) → M Unit
  | [], _ => .ok ()
  | x :: xs, f => seq (f x) (forM' xs f)

/-- `for x in xs: if c: return e` … `return None` -/
def forReturn {α β : Type} : List α → (α → Option β) → Option β
  | [], _ => none
  | x :: xs, f => match f x with
    | some b => some b
    | none => forReturn xs f

/-- `X if isinstance(X, list) else [X]` on this representation (a single name = the one-element list) -/
def asList : Option (List Nat) → List Nat
  | some l => l
  | none => []

def listEqBy {α : Type} (eq : α → α → Bool) : List α → List α → Bool
  | [], [] => true
  | a :: as, b :: bs => eq a b && listEqBy eq as bs
  | _, _ => false
"""

TRAILER = r"""/-- the constructor (metaclass `__call__` → `_registry_init`) did not raise -/
def registryAccepted (r : RegistryData) : Bool :=
  match registry_init r with
  | .ok _ => true
  | .error _ => false

end RegistryGen
"""

if __name__ == "__main__":
    sys.exit(main(sys.argv[1:]))
