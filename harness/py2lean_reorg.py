#!/usr/bin/env python3
"""
py2lean_reorg.py — translate the per-environment split of vectorised multi-agent experiences
(`MultiAgentReplayBuffer._reorganize_dicts`, `_add`, `save_to_memory_single_env`, `save_to_memory_vect_envs`,
`save_to_memory` of REPO/agilerl/components/multi_agent_replay_buffer.py) and the shape / key normalisation of
single-agent transitions (`to_tensordict`, `to_torch_tensor`, `Transition.__post_init__` of
REPO/agilerl/components/data.py, the reshape loop and `_n_transitions` of `ReplayBuffer.add` in
REPO/agilerl/components/replay_buffer.py) into Lean 4.

    python3 harness/py2lean_reorg.py [--repo DIR] [--out FILE] [--stdout] [--force]

Reads the *source text* only (Python `ast`; agilerl is never imported) and writes lean/Gen/ReorgGen.lean
(namespace ReorgGen; imports only Gen/RingGen.lean for `PyDeque` and the `MultiAgentReplayBuffer` state record that
py2lean_ring.py generates from `__init__`).  `Proofs/ReorgGenEq.lean` proves the generated definitions equal to the
hand-written model (`Ring.reorganizeDicts`, `Ring.perEnv`, `Ring.Deq`-style append, `Ring.Shape.*`);
`Props/C09.lean` restates the theorems over them (`C09_source_translation_reorg_*`).

PART 1 — multi_agent_replay_buffer.py
  Data representation (typed reading of the dynamically typed arguments; stated in the output):
    * an experience field of a vectorised call is a dict agent -> value, an association list `List (κ × PyVal κ α)`
      (keys distinct - Python dicts; `d[k] = v` is translated exactly as `pySetItem`, replace-or-append);
    * a value is an array / Python list (`PyVal.arr rows`: the list of its per-environment rows, a row is an opaque
      `α`), a dict of arrays (`PyVal.dict`), or a tuple of arrays (`PyVal.tup`);  for ONE environment:
      `PyEnt.arr row | PyEnt.dict | PyEnt.tup`;
    * `*args` of `_reorganize_dicts` / `save_to_memory_vect_envs`: `List` of fields (vectorised); `*args` of `_add` /
      `save_to_memory_single_env`: one transition = `List` of per-environment fields; `save_to_memory` receives both
      readings of its `*args` (`a0` vectorised, `a1` single) and each branch uses the one its callee takes.
  Supported subset (anything else raises `Unsupported` with construct and line):
    * statements: docstring; `x = e`; `x[k] = e` on a local dict; `x[j].append(e)` on a local list of lists;
      `self.memory.append(e)`; `self.<int field> += <int const>`; `self.m(*x)`; `return e` (last statement);
      `if / elif / else` either on a `bool` parameter or a chain of `isinstance(x, dict | tuple | np.ndarray | list)`
      tests of ONE local of value type - translated by case split over the three constructors, each constructor
      taking the first branch whose test it passes, in source order;  `for <name | (a, b)> in <list expr>:` (nested,
      no else / break / continue) - a generated structurally recursive function whose state is what the body mutates;
      one nested `def` of one parameter whose body is a single `return`;
    * expressions: non-negative / negated int constants (as indices), locals, `len(e)`, `range(e)`, `enumerate(e)`,
      `e.values()`, `e.items()`, `e.keys()`, `next(iter(e))` (first element; `none` when empty),
      `e[i]` on lists / tuples (`pyIndex`: negative counts from the end, out of range = `none` = IndexError),
      `[]`, `{}`, `[e for _ in range(n)]`, `{k: e for k, v in d.items()}`, `tuple(e for v in t)`, `tuple(list)`,
      `a if c else b`, `not c`, `isinstance(row, np.ndarray)`, `np.array(row)`, `zip(*e)`,
      `self._reorganize_dicts(*x)`, `self.experience(*x)`, calls of the nested function.
  Assumptions (explicit parameters / identities):
    * `np.array(x)` on one row is the parameter `np_array : α → α`, `isinstance(x, np.ndarray)` the parameter
      `is_ndarray : α → Bool` (the theorems assume `np_array x = x`: conversion keeps the content);
    * `self.experience(*args)` (namedtuple constructor) is the identity on the tuple of fields;
    * `tuple(results)` is the identity on the sequence; a tuple and a list of arrays index alike;
    * `len(first_value)` of an array is the number of its rows (first axis).

PART 2 — data.py / replay_buffer.py  (SHAPE and KEY logic)
  A tensor is `PyT α` = shape + flat row-major data; the functions below are translated on that representation:
    * `to_tensordict(data)`: the `isinstance(data, tuple)` / `isinstance(data, dict)` chain, the key
      `f"tuple_obs_{i}"` of the enumerate loop (prefix string from the f-string), dict keys kept; `.to(dtype=…)` and
      the two `assert all(isinstance …)` are skipped (dtype / type checks, not shape);
    * `to_torch_tensor(data)`: every branch must be `torch.tensor(data, …)` or `data.to(…)`: identity on shape and
      content (checked, then translated as the identity);
    * `Transition.__post_init__`: which fields go through `to_tensordict` (the `isinstance(self.f, (dict, tuple))`
      tests), which through `to_torch_tensor`, and `if self.f.ndim == k: self.f = self.f.unsqueeze(d)` with `k`, `d`
      from the source;
    * `ReplayBuffer.add`: `_n_transitions = data.shape[0]` and the reshape loop
      `if v.ndim == k: … v.reshape(_n_transitions, c)` for top-level and nested leaves (`k`, `c` from the source).
  `TensorDict.unsqueeze(0)`, `batch_size = [n]` (callers in train_off_policy.py) are library semantics, fixed
  prelude text (`PyT.unsqueeze0`, `PyT.batchOk n`: every leaf must have leading dimension n, `PyT.row`).

Shape of the output: canonical renaming (parameters `a0, a1, …`, locals `v0, v1, …` in order of first binding, bound
results `r0, r1, …`), fallible sub-expressions bound before the statement that uses them, loops as
`<method>_loopN`; no line numbers; header with the sha256 of the three sources.
"""
from __future__ import annotations

import ast
import hashlib
import os
import sys
from pathlib import Path

HERE = Path(__file__).resolve().parent
DEFAULT_OUT = HERE.parent / "lean" / "Gen" / "ReorgGen.lean"
REL_SOURCE = "agilerl/components/multi_agent_replay_buffer.py"
REL_SOURCE_DATA = "agilerl/components/data.py"
REL_SOURCE_RB = "agilerl/components/replay_buffer.py"
SHA_PREFIX = "-- sha256("
CLS = "MultiAgentReplayBuffer"


class Unsupported(Exception):
    pass


# ------------------------------------------------------------------------------------------ types
class Unk:
    n = 0

    def __init__(self):
        Unk.n += 1
        self.id, self.ref = Unk.n, None


NAT, BOOL, ROW, KEY, VAL, ENT, ST = ("nat",), ("bool",), ("row",), ("key",), ("val",), ("ent",), ("st",)


def L(t): return ("list", t)
def TUP(t): return ("tup", t)
def D(t): return ("dict", t)
def P(a, b): return ("pair", a, b)


ARR = L(ROW)
FIELD = D(VAL)
ENVFIELD = D(ENT)
TRANS = L(ENVFIELD)
VECT = L(FIELD)
UNION = ("union",)            # the two readings of save_to_memory's *args


def res(t):
    while isinstance(t, Unk) and t.ref is not None:
        t = t.ref
    if isinstance(t, Unk):
        return t
    return (t[0],) + tuple(res(x) for x in t[1:])


def unify(a, b) -> bool:
    a, b = res(a), res(b)
    if isinstance(a, Unk):
        if a is not b:
            a.ref = b
        return True
    if isinstance(b, Unk):
        b.ref = a
        return True
    if a[0] != b[0] or len(a) != len(b):
        return False
    return all(unify(x, y) for x, y in zip(a[1:], b[1:]))


def same(a, b) -> bool:
    a, b = res(a), res(b)
    if isinstance(a, Unk) or isinstance(b, Unk):
        return a is b
    return a[0] == b[0] and len(a) == len(b) and all(same(x, y) for x, y in zip(a[1:], b[1:]))


def lean_ty(t) -> str:
    t = res(t)
    if isinstance(t, Unk):
        raise Unsupported("a container whose element type is never determined")
    k = t[0]
    if k == "nat": return "Nat"
    if k == "bool": return "Bool"
    if k == "row": return "α"
    if k == "key": return "κ"
    if k == "val": return "PyVal κ α"
    if k == "ent": return "PyEnt κ α"
    if k == "st": return "MA κ α"
    if k in ("list", "tup"): return f"List ({lean_ty(t[1])})"
    if k == "dict": return f"List (κ × {lean_ty(t[1])})"
    if k == "pair": return f"({lean_ty(t[1])} × {lean_ty(t[2])})"
    raise Unsupported(f"type {t}")


def ind(lines, n):
    return [(" " * n + ln) if ln else ln for ln in lines]


EXT_DECL = " (np_array : α → α) (is_ndarray : α → Bool)"
EXT_ARGS = " np_array is_ndarray"

METHODS = [  # name, type of *args, extra keyword-only bool parameters, mutates self
    ("_add", TRANS, [], True),
    ("save_to_memory_single_env", TRANS, [], True),
    ("_reorganize_dicts", VECT, [], False),
    ("save_to_memory_vect_envs", VECT, [], True),
    ("save_to_memory", UNION, ["is_vectorised"], True),
]
LEAN_NAME = {"_add": "add", "_reorganize_dicts": "reorganize_dicts"}


def lname(m): return LEAN_NAME.get(m, m)


# ------------------------------------------------------------------------------------------ function translator
class Fn:
    def __init__(self, node: ast.FunctionDef, args_ty, kw_bools, mutates, sigs, nested_of=None):
        self.node, self.mutates, self.sigs = node, mutates, sigs
        self.name = lname(node.name)
        self.env: dict[str, tuple] = {}       # python name -> (lean name, type)
        self.nparam = self.nlocal = self.nbind = self.nloop = 0
        self.binds: list[tuple[str, str]] = []
        self.loop_defs: list = []
        self.nested: dict[str, tuple] = {}    # nested function name -> (lean name, param type, result type)
        self.pre_defs: list[list[str]] = []
        self.ret_ty = None
        self.params: list[tuple[str, object]] = []
        a = node.args
        if a.posonlyargs or a.kwarg or a.defaults or any(d is None for d in a.kw_defaults if False):
            self.fail(node, "parameter list")
        names = [x.arg for x in a.args]
        if nested_of is None:
            if names[:1] != ["self"] or len(names) != 1 or a.vararg is None:
                self.fail(node, "expected (self, *args, …)")
            if [k.arg for k in a.kwonlyargs] != kw_bools:
                self.fail(node, f"keyword-only parameters {[k.arg for k in a.kwonlyargs]}")
            for k, d in zip(a.kwonlyargs, a.kw_defaults):
                if d is not None and not (isinstance(d, ast.Constant) and isinstance(d.value, bool)):
                    self.fail(node, "keyword default")
            if args_ty is UNION:
                self.union = (self.new_param(VECT), self.new_param(TRANS))
                self.env[a.vararg.arg] = ("«union»", UNION)
            else:
                self.env[a.vararg.arg] = (self.new_param(args_ty), args_ty)
            for k in kw_bools:
                self.env[k] = (self.new_param(BOOL), BOOL)
        else:
            if len(names) != 1 or a.vararg or a.kwonlyargs:
                self.fail(node, "nested def with other than one parameter")
            self.env[names[0]] = (self.new_param(args_ty), args_ty)

    def fail(self, node, what):
        raise Unsupported(f"{REL_SOURCE}:{getattr(node, 'lineno', '?')}: {self.node.name}: {what}")

    def new_param(self, ty):
        n = f"a{self.nparam}"
        self.nparam += 1
        self.params.append((n, ty))
        return n

    def new_local(self):
        n = f"v{self.nlocal}"
        self.nlocal += 1
        return n

    def bind(self, text):
        n = f"r{self.nbind}"
        self.nbind += 1
        self.binds.append((n, text))
        return n

    def flush(self, lines_after: list[str]) -> list[str]:
        out = []
        for n, t in self.binds:
            out += [f"match {t} with", "| none => none", f"| some {n} =>"]
        self.binds = []
        return out + lines_after

    def scoped(self, f):
        """translate a sub-expression whose fallible parts must stay inside (lambda bodies); returns Option text"""
        saved, self.binds = self.binds, []
        val = f()
        inner, self.binds = self.binds, saved
        s = f"some {val}"
        for n, t in reversed(inner):
            s = f"(match {t} with | none => none | some {n} => {s})"
        return s

    # ---------------------------------------------------------------- expressions
    def ex(self, e) -> tuple[str, object]:
        if isinstance(e, ast.Name):
            if e.id not in self.env:
                self.fail(e, f"unknown name {e.id}")
            n, t = self.env[e.id]
            if t is UNION:
                self.fail(e, "*args of two readings used other than as a call argument")
            return n, t
        if isinstance(e, ast.Constant) and isinstance(e.value, int) and not isinstance(e.value, bool) and e.value >= 0:
            return str(e.value), NAT
        if isinstance(e, ast.List) and not e.elts:
            return "[]", L(Unk())
        if isinstance(e, ast.Dict) and not e.keys:
            return "[]", D(Unk())
        if isinstance(e, ast.UnaryOp) and isinstance(e.op, ast.Not):
            c, t = self.ex(e.operand)
            if not same(t, BOOL):
                self.fail(e, "not <non-bool>")
            return f"(!{c})", BOOL
        if isinstance(e, ast.IfExp):
            c, tc = self.ex(e.test)
            a, ta = self.ex(e.body)
            b, tb = self.ex(e.orelse)
            if not same(tc, BOOL) or not unify(ta, tb):
                self.fail(e, "conditional expression of mixed types")
            return f"(if {c} then {a} else {b})", ta
        if isinstance(e, ast.Subscript):
            return self.subscript(e)
        if isinstance(e, ast.ListComp):
            return self.listcomp(e)
        if isinstance(e, ast.DictComp):
            return self.dictcomp(e)
        if isinstance(e, ast.Call):
            return self.call(e)
        self.fail(e, f"expression {type(e).__name__}: {ast.unparse(e)[:60]}")

    def index_text(self, i) -> str:
        if isinstance(i, ast.UnaryOp) and isinstance(i.op, ast.USub) and isinstance(i.operand, ast.Constant) \
                and isinstance(i.operand.value, int) and not isinstance(i.operand.value, bool):
            return f"(-{i.operand.value} : Int)"
        t, ty = self.ex(i)
        if not same(ty, NAT):
            self.fail(i, "index that is not an integer")
        return f"({t} : Int)"

    def subscript(self, e):
        if isinstance(e.slice, ast.Slice):
            self.fail(e, "slice")
        b, tb = self.ex(e.value)
        tb = res(tb)
        if isinstance(tb, Unk) or tb[0] not in ("list", "tup"):
            self.fail(e, f"index into a value that is not a list / tuple / array: {ast.unparse(e)}")
        return self.bind(f"pyIndex {b} {self.index_text(e.slice)}"), tb[1]

    def listcomp(self, e):
        if len(e.generators) != 1 or e.generators[0].ifs or e.generators[0].is_async:
            self.fail(e, "comprehension")
        g = e.generators[0]
        it, ti = self.ex(g.iter)
        ti = res(ti)
        if not (isinstance(g.target, ast.Name) and g.target.id == "_" and ti == L(NAT)):
            self.fail(e, "list comprehension other than [e for _ in range(n)]")
        saved = self.binds
        self.binds = []
        v, tv = self.ex(e.elt)
        if self.binds:
            self.fail(e, "fallible element in a list comprehension")
        self.binds = saved
        return f"(({it}).map (fun _ => {v}))", L(tv)

    def lam(self, target, elem_ty, elt_fn, e):
        """fun x => Option body, with the target(s) bound"""
        saved_env = dict(self.env)
        elem_ty = res(elem_ty)
        if isinstance(target, ast.Name):
            x = self.new_local()
            self.env[target.id] = (x, elem_ty)
            pat = x
        elif isinstance(target, ast.Tuple) and len(target.elts) == 2 and all(isinstance(t, ast.Name) for t in target.elts) \
                and elem_ty[0] == "pair":
            x1, x2 = self.new_local(), self.new_local()
            self.env[target.elts[0].id] = (x1, elem_ty[1])
            self.env[target.elts[1].id] = (x2, elem_ty[2])
            pat = f"({x1}, {x2})"
        else:
            self.fail(e, "comprehension target")
        ty_box = []

        def body():
            v, t = elt_fn()
            ty_box.append(t)
            return v
        s = self.scoped(body)
        self.env = saved_env
        return f"(fun {pat} => {s})", ty_box[0]

    def dictcomp(self, e):
        if len(e.generators) != 1 or e.generators[0].ifs or e.generators[0].is_async:
            self.fail(e, "comprehension")
        g = e.generators[0]
        it, ti = self.ex(g.iter)
        ti = res(ti)
        if isinstance(ti, Unk) or ti[0] != "list" or res(ti[1])[0] != "pair":
            self.fail(e, "dict comprehension over other than d.items()")

        def elt():
            k, tk = self.ex(e.key)
            v, tv = self.ex(e.value)
            if not same(tk, KEY):
                self.fail(e, "dict comprehension key that is not a key")
            return f"({k}, {v})", tv
        f, tv = self.lam(g.target, ti[1], elt, e)
        return self.bind(f"pyAll (({it}).map {f})"), D(tv)

    def call(self, e):
        f = e.func
        if e.keywords:
            self.fail(e, "keyword arguments")
        if isinstance(f, ast.Name):
            if f.id in self.nested:
                ln, pt, rt = self.nested[f.id]
                if len(e.args) != 1:
                    self.fail(e, "nested call arity")
                a, ta = self.ex(e.args[0])
                if not same(ta, pt):
                    self.fail(e, f"{f.id} applied to a value that is not one row")
                return f"({ln}{EXT_ARGS} {a})", rt
            if f.id == "len" and len(e.args) == 1:
                a, ta = self.ex(e.args[0])
                ta = res(ta)
                if isinstance(ta, Unk) or ta[0] not in ("list", "tup", "dict"):
                    self.fail(e, "len of a value that is not a container")
                return f"({a}).length", NAT
            if f.id == "range" and len(e.args) == 1:
                a, ta = self.ex(e.args[0])
                if not same(ta, NAT):
                    self.fail(e, "range(<non-int>)")
                return f"(List.range {a})", L(NAT)
            if f.id == "enumerate" and len(e.args) == 1:
                a, ta = self.ex(e.args[0])
                ta = res(ta)
                if isinstance(ta, Unk) or ta[0] not in ("list", "tup"):
                    self.fail(e, "enumerate of a non-list")
                return f"(pyEnumerate {a})", L(P(NAT, ta[1]))
            if f.id == "next" and len(e.args) == 1 and isinstance(e.args[0], ast.Call) \
                    and isinstance(e.args[0].func, ast.Name) and e.args[0].func.id == "iter" and len(e.args[0].args) == 1:
                a, ta = self.ex(e.args[0].args[0])
                ta = res(ta)
                if isinstance(ta, Unk) or ta[0] not in ("list", "tup"):
                    self.fail(e, "next(iter(<non-list>))")
                return self.bind(f"List.head? {a}"), ta[1]
            if f.id == "isinstance" and len(e.args) == 2:
                a, ta = self.ex(e.args[0])
                if same(ta, ROW) and ast.unparse(e.args[1]) in ("np.ndarray", "numpy.ndarray"):
                    return f"(is_ndarray {a})", BOOL
                self.fail(e, "isinstance outside an if-chain on a value")
            if f.id == "tuple" and len(e.args) == 1:
                g = e.args[0]
                if isinstance(g, ast.GeneratorExp):
                    if len(g.generators) != 1 or g.generators[0].ifs or g.generators[0].is_async:
                        self.fail(e, "generator")
                    it, ti = self.ex(g.generators[0].iter)
                    ti = res(ti)
                    if isinstance(ti, Unk) or ti[0] not in ("list", "tup"):
                        self.fail(e, "generator over a non-sequence")
                    fn, tv = self.lam(g.generators[0].target, ti[1], lambda: self.ex(g.elt), e)
                    return self.bind(f"pyAll (({it}).map {fn})"), TUP(tv)
                a, ta = self.ex(g)
                ta = res(ta)
                if isinstance(ta, Unk) or ta[0] not in ("list", "tup"):
                    self.fail(e, "tuple(<non-sequence>)")
                return a, ta          # tuple(list): the same sequence
            if f.id == "zip" and len(e.args) == 1 and isinstance(e.args[0], ast.Starred):
                a, ta = self.ex(e.args[0].value)
                ta = res(ta)
                if isinstance(ta, Unk) or ta[0] != "list" or isinstance(res(ta[1]), Unk) or res(ta[1])[0] != "list":
                    self.fail(e, "zip(*<not a list of lists>)")
                return f"(pyZipStar {a})", L(L(res(ta[1])[1]))
        if isinstance(f, ast.Attribute):
            if ast.unparse(f) in ("np.array", "numpy.array") and len(e.args) == 1:
                a, ta = self.ex(e.args[0])
                if not same(ta, ROW):
                    self.fail(e, "np.array of a value that is not one row")
                return f"(np_array {a})", ROW
            if f.attr in ("values", "items", "keys") and not e.args:
                a, ta = self.ex(f.value)
                ta = res(ta)
                if isinstance(ta, Unk) or ta[0] != "dict":
                    self.fail(e, f".{f.attr}() of a value that is not a dict")
                if f.attr == "items":
                    return a, L(P(KEY, ta[1]))
                if f.attr == "values":
                    return f"(pyValues {a})", L(ta[1])
                return f"(pyKeys {a})", L(KEY)
            if isinstance(f.value, ast.Name) and f.value.id == "self":
                if f.attr == "experience":
                    a = self.star_arg(e, TRANS)
                    return a, TRANS
                if f.attr in self.sigs and not self.sigs[f.attr][1]:       # pure method
                    pt, _, rt = self.sigs[f.attr]
                    a = self.star_arg(e, pt)
                    return self.bind(f"{CLS}.{lname(f.attr)}{EXT_ARGS} {a}"), rt
        self.fail(e, f"call {ast.unparse(e)[:60]}")

    def star_arg(self, e, want):
        if len(e.args) != 1 or not isinstance(e.args[0], ast.Starred) or not isinstance(e.args[0].value, ast.Name):
            self.fail(e, "call other than f(*name)")
        nm = e.args[0].value.id
        if nm not in self.env:
            self.fail(e, f"unknown name {nm}")
        n, t = self.env[nm]
        if t is UNION:
            return self.union[0] if same(want, VECT) else self.union[1]
        if not same(t, want):
            self.fail(e, f"*{nm} passed where a different kind of argument list is expected")
        return n

    # ---------------------------------------------------------------- statements
    def assigned(self, stmts) -> tuple[set, bool]:
        names, st = set(), False
        for s in stmts:
            for n in ast.walk(s):
                if isinstance(n, (ast.Assign, ast.AugAssign)):
                    for t in (n.targets if isinstance(n, ast.Assign) else [n.target]):
                        base = t
                        while isinstance(base, ast.Subscript):
                            base = base.value
                        if isinstance(base, ast.Name):
                            names.add(base.id)
                        elif isinstance(base, ast.Attribute) and isinstance(base.value, ast.Name) and base.value.id == "self":
                            st = True
                elif isinstance(n, ast.Call) and isinstance(n.func, ast.Attribute):
                    base = n.func.value
                    if n.func.attr == "append":
                        while isinstance(base, ast.Subscript):
                            base = base.value
                        if isinstance(base, ast.Name):
                            names.add(base.id)
                        else:
                            st = True
                    elif isinstance(base, ast.Name) and base.id == "self" and n.func.attr in self.sigs and self.sigs[n.func.attr][1]:
                        st = True
                elif isinstance(n, ast.For):
                    for t in ast.walk(n.target):
                        if isinstance(t, ast.Name):
                            names.add(t.id)
        return names, st

    def state_vars(self, stmts, pre_env):
        names, st = self.assigned(stmts)
        vs = sorted((v for v in names if v in pre_env and pre_env[v][1] is not UNION),
                    key=lambda v: (pre_env[v][0][0], int(pre_env[v][0][1:])))
        return vs, st

    def pack(self, vs, st, env=None):
        env = env or self.env
        items = (["st"] if st else []) + [env[v][0] for v in vs]
        if not items:
            return "()"
        return items[0] if len(items) == 1 else "(" + ", ".join(items) + ")"

    def pack_ty(self, vs, st, env):
        items = ([ST] if st else []) + [env[v][1] for v in vs]
        return items

    def block(self, stmts, cont) -> list[str]:
        if not stmts:
            return cont()
        s, rest = stmts[0], stmts[1:]
        nxt = lambda: self.block(rest, cont)
        if isinstance(s, ast.Expr) and isinstance(s.value, ast.Constant) and isinstance(s.value.value, str):
            return nxt()
        if isinstance(s, ast.FunctionDef):
            return self.nested_def(s, nxt)
        if isinstance(s, ast.Return):
            if rest:
                self.fail(s, "return that is not the last statement")
            if s.value is None:
                self.fail(s, "bare return")
            v, t = self.ex(s.value)
            self.ret_ty = t
            return self.flush([f"some {v}"])
        if isinstance(s, ast.Assign):
            return self.assign(s, nxt)
        if isinstance(s, ast.AugAssign):
            return self.augassign(s, nxt)
        if isinstance(s, ast.Expr) and isinstance(s.value, ast.Call):
            return self.call_stmt(s, nxt)
        if isinstance(s, ast.If):
            return self.if_stmt(s, nxt)
        if isinstance(s, ast.For):
            return self.for_stmt(s, nxt)
        self.fail(s, f"statement {type(s).__name__}")

    def nested_def(self, s, nxt):
        if self.nested or s.decorator_list:
            self.fail(s, "more than one nested def / decorated nested def")
        sub = Fn(s, ROW, [], False, self.sigs, nested_of=self)
        body = [b for b in s.body if not (isinstance(b, ast.Expr) and isinstance(b.value, ast.Constant))]
        if len(body) != 1 or not isinstance(body[0], ast.Return) or body[0].value is None:
            sub.fail(s, "nested def whose body is not a single return")
        v, t = sub.ex(body[0].value)
        if sub.binds:
            sub.fail(s, "fallible nested def")
        ln = f"{CLS}.{self.name}.{s.name}"
        self.nested[s.name] = (ln, ROW, t)
        self.pre_defs.append([f"/-- nested function `{s.name}` of `{CLS}.{self.node.name}` -/",
                              f"def {ln}{EXT_DECL} (a0 : α) : {lean_ty(t)} :=", f"  {v}", ""])
        return nxt()

    def inject(self, node, v, t):
        """a per-environment value stored under an agent's key: row / dict of rows / tuple of rows"""
        t = res(t)
        if same(t, ROW):
            return f"(PyEnt.arr {v})", ENT
        if same(t, D(ROW)):
            return f"(PyEnt.dict {v})", ENT
        if same(t, TUP(ROW)):
            return f"(PyEnt.tup {v})", ENT
        if same(t, ENT):
            return v, ENT
        self.fail(node, "value stored under a key is not a row, a dict of rows or a tuple of rows")

    def assign(self, s, nxt):
        if len(s.targets) != 1:
            self.fail(s, "chained assignment")
        t = s.targets[0]
        if isinstance(t, ast.Name):
            v, ty = self.ex(s.value)
            old = self.env.get(t.id)
            n = old[0] if old and old[1] is not UNION else self.new_local()
            lines = self.flush([f"let {n} := {v}"])
            self.env[t.id] = (n, ty)
            return lines + nxt()
        if isinstance(t, ast.Subscript) and isinstance(t.value, ast.Name) and t.value.id in self.env:
            d, td = self.env[t.value.id]
            td = res(td)
            if not isinstance(td, Unk) and td[0] == "dict":
                k, tk = self.ex(t.slice)
                if not same(tk, KEY):
                    self.fail(s, "dict store under something that is not a key")
                v, tv = self.ex(s.value)
                v, tv = self.inject(s, v, tv)
                if not unify(td[1], tv):
                    self.fail(s, "dict store of mixed value types")
                return self.flush([f"let {d} := pySetItem {d} {k} {v}"]) + nxt()
        self.fail(s, f"assignment target {ast.unparse(t)}")

    def augassign(self, s, nxt):
        t = s.target
        if isinstance(t, ast.Attribute) and isinstance(t.value, ast.Name) and t.value.id == "self" and t.attr == "counter" \
                and self.mutates and isinstance(s.op, (ast.Add, ast.Sub)) and isinstance(s.value, ast.Constant) \
                and isinstance(s.value.value, int) and not isinstance(s.value.value, bool):
            op = "+" if isinstance(s.op, ast.Add) else "-"
            return [f"let st := {{ st with counter := st.counter {op} {s.value.value} }}"] + nxt()
        self.fail(s, f"augmented assignment {ast.unparse(s)}")

    def call_stmt(self, s, nxt):
        c = s.value
        f = c.func
        if isinstance(f, ast.Attribute) and f.attr == "append" and len(c.args) == 1 and not c.keywords:
            tgt = f.value
            if isinstance(tgt, ast.Attribute) and isinstance(tgt.value, ast.Name) and tgt.value.id == "self" \
                    and tgt.attr == "memory" and self.mutates:
                v, tv = self.ex(c.args[0])
                if not same(tv, TRANS):
                    self.fail(s, "memory.append of something that is not one transition")
                return self.flush([f"let st := {{ st with memory := RingGen.PyDeque.append st.memory {v} }}"]) + nxt()
            if isinstance(tgt, ast.Subscript) and isinstance(tgt.value, ast.Name) and tgt.value.id in self.env:
                b, tb = self.env[tgt.value.id]
                tb = res(tb)
                if not isinstance(tb, Unk) and tb[0] == "list":
                    inner = res(tb[1])
                    if isinstance(inner, Unk):
                        inner = L(Unk())
                        unify(tb[1], inner)
                    if inner[0] == "list":
                        j = self.index_text(tgt.slice)
                        v, tv = self.ex(c.args[0])
                        if not unify(inner[1], tv):
                            self.fail(s, "append of mixed element types")
                        r = self.bind(f"pyAppendAt {b} {j} {v}")
                        return self.flush([f"let {b} := {r}"]) + nxt()
            self.fail(s, f"append on {ast.unparse(tgt)}")
        if isinstance(f, ast.Attribute) and isinstance(f.value, ast.Name) and f.value.id == "self" \
                and f.attr in self.sigs and self.sigs[f.attr][1] and self.mutates and not c.keywords:
            a = self.star_arg(c, self.sigs[f.attr][0])
            return self.flush([f"match {CLS}.{lname(f.attr)}{EXT_ARGS} st {a} with", "| none => none", "| some st =>"]) + nxt()
        self.fail(s, f"call statement {ast.unparse(s)[:60]}")

    # isinstance chains ------------------------------------------------------------
    KIND_OF = {"dict": "dict", "tuple": "tup", "np.ndarray": "arr", "numpy.ndarray": "arr", "list": "arr"}
    NARROW = {"arr": ARR, "dict": D(ARR), "tup": TUP(ARR)}

    def isinstance_test(self, test):
        """(variable, set of constructor kinds) if `test` is isinstance(<local of value type>, T)"""
        if not (isinstance(test, ast.Call) and isinstance(test.func, ast.Name) and test.func.id == "isinstance"
                and len(test.args) == 2 and isinstance(test.args[0], ast.Name) and not test.keywords):
            return None
        x = test.args[0].id
        if x not in self.env or not same(self.env[x][1], VAL):
            return None
        ts = test.args[1].elts if isinstance(test.args[1], ast.Tuple) else [test.args[1]]
        kinds = set()
        for t in ts:
            u = ast.unparse(t)
            if u not in self.KIND_OF:
                self.fail(test, f"isinstance(…, {u})")
            kinds.add(self.KIND_OF[u])
        return x, kinds

    def if_stmt(self, s, nxt):
        pre_env = dict(self.env)
        chain = []            # (test node, body)
        node = s
        while True:
            chain.append((node.test, node.body))
            if len(node.orelse) == 1 and isinstance(node.orelse[0], ast.If):
                node = node.orelse[0]
            else:
                final = node.orelse
                break
        all_stmts = [b for _, body in chain for b in body] + list(final)
        vs, st = self.state_vars(all_stmts, pre_env)
        if st and not self.mutates:
            self.fail(s, "self changed in a method that is not expected to change it")
        first = self.isinstance_test(chain[0][0])
        arms = []             # (pattern text or condition, lines, env after)

        def branch(body, env0):
            self.env = dict(env0)
            saved, self.binds = self.binds, []
            holder = {}

            def fin():
                holder["env"] = dict(self.env)
                return [f"some {self.pack(vs, st)}"]
            lines = self.block(list(body), fin)
            self.binds = saved
            return lines, holder["env"]

        if first is not None:
            x = first[0]
            tests = []
            for t, body in chain:
                it = self.isinstance_test(t)
                if it is None or it[0] != x:
                    self.fail(t, "an isinstance chain must test one local of value type throughout")
                tests.append((it[1], body))
            xn = pre_env[x][0]
            for kind in ("arr", "dict", "tup"):
                body = next((b for ks, b in tests if kind in ks), final)
                env0 = dict(pre_env)
                env0[x] = (xn, self.NARROW[kind])
                lines, env1 = branch(body, env0)
                arms.append((f"| PyVal.{kind} {xn} =>", lines, env1))
            head = [f"match (match {xn} with"]
            for pat, lines, _ in arms:
                head += ["  " + pat] + ind(lines, 4)
            head[-1] = head[-1] + ") with"
        else:
            if len(chain) != 1:
                self.fail(s, "elif on a condition that is not an isinstance chain")
            self.env = dict(pre_env)
            c, tc = self.ex(chain[0][0])
            if not same(tc, BOOL):
                self.fail(s, "if <non-boolean>")
            cond_binds, self.binds = self.binds, []
            l1, e1 = branch(chain[0][1], pre_env)
            l2, e2 = branch(final, pre_env)
            arms = [("", l1, e1), ("", l2, e2)]
            self.binds = cond_binds
            head = self.flush([f"match (if {c} then ("]) + ind(l1, 4) + ["  ) else ("] + ind(l2, 4) + ["  )) with"]
        # the variables handed on must have one type in every arm
        self.env = dict(pre_env)
        for v in vs:
            tys = [a[2][v][1] for a in arms]
            for t in tys[1:]:
                if not unify(tys[0], t):
                    self.fail(s, f"`{v}` has different kinds of value after the branches")
            self.env[v] = (pre_env[v][0], tys[0])
        return head + ["| none => none", f"| some {self.pack(vs, st)} =>"] + nxt()

    def for_stmt(self, s, nxt):
        if s.orelse:
            self.fail(s, "for … else")
        for n in ast.walk(s):
            if isinstance(n, (ast.Break, ast.Continue, ast.Return, ast.While)):
                self.fail(n, f"{type(n).__name__.lower()} inside for")
        pre_env = dict(self.env)
        it, ti = self.ex(s.iter)
        ti = res(ti)
        if isinstance(ti, Unk) or ti[0] not in ("list", "tup"):
            self.fail(s, "for over a value that is not a list")
        elem = res(ti[1])
        vs, st = self.state_vars(s.body, pre_env)
        if st and not self.mutates:
            self.fail(s, "self changed in a method that is not expected to change it")
        targets = [n.id for n in ast.walk(s.target) if isinstance(n, ast.Name)]
        if set(targets) & set(pre_env):
            self.fail(s, f"loop variable re-uses the name of an earlier local: {sorted(set(targets) & set(pre_env))}")
        name = f"{CLS}.{self.name}_loop{self.nloop}"
        self.nloop += 1
        fixed = [v for v in pre_env if v not in vs and pre_env[v][1] is not UNION]
        fixed.sort(key=lambda v: (pre_env[v][0][0], int(pre_env[v][0][1:])))
        fixed_args = "".join(f" {pre_env[v][0]}" for v in fixed)
        # bind the loop variable(s)
        if isinstance(s.target, ast.Name):
            x = self.new_local()
            self.env[s.target.id] = (x, elem)
            pat = x
        elif isinstance(s.target, ast.Tuple) and len(s.target.elts) == 2 and all(isinstance(t, ast.Name) for t in s.target.elts) \
                and elem[0] == "pair":
            x1, x2 = self.new_local(), self.new_local()
            self.env[s.target.elts[0].id] = (x1, elem[1])
            self.env[s.target.elts[1].id] = (x2, elem[2])
            pat = f"({x1}, {x2})"
        else:
            self.fail(s, "for target")
        iter_binds, self.binds = self.binds, []
        state_in = self.pack(vs, st, pre_env)
        holder = {}

        def fin():
            holder["env"] = dict(self.env)
            return [f"{name}{EXT_ARGS}{fixed_args} {self.pack(vs, st)} rest"]
        body = self.block(list(s.body), fin)
        env1 = holder["env"]
        for v in vs:
            if not unify(pre_env[v][1], env1[v][1]):
                self.fail(s, f"the loop changes the kind of value of `{v}`")
        self.binds = iter_binds
        self.env = dict(pre_env)
        state_tys = self.pack_ty(vs, st, pre_env)
        fixed_tys = [(pre_env[v][0], pre_env[v][1]) for v in fixed]
        src = ast.unparse(s.iter)
        meth = self.node.name

        def emit():
            sty = "Unit" if not state_tys else " × ".join(lean_ty(t) for t in state_tys)
            if len(state_tys) > 1:
                sty = f"({sty})"
            decl = "".join(f" ({n} : {lean_ty(t)})" for n, t in fixed_tys)
            return [f"/-- `for` loop {name.rsplit('_loop', 1)[1]} of `{CLS}.{meth}` -/",
                    f"def {name}{EXT_DECL}{decl} : {sty} → List ({lean_ty(elem)}) → Option {sty if sty[0] == '(' or ' ' not in sty else '(' + sty + ')'}",
                    f"  | {state_in}, [] => some {state_in}",
                    f"  | {state_in}, {pat} :: rest =>"] + ind(body, 4) + [""]
        self.loop_defs.append(emit)
        return self.flush([f"match {name}{EXT_ARGS}{fixed_args} {state_in} {it} with", "| none => none",
                           f"| some {state_in} =>"]) + nxt()

    # ---------------------------------------------------------------- whole function
    def run(self) -> list[str]:
        body = list(self.node.body)
        if self.mutates:
            lines = self.block(body, lambda: ["some st"])
            rty = "MA κ α"
        else:
            if not body or not isinstance(body[-1], ast.Return):
                self.fail(self.node, "a value-returning method must end in return")
            lines = self.block(body, lambda: [])
            rty = lean_ty(self.ret_ty)
        out = []
        for d in self.pre_defs:
            out += d
        for emit in self.loop_defs:
            out += emit()
        decl = "".join(f" ({n} : {lean_ty(t)})" for n, t in self.params)
        stp = " (st : MA κ α)" if self.mutates else ""
        out += [f"/-- method `{CLS}.{self.node.name}` -/",
                f"def {CLS}.{self.name}{EXT_DECL}{stp}{decl} : Option ({rty}) :="] + ind(lines, 2) + [""]
        return out


def translate_ma(src: str) -> list[str]:
    try:
        tree = ast.parse(src)
    except SyntaxError as e:
        raise Unsupported(f"{REL_SOURCE}: syntax error: {e}") from e
    cls = next((n for n in tree.body if isinstance(n, ast.ClassDef) and n.name == CLS), None)
    if cls is None:
        raise Unsupported(f"{REL_SOURCE}: class {CLS} not found")
    if cls.bases:
        raise Unsupported(f"{REL_SOURCE}:{cls.lineno}: class {CLS} has base classes")
    defs = {n.name: n for n in cls.body if isinstance(n, ast.FunctionDef)}
    sigs: dict[str, tuple] = {}
    out: list[str] = []
    for name, aty, kws, mut in METHODS:
        if name not in defs:
            raise Unsupported(f"{REL_SOURCE}: method {CLS}.{name} not found")
        node = defs[name]
        if node.decorator_list:
            raise Unsupported(f"{REL_SOURCE}:{node.lineno}: decorated method {name}")
        fn = Fn(node, aty, kws, mut, sigs)
        lines = fn.run()
        sigs[name] = (aty, mut, None if mut else fn.ret_ty)
        out += lines
    return out


PRELUDE_MA = r'''
/-! ### representation of the dynamically typed arguments and Python semantics used (fixed text) -/

/-- what one agent contributes to one field of a VECTORISED experience: an array / list (its per-environment rows),
    a dict of arrays, or a tuple of arrays -/
abbrev PyVal (κ α : Type) := List α ⊕ (List (κ × List α) ⊕ List (List α))
@[match_pattern, reducible] def PyVal.arr {κ α : Type} (rows : List α) : PyVal κ α := Sum.inl rows
@[match_pattern, reducible] def PyVal.dict {κ α : Type} (kv : List (κ × List α)) : PyVal κ α := Sum.inr (Sum.inl kv)
@[match_pattern, reducible] def PyVal.tup {κ α : Type} (xs : List (List α)) : PyVal κ α := Sum.inr (Sum.inr xs)

/-- the same for ONE environment: a row, a dict of rows, a tuple of rows -/
abbrev PyEnt (κ α : Type) := α ⊕ (List (κ × α) ⊕ List α)
@[match_pattern, reducible] def PyEnt.arr {κ α : Type} (row : α) : PyEnt κ α := Sum.inl row
@[match_pattern, reducible] def PyEnt.dict {κ α : Type} (kv : List (κ × α)) : PyEnt κ α := Sum.inr (Sum.inl kv)
@[match_pattern, reducible] def PyEnt.tup {κ α : Type} (xs : List α) : PyEnt κ α := Sum.inr (Sum.inr xs)

/-- the state of the buffer: the record py2lean_ring.py generates from `__init__`, holding transitions
    (one per-environment dict per field) -/
abbrev MA (κ α : Type) := RingGen.MultiAgentReplayBuffer (List (List (κ × PyEnt κ α)))

/-- `l[i]` (`none` = IndexError; a negative index counts from the end) -/
def pyIndex {β : Type} (l : List β) (i : Int) : Option β :=
  let j := if i < 0 then i + l.length else i
  if j < 0 then none else l[j.toNat]?

/-- every element of a comprehension must evaluate (`none` = one of them raised) -/
def pyAll {β : Type} : List (Option β) → Option (List β)
  | [] => some []
  | x :: r =>
    match x, pyAll r with
    | some a, some as => some (a :: as)
    | _, _ => none

def pyValues {κ β : Type} (d : List (κ × β)) : List β := d.map (fun p => p.2)
def pyKeys {κ β : Type} (d : List (κ × β)) : List κ := d.map (fun p => p.1)

/-- `enumerate(l)` -/
def pyEnumerateFrom {β : Type} : Nat → List β → List (Nat × β)
  | _, [] => []
  | k, x :: r => (k, x) :: pyEnumerateFrom (k + 1) r
def pyEnumerate {β : Type} (l : List β) : List (Nat × β) := pyEnumerateFrom 0 l

/-- `d[k] = v` on a dict (insertion-ordered): replace the value of an existing key, else append -/
def pySetItem {κ β : Type} [DecidableEq κ] : List (κ × β) → κ → β → List (κ × β)
  | [], k, v => [(k, v)]
  | (k', v') :: r, k, v => if k' = k then (k', v) :: r else (k', v') :: pySetItem r k v

/-- `l[j].append(x)` on a list of lists (`none` = IndexError) -/
def pyAppendAt {β : Type} (l : List (List β)) (j : Int) (x : β) : Option (List (List β)) :=
  let k := if j < 0 then j + l.length else j
  if k < 0 then none else
  match l[k.toNat]? with
  | none => none
  | some row => some (l.set k.toNat (row ++ [x]))

/-- `zip(*ls)`: as many tuples as the shortest list has elements; no lists, no tuples -/
def pyZipStarN {β : Type} : Nat → List (List β) → List (List β)
  | 0, _ => []
  | n + 1, ls =>
    match pyAll (ls.map List.head?) with
    | none => []
    | some hs => hs :: pyZipStarN n (ls.map List.tail)
def pyZipStar {β : Type} (ls : List (List β)) : List (List β) :=
  match ls with
  | [] => []
  | l :: _ => pyZipStarN l.length ls
'''


# ------------------------------------------------------------------------------------------ PART 2 (shapes)
PRELUDE_SHAPE = r'''
/-! ### tensors as shape + flat row-major content; TensorDict semantics used by the callers (fixed text) -/

structure PyT (α : Type) where
  shape : List Nat
  data : List α

def PyT.ndim {α : Type} (t : PyT α) : Nat := t.shape.length

/-- `t.unsqueeze(d)` for `d = -1` (a new last axis) or `d = 0` (a new first axis): the content is unchanged -/
def PyT.unsqueeze {α : Type} (t : PyT α) (d : Int) : Option (PyT α) :=
  if d = -1 then some { t with shape := t.shape ++ [1] }
  else if d = 0 then some { t with shape := 1 :: t.shape }
  else none

/-- `t.reshape(a, b)`: the number of elements must agree; the (row-major) content is unchanged -/
def PyT.reshape2 {α : Type} (t : PyT α) (a b : Nat) : Option (PyT α) :=
  if a * b = t.shape.foldl (· * ·) 1 then some { t with shape := [a, b] } else none

/-- an observation handed to `Transition`: one tensor, a dict of tensors or a tuple of tensors -/
inductive PyObs (α : Type) where
  | tensor (t : PyT α)
  | dict (kv : List (String × PyT α))
  | tup (xs : List (PyT α))

/-- what `Transition` holds for an observation afterwards: a tensor or a TensorDict (keys in order) -/
inductive PyObsTD (α : Type) where
  | tensor (t : PyT α)
  | td (kv : List (String × PyT α))
  | raw

/-- `TensorDict.unsqueeze(0)` / tensorclass `unsqueeze(0)` on one leaf: a new first axis of length 1 -/
def PyT.unsqueeze0 {α : Type} (t : PyT α) : PyT α := { t with shape := 1 :: t.shape }

/-- `td.batch_size = [n]` is accepted only if every leaf has leading dimension `n` (else RuntimeError) -/
def PyT.batchOk {α : Type} (n : Nat) (t : PyT α) : Bool := t.shape.head? == some n

/-- row `e` of a leaf (first axis = batch): the `e`-th block of the row-major content -/
def PyT.row {α : Type} (t : PyT α) (e : Nat) : List α :=
  let w := t.shape.tail.foldl (· * ·) 1
  (t.data.drop (e * w)).take w
'''


class ShapeTr:
    """PART 2: small structural translator for data.py and the reshape loop of ReplayBuffer.add"""

    def __init__(self, data_src: str, rb_src: str):
        try:
            self.data = ast.parse(data_src)
            self.rb = ast.parse(rb_src)
        except SyntaxError as e:
            raise Unsupported(f"syntax error: {e}") from e

    def fail(self, rel, node, what):
        raise Unsupported(f"{rel}:{getattr(node, 'lineno', '?')}: {what}")

    @staticmethod
    def strip_doc(body):
        return [b for b in body if not (isinstance(b, ast.Expr) and isinstance(b.value, ast.Constant) and isinstance(b.value.value, str))]

    def isinst(self, test, var):
        """kinds tested by isinstance(<var>, T)"""
        if not (isinstance(test, ast.Call) and isinstance(test.func, ast.Name) and test.func.id == "isinstance"
                and len(test.args) == 2 and ast.unparse(test.args[0]) == var):
            return None
        ts = test.args[1].elts if isinstance(test.args[1], ast.Tuple) else [test.args[1]]
        return [ast.unparse(t) for t in ts]

    # to_tensordict -------------------------------------------------------------
    def to_tensordict(self) -> list[str]:
        rel = REL_SOURCE_DATA
        fn = next((n for n in self.data.body if isinstance(n, ast.FunctionDef) and n.name == "to_tensordict"), None)
        if fn is None:
            self.fail(rel, self.data, "to_tensordict not found")
        p = fn.args.args[0].arg
        body = self.strip_doc(fn.body)
        if len(body) != 2 or not isinstance(body[0], ast.If) or not isinstance(body[1], ast.Return):
            self.fail(rel, fn, "to_tensordict: expected one if-chain and a return")
        r = body[1].value
        if not (isinstance(r, ast.Call) and isinstance(r.func, ast.Attribute) and r.func.attr == "to"
                and ast.unparse(r.func.value) == p and not r.args and [k.arg for k in r.keywords] == ["dtype"]):
            self.fail(rel, body[1], "to_tensordict: return other than data.to(dtype=…)")
        chain, node = [], body[0]
        while True:
            chain.append((node.test, node.body))
            if len(node.orelse) == 1 and isinstance(node.orelse[0], ast.If):
                node = node.orelse[0]
            elif node.orelse:
                self.fail(rel, node, "to_tensordict: else branch")
            else:
                break
        arms = {}
        for kind in ("tuple", "dict", "tensor"):
            br = None
            for test, b in chain:
                ks = self.isinst(test, p)
                if ks is None or not set(ks) <= {"tuple", "dict"}:
                    self.fail(rel, test, "to_tensordict: test other than isinstance(data, tuple | dict)")
                if kind in ks:
                    br = b
                    break
            arms[kind] = self.td_branch(br, p, kind) if br is not None else "PyObsTD.tensor a0"
        return ["/-- `to_tensordict` (data.py): keys of the TensorDict built from a tuple / dict observation; a tensor passes -/",
                "def to_tensordict {α : Type} : PyObs α → PyObsTD α",
                f"  | PyObs.tup a0 => {arms['tuple']}",
                f"  | PyObs.dict a0 => {arms['dict']}",
                f"  | PyObs.tensor a0 => {arms['tensor']}", ""]

    def td_branch(self, body, p, kind) -> str:
        rel = REL_SOURCE_DATA
        body = [b for b in body if not isinstance(b, ast.Assert)]        # type checks of the leaves: not shape
        if kind == "dict":
            if len(body) == 1 and isinstance(body[0], ast.Assign) and ast.unparse(body[0].targets[0]) == p \
                    and ast.unparse(body[0].value) == f"TensorDict({p})":
                return "PyObsTD.td a0"
            self.fail(rel, body[0] if body else self.data, "to_tensordict: dict branch other than data = TensorDict(data)")
        # tuple: new = OrderedDict(); for i, el in enumerate(data): new[f"…{i}"] = el; data = TensorDict(new)
        if len(body) != 3 or not isinstance(body[0], ast.Assign) or not isinstance(body[1], ast.For) or not isinstance(body[2], ast.Assign):
            self.fail(rel, body[0] if body else self.data, "to_tensordict: tuple branch shape")
        nd = ast.unparse(body[0].targets[0])
        if ast.unparse(body[0].value) not in ("OrderedDict()", "{}", "dict()"):
            self.fail(rel, body[0], "to_tensordict: tuple branch must start from an empty dict")
        f = body[1]
        if not (isinstance(f.target, ast.Tuple) and len(f.target.elts) == 2 and ast.unparse(f.iter) == f"enumerate({p})"
                and len(f.body) == 1 and isinstance(f.body[0], ast.Assign) and not f.orelse):
            self.fail(rel, f, "to_tensordict: tuple loop other than `for i, el in enumerate(data): new[key] = el`")
        i, el = f.target.elts[0].id, f.target.elts[1].id
        a = f.body[0]
        t = a.targets[0]
        if not (isinstance(t, ast.Subscript) and ast.unparse(t.value) == nd and ast.unparse(a.value) == el):
            self.fail(rel, a, "to_tensordict: tuple loop body")
        k = t.slice
        if not (isinstance(k, ast.JoinedStr) and len(k.values) == 2 and isinstance(k.values[0], ast.Constant)
                and isinstance(k.values[1], ast.FormattedValue) and ast.unparse(k.values[1].value) == i
                and k.values[1].conversion == -1 and k.values[1].format_spec is None):
            self.fail(rel, a, "to_tensordict: key other than f\"<prefix>{i}\"")
        prefix = k.values[0].value
        if '"' in prefix or "\\" in prefix:
            self.fail(rel, a, "to_tensordict: key prefix")
        if ast.unparse(body[2].targets[0]) != p or ast.unparse(body[2].value) != f"TensorDict({nd})":
            self.fail(rel, body[2], "to_tensordict: tuple branch must end in data = TensorDict(new)")
        return f'PyObsTD.td ((pyEnumerate a0).map (fun p => ("{prefix}" ++ toString p.1, p.2)))'

    # to_torch_tensor -----------------------------------------------------------
    def to_torch_tensor(self) -> list[str]:
        rel = REL_SOURCE_DATA
        fn = next((n for n in self.data.body if isinstance(n, ast.FunctionDef) and n.name == "to_torch_tensor"), None)
        if fn is None:
            self.fail(rel, self.data, "to_torch_tensor not found")
        p = fn.args.args[0].arg
        for n in ast.walk(fn):
            if isinstance(n, ast.Return):
                v = n.value
                ok = isinstance(v, ast.Call) and (
                    (ast.unparse(v.func) == "torch.tensor" and len(v.args) == 1 and ast.unparse(v.args[0]) == p
                     and [k.arg for k in v.keywords] in ([], ["dtype"]))
                    or (isinstance(v.func, ast.Attribute) and v.func.attr == "to" and ast.unparse(v.func.value) == p
                        and not v.args and [k.arg for k in v.keywords] == ["dtype"]))
                if not ok:
                    self.fail(rel, n, f"to_torch_tensor: return other than torch.tensor({p}, …) / {p}.to(dtype=…)")
            elif isinstance(n, (ast.Assign, ast.AugAssign, ast.For, ast.While, ast.Raise)):
                self.fail(rel, n, "to_torch_tensor: statement other than if / return")
        return ["/-- `to_torch_tensor` (data.py): every branch is `torch.tensor(data, dtype)` or `data.to(dtype)` - shape and",
                "    content unchanged (a Python number is a 0-dimensional tensor) -/",
                "def to_torch_tensor {α : Type} (a0 : PyT α) : PyT α := a0", ""]

    # Transition.__post_init__ ---------------------------------------------------
    def post_init(self) -> list[str]:
        rel = REL_SOURCE_DATA
        cls = next((n for n in self.data.body if isinstance(n, ast.ClassDef) and n.name == "Transition"), None)
        if cls is None:
            self.fail(rel, self.data, "class Transition not found")
        fields = [n.target.id for n in cls.body if isinstance(n, ast.AnnAssign) and isinstance(n.target, ast.Name)]
        fn = next((n for n in cls.body if isinstance(n, ast.FunctionDef) and n.name == "__post_init__"), None)
        if fn is None:
            self.fail(rel, cls, "Transition.__post_init__ not found")
        obs_fields = [f for f in fields if f in ("obs", "next_obs")]
        ten_fields = [f for f in fields if f not in obs_fields]
        if sorted(fields) != sorted(["obs", "action", "next_obs", "reward", "done"]):
            self.fail(rel, cls, f"Transition fields {fields}")
        lines = []
        for s in self.strip_doc(fn.body):
            if isinstance(s, ast.Assign) and len(s.targets) == 1 and isinstance(s.targets[0], ast.Attribute) \
                    and ast.unparse(s.targets[0].value) == "self" and s.targets[0].attr in ten_fields:
                f = s.targets[0].attr
                if ast.unparse(s.value) != f"to_torch_tensor(self.{f})":
                    self.fail(rel, s, f"assignment to self.{f}")
                lines.append(f"let st := {{ st with {f} := to_torch_tensor st.{f} }}")
            elif isinstance(s, ast.If) and not s.orelse and len(s.body) == 1 and isinstance(s.body[0], ast.Assign):
                a = s.body[0]
                if not (isinstance(a.targets[0], ast.Attribute) and ast.unparse(a.targets[0].value) == "self"):
                    self.fail(rel, s, "if body")
                f = a.targets[0].attr
                ks = self.isinst(s.test, f"self.{f}")
                if ks is not None and f in obs_fields:
                    if ast.unparse(a.value) != f"to_tensordict(self.{f})" or not set(ks) <= {"dict", "tuple"}:
                        self.fail(rel, s, f"conversion of self.{f}")
                    conv = {"dict": "PyObs.dict", "tuple": "PyObs.tup"}
                    cases = " ".join(f"| {conv[k]} x => to_tensordict ({conv[k]} x)" if k in ks else f"| {conv[k]} x => obsRaw ({conv[k]} x)"
                                     for k in ("dict", "tuple"))
                    lines.append(f"let st := {{ st with {f}_td := match st.{f} with {cases} | PyObs.tensor t => PyObsTD.tensor t }}")
                    continue
                t = s.test
                if f in ten_fields and isinstance(t, ast.Compare) and len(t.ops) == 1 and isinstance(t.ops[0], ast.Eq) \
                        and ast.unparse(t.left) == f"self.{f}.ndim" and isinstance(t.comparators[0], ast.Constant) \
                        and isinstance(t.comparators[0].value, int) and isinstance(a.value, ast.Call) \
                        and ast.unparse(a.value.func) == f"self.{f}.unsqueeze" and len(a.value.args) == 1:
                    d = a.value.args[0]
                    dv = ast.literal_eval(ast.unparse(d)) if isinstance(d, (ast.Constant, ast.UnaryOp)) else None
                    if not isinstance(dv, int):
                        self.fail(rel, s, "unsqueeze axis")
                    lines += [f"match (if st.{f}.ndim = {t.comparators[0].value} then (st.{f}.unsqueeze ({dv})) else some st.{f}) with",
                              "| none => none", f"| some r =>", f"let st := {{ st with {f} := r }}"]
                    continue
                self.fail(rel, s, f"if statement {ast.unparse(s.test)}")
            else:
                self.fail(rel, s, f"statement {ast.unparse(s)[:60]}")
        decl = ["/-- the fields of `Transition` (data.py); `obs_td` / `next_obs_td` hold what `__post_init__` leaves in",
                "    `obs` / `next_obs` (a tensor kept, or the TensorDict made by `to_tensordict`) -/",
                "structure Transition (α : Type) where"]
        for f in fields:
            decl.append(f"  {f} : {'PyObs α' if f in obs_fields else 'PyT α'}")
        for f in obs_fields:
            decl.append(f"  {f}_td : PyObsTD α")
        decl += ["", "/-- a dict / tuple observation that `__post_init__` does not convert stays a raw Python container:",
                 "    no TensorDict, no keys -/",
                 "def obsRaw {α : Type} (o : PyObs α) : PyObsTD α := PyObsTD.raw", "",
                 "/-- `Transition.__post_init__` -/",
                 "def Transition.post_init {α : Type} (st : Transition α) : Option (Transition α) :="]
        return decl + ind(lines + ["some st"], 2) + [""]

    # the reshape loop of ReplayBuffer.add ---------------------------------------
    def add_rows(self) -> list[str]:
        rel = REL_SOURCE_RB
        cls = next((n for n in self.rb.body if isinstance(n, ast.ClassDef) and n.name == "ReplayBuffer"), None)
        fn = next((n for n in cls.body if isinstance(n, ast.FunctionDef) and n.name == "add"), None) if cls else None
        if fn is None:
            self.fail(rel, self.rb, "ReplayBuffer.add not found")
        p = fn.args.args[1].arg
        nvar = None
        loop = None
        for s in self.strip_doc(fn.body):
            if isinstance(s, ast.Assign) and isinstance(s.targets[0], ast.Name) and isinstance(s.value, ast.Subscript) \
                    and ast.unparse(s.value.value) == f"{p}.shape":
                if not (isinstance(s.value.slice, ast.Constant) and s.value.slice.value == 0):
                    self.fail(rel, s, f"number of transitions other than {p}.shape[0]")
                nvar = s.targets[0].id
            elif isinstance(s, ast.For) and ast.unparse(s.iter) == f"{p}.items()":
                loop = s
                break
        if nvar is None or loop is None:
            self.fail(rel, fn, "ReplayBuffer.add: `n = data.shape[0]` / the reshape loop not found")
        key, value = loop.target.elts[0].id, loop.target.elts[1].id
        if len(loop.body) != 2 or not isinstance(loop.body[0], ast.If) or ast.unparse(loop.body[1]) != f"{p}[{key}] = {value}":
            self.fail(rel, loop, "reshape loop: expected `if is_tensor_collection(value): … else: …; data[key] = value`")
        top = loop.body[0]
        if ast.unparse(top.test) != f"is_tensor_collection({value})":
            self.fail(rel, top, "reshape loop: test")

        def leaf_rule(stmt, var, store):
            """`if v.ndim == k: <store> = v.reshape(n, c)` -> (k, c)"""
            if not (isinstance(stmt, ast.If) and not stmt.orelse and len(stmt.body) == 1 and isinstance(stmt.body[0], ast.Assign)):
                self.fail(rel, stmt, "reshape loop: leaf rule shape")
            t, a = stmt.test, stmt.body[0]
            if not (isinstance(t, ast.Compare) and len(t.ops) == 1 and isinstance(t.ops[0], ast.Eq) and ast.unparse(t.left) == f"{var}.ndim"
                    and isinstance(t.comparators[0], ast.Constant) and isinstance(t.comparators[0].value, int)):
                self.fail(rel, stmt, "reshape loop: leaf test other than v.ndim == k")
            if ast.unparse(a.targets[0]) != store:
                self.fail(rel, a, f"reshape loop: stores into {ast.unparse(a.targets[0])}, expected {store}")
            c = a.value
            if not (isinstance(c, ast.Call) and ast.unparse(c.func) == f"{var}.reshape" and len(c.args) == 2
                    and ast.unparse(c.args[0]) == nvar and isinstance(c.args[1], ast.Constant) and isinstance(c.args[1].value, int)):
                self.fail(rel, a, f"reshape loop: expected {var}.reshape({nvar}, c)")
            return t.comparators[0].value, c.args[1].value

        nested_body = [b for b in top.body if not isinstance(b, ast.AnnAssign)]
        if len(nested_body) != 1 or not isinstance(nested_body[0], ast.For) or ast.unparse(nested_body[0].iter) != f"{value}.items()" \
                or len(nested_body[0].body) != 1:
            self.fail(rel, top, "reshape loop: nested branch")
        k2, v2 = nested_body[0].target.elts[0].id, nested_body[0].target.elts[1].id
        nk, nc = leaf_rule(nested_body[0].body[0], v2, f"{value}[{k2}]")
        if len(top.orelse) != 1:
            self.fail(rel, top, "reshape loop: else branch")
        tk, tc = leaf_rule(top.orelse[0], value, value)
        return ["/-- `ReplayBuffer.add`, reshape loop, a leaf of a nested TensorDict: `if v.ndim == k: value[k] = v.reshape(n, c)` -/",
                "def add_leaf_nested {α : Type} (n : Nat) (v : PyT α) : Option (PyT α) :=",
                f"  if v.ndim = {nk} then v.reshape2 n {nc} else some v", "",
                "/-- the same for a top-level leaf -/",
                "def add_leaf_top {α : Type} (n : Nat) (v : PyT α) : Option (PyT α) :=",
                f"  if v.ndim = {tk} then v.reshape2 n {tc} else some v", "",
                f"/-- `{nvar} = {p}.shape[0]`: the number of rows one `add` contributes is the batch size of the TensorDict -/",
                "def add_n_transitions (batch_size : List Nat) : Option Nat := pyIndex batch_size (0 : Int)", ""]

    def run(self) -> list[str]:
        return self.to_tensordict() + self.to_torch_tensor() + self.post_init() + self.add_rows()


# ------------------------------------------------------------------------------------------ driver
def repo_dir(arg: str | None = None) -> Path:
    if arg:
        return Path(arg)
    return Path(os.environ.get("VERIF_REPO", "/repo"))


def translate(repo: Path) -> tuple[str, str]:
    Unk.n = 0
    srcs, shas = {}, []
    for rel in (REL_SOURCE, REL_SOURCE_DATA, REL_SOURCE_RB):
        path = Path(repo) / rel
        try:
            raw = path.read_bytes()
        except OSError as e:
            raise Unsupported(f"cannot read {path}: {e}") from e
        shas.append((rel, hashlib.sha256(raw).hexdigest()))
        try:
            srcs[rel] = raw.decode("utf-8")
        except UnicodeDecodeError as e:
            raise Unsupported(f"{rel}: not utf-8: {e}") from e
    body_ma = translate_ma(srcs[REL_SOURCE])
    body_shape = ShapeTr(srcs[REL_SOURCE_DATA], srcs[REL_SOURCE_RB]).run()
    sha = hashlib.sha256("".join(s for _, s in shas).encode()).hexdigest()
    header = [
        "import Gen.RingGen",
        "/-",
        "  Gen/ReorgGen.lean — GENERATED by harness/py2lean_reorg.py from",
        f"  {REL_SOURCE} (`_reorganize_dicts`, `_add`, `save_to_memory*`),",
        f"  {REL_SOURCE_DATA} (`to_tensordict`, `to_torch_tensor`, `Transition.__post_init__`) and",
        f"  {REL_SOURCE_RB} (the reshape loop of `ReplayBuffer.add`); do not edit.",
        "  `Proofs/ReorgGenEq.lean` proves these definitions equal to their counterparts in `Model/Ring.lean`.",
        "-/",
    ] + [f"{SHA_PREFIX}{rel}) = {s}" for rel, s in shas] + [
        "set_option linter.unusedVariables false",
        "",
        "namespace ReorgGen",
    ]
    text = ("\n".join(header) + "\n" + PRELUDE_MA + "\nsection\nvariable {κ α : Type} [DecidableEq κ]\n\n"
            + f"/-! ### `{CLS}` ({REL_SOURCE}) -/\n\n" + "\n".join(body_ma).rstrip() + "\n\nend\n" + PRELUDE_SHAPE
            + f"\n/-! ### `{REL_SOURCE_DATA}`, `{REL_SOURCE_RB}` -/\n\n" + "\n".join(body_shape).rstrip()
            + "\n\nend ReorgGen\n")
    return text, sha


def strip_sha(text: str) -> str:
    return "\n".join(ln for ln in text.split("\n") if not ln.startswith(SHA_PREFIX))


def write_if_changed(text: str, out: Path, force: bool = False) -> bool:
    old = out.read_text() if out.exists() else None
    if old is not None and not force and strip_sha(old) == strip_sha(text):
        return False
    if old == text:
        return False
    out.parent.mkdir(parents=True, exist_ok=True)
    tmp = out.with_suffix(".lean.tmp")
    tmp.write_text(text)
    os.replace(tmp, out)
    return True


def main(argv: list[str]) -> int:
    import argparse
    ap = argparse.ArgumentParser()
    ap.add_argument("--repo", default=None)
    ap.add_argument("--out", default=str(DEFAULT_OUT))
    ap.add_argument("--stdout", action="store_true")
    ap.add_argument("--force", action="store_true", help="rewrite even if only the sha256 lines differ")
    a = ap.parse_args(argv)
    try:
        text, sha = translate(repo_dir(a.repo))
    except Unsupported as e:
        print(f"py2lean_reorg: {e}", file=sys.stderr)
        return 1
    if a.stdout:
        sys.stdout.write(text)
        return 0
    changed = write_if_changed(text, Path(a.out), a.force)
    print(f"{a.out}: {'written' if changed else 'unchanged'} (sources sha256 {sha[:16]}…, "
          f"translation sha256 {hashlib.sha256(strip_sha(text).encode()).hexdigest()[:16]}…)")
    return 0


if __name__ == "__main__":
    sys.exit(main(sys.argv[1:]))
