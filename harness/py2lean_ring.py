#!/usr/bin/env python3
"""
py2lean_ring.py — translate the circular-storage logic of `ReplayBuffer`
(REPO/agilerl/components/replay_buffer.py) and the bounded-deque logic of `MultiAgentReplayBuffer`
(REPO/agilerl/components/multi_agent_replay_buffer.py) into Lean 4.

    python3 harness/py2lean_ring.py [--repo DIR] [--out FILE] [--stdout] [--force]

Reads the *source text* only (Python `ast`; agilerl is never imported) and writes
lean/Gen/RingGen.lean (namespace RingGen, core Lean only).  `Proofs/RingGenEq.lean` proves that the
generated definitions agree with the hand-written model `Model/Ring.lean` (`Buf.add`, `Buf.clear`,
`Buf.sample`, `Deq.push`, `Deq.pushMany`); `Props/C09.lean` restates the C09 theorems over the generated
definitions, so they are re-checked against what the code says now.

What is translated
  * class `ReplayBuffer` (no base class): `__init__` (only the fields the translated methods use),
    `__len__`, the property `size`, `add`, `sample`, `clear`;
  * class `MultiAgentReplayBuffer`: `__init__` (same restriction), `__len__`, `_add`,
    `save_to_memory_single_env`, `save_to_memory_vect_envs`, `save_to_memory`.
  Everything else in the two files (other classes, other methods, imports, module constants) is ignored.
  Left out: `ReplayBuffer._init` / `storage` / `is_full` / the `size` setter, `MultiStepReplayBuffer`,
  `PrioritizedReplayBuffer`; `MultiAgentReplayBuffer.sample`, `_process_transition`, `stack_transitions`,
  `_reorganize_dicts` (its transposition is modelled by hand: `Ring.reorganize`).

The preamble of `ReplayBuffer.add` is located by structure, not by line number.  The leading statements of
`add` may be, in any order,
  P1  `data = data.to(<anything>)`                       (device move; skipped: identity on the rows)
  P2  `<local> = data.shape[0]`                          (translated: the number of rows of `data`)
  P3  `for key, value in data.items(): …`                (reshape of 1-d values; skipped after a check that the
                                                          loop only assigns its own loop variables / `data[key]`
                                                          and only calls `.items()`, `.reshape(…)`,
                                                          `is_tensor_collection(…)`: identity on row count/order)
  P4  `if self._storage is None: self._init(data)`       (translated; `_init` is an explicit function parameter)
The first statement of another kind starts the translated range (it must be an assignment to a local — the
`start = self._cursor` of the source) which runs to the end of the method (the last statement must update a
field of `self` — the `self.counter += …` of the source).  Inside the range P1 / P3 are not accepted any more.

Supported subset (anything else raises `Unsupported` naming the construct and its line — never a default):
  * parameters: annotated `int` (→ Int), `bool` (→ Bool), `TensorDict` (→ List α, the rows of the batch),
    one `*args` (→ α: one packed transition), keyword-only parameters; `int` / `bool` constant defaults;
  * fields (types read off `__init__`): `self.f = <int param | int const>` (Int), `= True/False` (Bool),
    `self.f: Optional[TensorDict] = None` (Option (List α): the storage rows), `deque(maxlen=<int expr>)` /
    `deque()` (PyDeque α); `assert`s of `__init__` that mention only `int` parameters are translated, others
    (about parameters that are not part of the model) are skipped with a comment in the output;
  * statements: docstring, `x = e`, `x: T = e`, `x op= e` (normalised to `x = x op e`), `self.f = e`,
    `self.f op= e`, `self.f[lo:hi] = e` (tensor slice assignment), `self.f.append(e)` (deque),
    `self.m(…)` (translated method or listed external), `assert e`, `if / elif / else` (followed by more
    statements or not; a branch may not re-assign a local defined before the `if`, nor `return`),
    `for x in <list expr>:` (no else / break / continue; the body may change `self` only), `return e` as the last
    statement of a method, and in `sample` the form `if <bool>: <batch>["<key>"] = e` (adds a key to the batch
    handed out; skipped, the rows are unchanged — its condition and value must still be translatable);
  * expressions: int / bool constants, `None`, locals, `self.f`, properties `self.p`, `len(self)`,
    `+ - *`, `//`, `%` (Python floor semantics: `Int.fdiv` / `Int.fmod`, a zero divisor is `none`),
    comparisons (chained), `is None` / `is not None` on the storage field, `and / or / not`, `min(a, b)` /
    `max(a, b)`, `len(x)`, `x.shape[0]`, `x[lo:hi]` on row / index lists, `self.f[lo:hi]`, `self.f[idx]`
    (gather by an index list), `torch.randperm(e)`, `zip(*x)`, `self.experience(*x)`, `self._reorganize_dicts(*x)`.

Python semantics used (fixed prelude of the output, proved about in Proofs/RingGenEq.lean)
  * integers are `Int` (unbounded, like Python's); `min`/`max` return the first argument on ties;
  * a slice bound `None` is the open end, a negative bound counts from the end, every bound is clipped to
    `[0, len]`, `hi < lo` is the empty slice (`pyGetSlice`);
  * `t[lo:hi] = rows` on the first dimension of a tensor / TensorDict succeeds iff the number of rows equals
    the length of the slice (checked against tensordict 0.6: no broadcasting of a single row) — otherwise
    `none` (`pySetSlice`); assigning into / indexing `None` is `none`;
  * `t[idx]` with an index list: negative indices count from the end, an index outside the storage is `none`;
  * `deque(maxlen=m).append(x)`: `maxlen == 0` keeps the deque empty, else append and drop the oldest element
    when longer than `maxlen`.

Assumptions (external / runtime calls become explicit parameters or the identity)
  * `data.to(device)` and the reshape loop P3 do not change number, order or identity of the rows;
  * slice assignment copies rows (value semantics; no aliasing between `data` and the storage);
  * `self._init(data)` is the parameter `_init : ReplayBuffer α → List α → ReplayBuffer α` (the theorems assume
    it installs `max_size` zero rows and sets `initialized`);
  * `torch.randperm(n)` is the parameter `randperm : Int → List Int` (the theorems assume distinct values in
    `[0, n)`); its argument is translated, so `randperm(self.size)` vs `randperm(self.max_size)` differ;
  * `self.experience(*args)` (namedtuple constructor) is the identity on the packed transition;
  * `self._reorganize_dicts(*args)` is the parameter `_reorganize_dicts : α → List α` returning the
    per-environment transitions; a tuple of per-field lists is represented by that list, so `zip(*x)` is the
    identity;
  * `samples["idxs"] = indices` adds a key and leaves the sampled rows unchanged.

Shape of the output
  * `structure <Class> (α)` with the fields used, `def <Class>.init` from `__init__`;
  * a method that changes `self` and returns nothing: `<Class>.<m> (externals…) (st : <Class> α) args :
    Option (<Class> α)` (`none` = the Python raises); `self.f = e` becomes `let st := { st with f := e }`;
  * a method that is a single `return e` without a fallible sub-expression: a plain function; other
    value-returning methods: `Option <type>`;
  * fallible sub-expressions are bound before the statement that uses them
    (`match … with | none => none | some rK =>`, `if <divisor> = 0 then none else`);
  * `if` as a statement: `match (if c then (… some st) else (… some st)) with | none => none | some st => rest`;
  * `for x in l: body` becomes `<Class>.<m>_loopN` by structural recursion on the list;
  * Python locals are renamed canonically: parameters `a0, a1, …`, locals `v0, v1, …` in order of first
    assignment, bound results `r0, r1, …`; leading underscores of method names are dropped, `__len__` → `len`;
    field names are kept (they are the interface to the hand model).
The header carries the sha256 of the two source files; `write_if_changed` compares everything *but* those
lines, and the output contains no line numbers, so an edit that leaves the translation unchanged does not
touch the file (and lake does not rebuild).
"""
from __future__ import annotations

import ast
import hashlib
import os
import sys
from pathlib import Path

HERE = Path(__file__).resolve().parent
DEFAULT_OUT = HERE.parent / "lean" / "Gen" / "RingGen.lean"
REL_SOURCE = "agilerl/components/replay_buffer.py"
REL_SOURCE_MA = "agilerl/components/multi_agent_replay_buffer.py"
SHA_PREFIX = "-- sha256("


class Unsupported(Exception):
    pass


# types of the translated fragment
INT, NUM, BOOL, ROWS, IDX, ITEM, OPTROWS, DEQUE, NONE = "int", "num", "bool", "rows", "idx", "item", "optrows", "deque", "none"
LEAN_TY = {INT: "Int", NUM: "Int", BOOL: "Bool", ROWS: "List α", IDX: "List Int", ITEM: "α",
           OPTROWS: "Option (List α)", DEQUE: "PyDeque α"}
ELEM_OF = {ROWS: ITEM, IDX: INT}
CMPOPS = {ast.Eq: "=", ast.NotEq: "≠", ast.Lt: "<", ast.LtE: "≤", ast.Gt: ">", ast.GtE: "≥"}
ARITH = {ast.Add: "+", ast.Sub: "-", ast.Mult: "*"}
METHOD_NAMES = {"__init__": "init", "__len__": "len"}
EXTS = "«EXTS»"          # placeholder for the external-parameter list of the method being translated


class Spec:
    def __init__(self, rel, cls, methods, externals, constructors, preamble=None, key_add=None):
        self.rel, self.cls, self.methods = rel, cls, methods
        self.externals = externals          # name -> ("mut", [arg types]) | ("pure", [arg types], result type)
        self.constructors = constructors    # callable fields that are the identity on a packed transition
        self.preamble = preamble            # method whose leading statements are the add-preamble
        self.key_add = key_add              # method in which `if b: batch["k"] = e` is accepted


SPECS = [
    Spec(REL_SOURCE, "ReplayBuffer", ["__len__", "size", "add", "sample", "clear"],
         externals={"_init": ("mut", [ROWS])}, constructors=set(), preamble="add", key_add="sample"),
    Spec(REL_SOURCE_MA, "MultiAgentReplayBuffer",
         ["__len__", "_add", "save_to_memory_single_env", "save_to_memory_vect_envs", "save_to_memory"],
         externals={"_reorganize_dicts": ("pure", [ITEM], ROWS)}, constructors={"experience"}),
]
# module-level external functions: dotted name -> (parameter name, [arg types], result type)
EXT_FUNCS = {"torch.randperm": ("randperm", [INT], IDX)}

PRELUDE = r'''
/-! ### Python semantics used by the translation (fixed text) -/

/-- builtin `min(a, b)` on ints (the first argument on ties) -/
def pyMin (a b : Int) : Int := if b < a then b else a

/-- builtin `max(a, b)` on ints (the first argument on ties) -/
def pyMax (a b : Int) : Int := if b > a then b else a

/-- a slice bound: negative counts from the end, then clipped to `[0, len]` -/
def pyClip (len : Nat) (i : Int) : Nat :=
  if i < 0 then (i + len).toNat else min i.toNat len

/-- lower bound of `[lo:hi]` (`none` = open) -/
def pyLo (len : Nat) : Option Int → Nat
  | none => 0
  | some i => pyClip len i

/-- upper bound of `[lo:hi]` (`none` = open) -/
def pyHi (len : Nat) : Option Int → Nat
  | none => len
  | some i => pyClip len i

/-- `l[lo:hi]` -/
def pyGetSlice (l : List α) (lo hi : Option Int) : List α :=
  (l.take (pyHi l.length hi)).drop (pyLo l.length lo)

/-- `t[lo:hi] = xs` on the first dimension of a tensor: the row counts must agree (`none` = RuntimeError) -/
def pySetSlice (l : List α) (lo hi : Option Int) (xs : List α) : Option (List α) :=
  let a := pyLo l.length lo
  let b := max a (pyHi l.length hi)
  if xs.length = b - a then some (l.take a ++ xs ++ l.drop b) else none

/-- slice assignment into a field that may be `None` (`none` = TypeError) -/
def pySetSliceOpt (s : Option (List α)) (lo hi : Option Int) (xs : List α) : Option (List α) :=
  match s with
  | none => none
  | some l => pySetSlice l lo hi xs

/-- slice of a field that may be `None` -/
def pyGetSliceOpt (s : Option (List α)) (lo hi : Option Int) : Option (List α) :=
  match s with
  | none => none
  | some l => some (pyGetSlice l lo hi)

/-- `t[i]` for one index of an index tensor (`none` = IndexError) -/
def pyRow (l : List α) (i : Int) : Option α :=
  let j := if i < 0 then i + l.length else i
  if j < 0 then none else l[j.toNat]?

/-- `t[idx]` with an index list -/
def pyGather (l : List α) : List Int → Option (List α)
  | [] => some []
  | i :: r =>
    match pyRow l i, pyGather l r with
    | some x, some xs => some (x :: xs)
    | _, _ => none

/-- gather from a field that may be `None` -/
def pyGatherOpt (s : Option (List α)) (idx : List Int) : Option (List α) :=
  match s with
  | none => none
  | some l => pyGather l idx

/-- `collections.deque(maxlen=…)`; `maxlen = none` is unbounded -/
structure PyDeque (α : Type) where
  maxlen : Option Int
  items : List α

def PyDeque.new (maxlen : Option Int) : PyDeque α := { maxlen := maxlen, items := [] }

def PyDeque.len (d : PyDeque α) : Int := d.items.length

/-- `d.append(x)` -/
def PyDeque.append (d : PyDeque α) (x : α) : PyDeque α :=
  match d.maxlen with
  | none => { d with items := d.items ++ [x] }
  | some m =>
    if m = 0 then d
    else if ((d.items ++ [x]).length : Int) > m then { d with items := (d.items ++ [x]).drop 1 }
    else { d with items := d.items ++ [x] }
'''


def ind(lines, n=2):
    return [" " * n + ln for ln in lines]


def is_docstring(st) -> bool:
    return isinstance(st, ast.Expr) and isinstance(st.value, ast.Constant) and isinstance(st.value.value, str)


def self_attr(n) -> bool:
    return isinstance(n, ast.Attribute) and isinstance(n.value, ast.Name) and n.value.id == "self"


def dotted(n):
    if isinstance(n, ast.Name):
        return n.id
    if isinstance(n, ast.Attribute):
        b = dotted(n.value)
        return None if b is None else f"{b}.{n.attr}"
    return None


class Skip:
    """a statement of the source that is deliberately not translated (comment in the output)"""

    def __init__(self, comment: str):
        self.comment = comment


class Sig:
    def __init__(self):
        self.params = []          # (python name, type, default text or None, kind) kind in pos / var / kw
        self.kind = None          # "state" | "getter" | "value"
        self.ret_type = None
        self.exts = []            # external parameter names, in order of first use (callees included)
        self.lean = None


# ----------------------------------------------------------------------------------------------
class ClassTranslator:
    def __init__(self, spec: Spec, src: str):
        self.spec, self.rel = spec, spec.rel
        try:
            mod = ast.parse(src)
        except SyntaxError as e:
            raise Unsupported(f"{self.rel}:{e.lineno}: not parseable: {e.msg}") from e
        found = [s for s in mod.body if isinstance(s, ast.ClassDef) and s.name == spec.cls]
        if len(found) != 1:
            raise Unsupported(f"{self.rel}: class {spec.cls} not found exactly once at module level")
        self.node = found[0]
        if self.node.bases or self.node.keywords or self.node.decorator_list:
            self.fail(self.node, f"class {spec.cls} with base classes / keywords / decorators")
        self.all_methods: dict[str, list[ast.FunctionDef]] = {}
        for st in self.node.body:
            if isinstance(st, ast.FunctionDef):
                self.all_methods.setdefault(st.name, []).append(st)
            elif isinstance(st, (ast.AsyncFunctionDef, ast.ClassDef)):
                self.fail(st, f"{type(st).__name__} in the body of {spec.cls}")
        self.methods: dict[str, ast.FunctionDef] = {}
        self.props: set[str] = set()
        for m in spec.methods:
            self.methods[m] = self.pick(m)
        for e in spec.externals:
            if e not in self.all_methods:
                raise Unsupported(f"{self.rel}: method {spec.cls}.{e} (an assumed external) not found")
            if e in self.methods:
                raise Unsupported(f"{self.rel}: {e} is both translated and external")
        self.sigs: dict[str, Sig] = {}
        self.fields: dict[str, str] = {}          # field -> type
        self.field_init: dict[str, str] = {}      # field -> lean text of the initialiser
        self.out: list[str] = []
        self._stmts: dict[str, list] = {}

    def fail(self, node, what: str):
        line = getattr(node, "lineno", "?")
        raise Unsupported(f"{self.rel}:{line}: unsupported construct: {what}")

    def pick(self, name: str) -> ast.FunctionDef:
        cands = self.all_methods.get(name, [])
        if not cands:
            raise Unsupported(f"{self.rel}: method {self.spec.cls}.{name} not found")
        plain = [f for f in cands if not f.decorator_list]
        getters = [f for f in cands if len(f.decorator_list) == 1 and isinstance(f.decorator_list[0], ast.Name)
                   and f.decorator_list[0].id == "property"]
        others = [f for f in cands if f not in plain and f not in getters]
        for f in others:         # only `@<name>.setter` may accompany a property getter
            d = f.decorator_list
            if not (len(d) == 1 and isinstance(d[0], ast.Attribute) and d[0].attr == "setter" and getters):
                self.fail(f, f"decorator on {self.spec.cls}.{name}")
        if len(plain) + len(getters) != 1:
            self.fail(cands[0], f"{self.spec.cls}.{name} defined {len(plain) + len(getters)} times")
        if getters:
            self.props.add(name)
            return getters[0]
        return plain[0]

    def lean_name(self, py: str) -> str:
        return METHOD_NAMES.get(py, py.lstrip("_"))

    def qual(self, py: str) -> str:
        return f"{self.spec.cls}.{self.lean_name(py)}"

    # ------------------------------------------------------------------ fields
    def used_fields(self) -> list[str]:
        names = []
        for m in self.methods:
            for st in self.method_stmts(m):
                if isinstance(st, Skip):
                    continue
                for n in ast.walk(st):
                    if self_attr(n) and n.attr not in self.all_methods and n.attr not in self.spec.constructors \
                            and n.attr not in names:
                        names.append(n.attr)
        return names

    def method_stmts(self, m: str) -> list:
        """the statements of a translated method; deliberately untranslated ones are `Skip` markers"""
        if m not in self._stmts:
            fn = self.methods[m]
            stmts = [s for s in fn.body if not is_docstring(s)]
            if self.spec.preamble == m:
                stmts = self.split_preamble(self.signature(fn), fn, stmts)
            self._stmts[m] = stmts
        return self._stmts[m]

    def translate_init(self):
        fn = self.pick("__init__")
        a = fn.args
        if a.vararg or a.kwarg or a.kwonlyargs or a.posonlyargs or not a.args or a.args[0].arg != "self":
            self.fail(fn, "__init__ parameter list")
        int_params = [p.arg for p in a.args[1:] if isinstance(p.annotation, ast.Name) and p.annotation.id == "int"]
        all_params = [p.arg for p in a.args[1:]]
        used = self.used_fields()
        ctx = Ctx(self, fn, init_mode=True)
        for p in int_params:
            ctx.canon[p] = f"«{p}»"                 # renamed to a0… once we know which ones are referenced
            ctx.types[p] = INT
            ctx.defined.add(p)
        order, conds, skipped = [], [], []
        for st in fn.body:
            if is_docstring(st):
                continue
            if isinstance(st, ast.Assert):
                names = {n.id for n in ast.walk(st.test) if isinstance(n, ast.Name)}
                params_in = names & set(all_params)
                if params_in and params_in <= set(int_params) and not any(self_attr(n) for n in ast.walk(st.test)):
                    txt, ty = ctx.ex(st.test, top=True)
                    if ty != BOOL or ctx.binds:
                        self.fail(st, "assert of __init__ (not a plain boolean expression)")
                    conds.append(txt)
                elif params_in and not (params_in & set(int_params)):
                    skipped.append(ast.unparse(st.test))
                else:
                    self.fail(st, "assert of __init__ mixing translated and untranslated names")
                continue
            tg = val = ann = None
            if isinstance(st, ast.Assign) and len(st.targets) == 1:
                tg, val = st.targets[0], st.value
            elif isinstance(st, ast.AnnAssign) and st.value is not None:
                tg, val, ann = st.target, st.value, st.annotation
            if tg is None or not self_attr(tg):
                self.fail(st, f"{type(st).__name__} in __init__ (only asserts and `self.f = e`)")
            f = tg.attr
            if f in order:
                self.fail(st, f"self.{f} assigned twice in __init__")
            if f not in used:
                continue
            order.append(f)
            ty, txt = self.field_initialiser(ctx, st, f, val, ann)
            self.fields[f], self.field_init[f] = ty, txt
        for f in used:
            if f not in self.fields:
                raise Unsupported(f"{self.rel}: field self.{f} is used by the translated methods but "
                                  f"{self.spec.cls}.__init__ does not assign it")
        body_txt = " ".join(conds + list(self.field_init.values()))
        ref = [p for p in int_params if f"«{p}»" in body_txt]
        ren = {f"«{p}»": f"a{i}" for i, p in enumerate(ref)}

        def rn(s):
            for k, v in ren.items():
                s = s.replace(k, v)
            return s
        self.init_params = ref
        self.init_option = bool(conds)
        cls = self.spec.cls
        self.out += [f"/-- the fields of `{cls}` that the translated methods use -/",
                     f"structure {cls} (α : Type) where"]
        self.out += [f"  {f} : {LEAN_TY[self.fields[f]]}" for f in order] + [""]
        doc = f"/-- `{cls}.__init__`" + (f" (`none` = an assertion fails)" if conds else "")
        if skipped:
            doc += "; asserts about parameters outside the model are skipped: " + "; ".join(f"`{s}`" for s in skipped)
        params = "".join(f" ({ren[f'«{p}»']} : Int)" for p in ref)
        rt = f"{cls} α"
        rec = "{ " + ", ".join(f"{f} := {rn(self.field_init[f])}" for f in order) + " }"
        self.out += [doc + " -/", f"def {cls}.init{params} : {'Option (' + rt + ')' if conds else rt} :="]
        if conds:
            self.out += [f"  if {' ∧ '.join('(' + rn(c) + ')' for c in conds)} then some {rec}", "  else none", ""]
        else:
            self.out += [f"  {rec}", ""]

    def field_initialiser(self, ctx, st, f, val, ann):
        if isinstance(val, ast.Constant) and type(val.value) is bool:
            return BOOL, "true" if val.value else "false"
        if isinstance(val, ast.Constant) and val.value is None:
            ok = isinstance(ann, ast.Subscript) and dotted(ann.value) in ("Optional", "typing.Optional") \
                and dotted(ann.slice) in ("TensorDict", "TensorDictBase")
            if not ok:
                self.fail(st, f"self.{f} = None without the annotation Optional[TensorDict]")
            return OPTROWS, "none"
        if isinstance(val, ast.Call) and dotted(val.func) in ("deque", "collections.deque"):
            if val.args:
                self.fail(st, "deque(<initial iterable>)")
            if not val.keywords:
                return DEQUE, "PyDeque.new none"
            if len(val.keywords) != 1 or val.keywords[0].arg != "maxlen":
                self.fail(st, "deque(…) with keywords other than maxlen")
            txt, ty = ctx.ex(val.keywords[0].value)
            if ty not in (INT, NUM) or ctx.binds:
                self.fail(st, "deque(maxlen=<not a plain integer expression>)")
            return DEQUE, f"PyDeque.new (some {txt})"
        txt, ty = ctx.ex(val, top=True)
        if ty in (INT, NUM) and not ctx.binds:
            return INT, txt
        self.fail(st, f"initialiser of self.{f}")

    # ------------------------------------------------------------------ methods
    def calls_of(self, fn) -> list[str]:
        res = []
        for n in ast.walk(fn):
            if self_attr(n) and n.attr in self.methods and n.attr not in res:
                res.append(n.attr)
            if isinstance(n, ast.Call) and isinstance(n.func, ast.Name) and n.func.id == "len" and len(n.args) == 1 \
                    and isinstance(n.args[0], ast.Name) and n.args[0].id == "self" and "__len__" not in res:
                res.append("__len__")
        return res

    def run(self) -> list[str]:
        self.translate_init()
        order, done, visiting = [], set(), set()

        def visit(m):
            if m in done:
                return
            if m in visiting:
                self.fail(self.methods[m], f"recursion through {m}")
            visiting.add(m)
            for c in self.calls_of(self.methods[m]):
                if c != m:
                    visit(c)
                else:
                    self.fail(self.methods[m], f"recursive method {m}")
            visiting.discard(m)
            done.add(m)
            order.append(m)
        for m in self.methods:
            visit(m)
        for m in order:
            self.translate_method(m)
        return self.out

    def param_type(self, a: ast.arg) -> str:
        n = dotted(a.annotation) if a.annotation is not None else None
        if n == "int":
            return INT
        if n == "bool":
            return BOOL
        if n in ("TensorDict", "TensorDictBase"):
            return ROWS
        self.fail(a, f"annotation of parameter {a.arg} (int, bool, TensorDict are supported)")

    def signature(self, fn: ast.FunctionDef) -> Sig:
        s = Sig()
        a = fn.args
        if a.kwarg or a.posonlyargs or not a.args or a.args[0].arg != "self":
            self.fail(fn, f"parameter list of {fn.name}")
        pos = a.args[1:]
        dfl = [None] * (len(pos) - len(a.defaults)) + list(a.defaults)

        def default(d, ty):
            if d is None:
                return None
            if isinstance(d, ast.Constant) and type(d.value) is bool and ty == BOOL:
                return "true" if d.value else "false"
            if isinstance(d, ast.Constant) and type(d.value) is int and ty == INT:
                return str(d.value) if d.value >= 0 else f"({d.value})"
            self.fail(d, "default value (int / bool constants are supported)")
        for p, d in zip(pos, dfl):
            ty = self.param_type(p)
            s.params.append((p.arg, ty, default(d, ty), "pos"))
        if a.vararg:
            s.params.append((a.vararg.arg, ITEM, None, "var"))
        for p, d in zip(a.kwonlyargs, a.kw_defaults):
            ty = self.param_type(p)
            s.params.append((p.arg, ty, default(d, ty), "kw"))
        return s

    def translate_method(self, m: str):
        fn = self.methods[m]
        sig = self.signature(fn)
        if m in self.props and sig.params:
            self.fail(fn, f"property {m} with parameters")
        ctx = Ctx(self, fn)
        ctx.sig = sig
        for i, (p, ty, _, _) in enumerate(sig.params):
            ctx.canon[p], ctx.types[p] = f"a{i}", ty
            ctx.defined.add(p)
        stmts = self.method_stmts(m)
        ctx.collect_locals(stmts)
        real = [s for s in stmts if not isinstance(s, Skip)]
        has_ret = any(isinstance(n, ast.Return) for s in real for n in ast.walk(s))
        single_return = len(real) == 1 and isinstance(real[0], ast.Return) and len(stmts) == 1
        sig.kind = "value" if has_ret else "state"
        ctx.key_add = self.spec.key_add == m
        body = ctx.block(stmts, ctx.end_of_method)
        if has_ret and ctx.mutates:
            self.fail(fn, f"{m} changes self and returns a value")
        if single_return and not ctx.any_bind:
            sig.kind = "getter"
            body = [ln[len("some "):] if ln.startswith("some ") else ln for ln in body]
        sig.exts = ctx.exts
        sig.lean = self.qual(m)
        self.sigs[m] = sig
        cls = self.spec.cls
        ext_decl = "".join(f" ({e} : {self.ext_type(e)})" for e in sig.exts)
        ext_args = "".join(f" {e}" for e in sig.exts)
        params = "".join(f" ({ctx.canon[p]} : {LEAN_TY[ty]})" for p, ty, _, _ in sig.params)
        if sig.kind == "state":
            rt = f"Option ({cls} α)"
        elif sig.kind == "getter":
            rt = LEAN_TY[sig.ret_type]
        else:
            rt = f"Option ({LEAN_TY[sig.ret_type]})"
        lines = []
        for ld in ctx.loop_defs:
            lines += [ln.replace("«EXTDECL»", ext_decl).replace(EXTS, ext_args) for ln in ld]
        what = "property" if m in self.props else "method"
        lines += [f"/-- {what} `{cls}.{m}` -/",
                  f"def {sig.lean}{ext_decl} (st : {cls} α){params} : {rt} :="]
        lines += ind([ln.replace(EXTS, ext_args) for ln in body]) + [""]
        self.out += lines

    def ext_type(self, e: str) -> str:
        if e in self.spec.externals:
            spec = self.spec.externals[e]
            args = " → ".join(LEAN_TY[t] for t in spec[1])
            if spec[0] == "mut":
                return f"{self.spec.cls} α → {args} → {self.spec.cls} α"
            return f"{args} → {LEAN_TY[spec[2]]}"
        for name, (pname, args, res) in EXT_FUNCS.items():
            if pname == e:
                return " → ".join(LEAN_TY[t] for t in args) + f" → {LEAN_TY[res]}"
        raise AssertionError(e)

    # ------------------------------------------------------------------ preamble of `add`
    def split_preamble(self, sig, fn, stmts):
        rows = [p for p, ty, _, _ in sig.params if ty == ROWS]
        out, core = [], False
        for st in stmts:
            if not core:
                if self.is_device_move(st, rows):
                    out.append(Skip(f"`{ast.unparse(st)}`: device move, identity on the rows"))
                    continue
                if self.is_reshape_loop(st, rows):
                    out.append(Skip(f"`for {ast.unparse(st.target)} in {ast.unparse(st.iter)}: …`: reshape of 1-d values, "
                                    "identity on the rows"))
                    continue
                if self.is_row_count(st, rows) or self.is_lazy_init(st):
                    out.append(st)
                    continue
                core = True
                if not (isinstance(st, ast.Assign) and len(st.targets) == 1 and isinstance(st.targets[0], ast.Name)):
                    self.fail(st, f"statement of {fn.name} that is neither one of the expected preamble kinds (device move, "
                                  "row count, reshape loop, lazy _init) nor the local assignment that starts the "
                                  "circular-storage range")
            out.append(st)
        if not core:
            self.fail(fn, f"{fn.name}: no circular-storage range after the preamble")
        last = stmts[-1]
        tg = last.targets[0] if isinstance(last, ast.Assign) and len(last.targets) == 1 else \
            (last.target if isinstance(last, ast.AugAssign) else None)
        if tg is None or not self_attr(tg):
            self.fail(last, f"last statement of {fn.name} is not the update of a field of self that ends the "
                            "circular-storage range")
        return out

    def is_device_move(self, st, rows) -> bool:
        return isinstance(st, ast.Assign) and len(st.targets) == 1 and isinstance(st.targets[0], ast.Name) \
            and st.targets[0].id in rows and isinstance(st.value, ast.Call) and isinstance(st.value.func, ast.Attribute) \
            and st.value.func.attr == "to" and isinstance(st.value.func.value, ast.Name) \
            and st.value.func.value.id == st.targets[0].id

    def is_row_count(self, st, rows) -> bool:
        if not (isinstance(st, ast.Assign) and len(st.targets) == 1 and isinstance(st.targets[0], ast.Name)):
            return False
        v = st.value
        return isinstance(v, ast.Subscript) and isinstance(v.value, ast.Attribute) and v.value.attr == "shape" \
            and isinstance(v.value.value, ast.Name) and v.value.value.id in rows

    def is_lazy_init(self, st) -> bool:
        if not (isinstance(st, ast.If) and not st.orelse and len(st.body) == 1):
            return False
        t, b = st.test, st.body[0]
        return isinstance(t, ast.Compare) and len(t.ops) == 1 and isinstance(t.ops[0], ast.Is) and self_attr(t.left) \
            and isinstance(t.comparators[0], ast.Constant) and t.comparators[0].value is None \
            and isinstance(b, ast.Expr) and isinstance(b.value, ast.Call) and self_attr(b.value.func) \
            and b.value.func.attr in self.spec.externals

    def is_reshape_loop(self, st, rows) -> bool:
        """`for k, v in data.items(): …` that only re-assigns its own loop variables / `data[k]`"""
        if not isinstance(st, ast.For):
            return False
        it = st.iter
        if not (isinstance(it, ast.Call) and isinstance(it.func, ast.Attribute) and it.func.attr == "items"
                and isinstance(it.func.value, ast.Name) and it.func.value.id in rows and not it.args and not it.keywords):
            return False
        loop_vars: set[str] = set()

        def targets(t):
            if isinstance(t, ast.Name):
                loop_vars.add(t.id)
            elif isinstance(t, ast.Tuple):
                for e in t.elts:
                    targets(e)
            else:
                self.fail(t, "loop target of the reshape loop")
        for n in ast.walk(st):
            if isinstance(n, ast.For):
                if n.orelse:
                    self.fail(n, "for … else in the reshape loop")
                targets(n.target)
        for n in ast.walk(st):
            if isinstance(n, ast.Name) and n.id == "self":
                self.fail(n, "the reshape loop of the preamble touches self")
            if isinstance(n, (ast.stmt,)) and not isinstance(n, (ast.For, ast.If, ast.Assign, ast.AnnAssign)):
                self.fail(n, f"{type(n).__name__} in the reshape loop of the preamble")
            tg = []
            if isinstance(n, ast.Assign):
                tg = n.targets
            elif isinstance(n, ast.AnnAssign):
                tg = [n.target]
            for t in tg:
                ok = (isinstance(t, ast.Name) and t.id in loop_vars) or \
                     (isinstance(t, ast.Subscript) and isinstance(t.value, ast.Name) and isinstance(t.slice, ast.Name)
                      and t.slice.id in loop_vars and (t.value.id in loop_vars or t.value.id in rows))
                if not ok:
                    self.fail(t, "the reshape loop of the preamble assigns something other than its loop variables / data[key]")
            if isinstance(n, ast.Call):
                ok = (isinstance(n.func, ast.Attribute) and n.func.attr in ("items", "reshape")) or \
                     (isinstance(n.func, ast.Name) and n.func.id == "is_tensor_collection")
                if not ok:
                    self.fail(n, f"call of {ast.unparse(n.func)} in the reshape loop of the preamble")
        return True


# ----------------------------------------------------------------------------------------------
class Ctx:
    def __init__(self, tr: ClassTranslator, fn, init_mode: bool = False):
        self.tr, self.fn, self.init_mode = tr, fn, init_mode
        self.canon: dict[str, str] = {}
        self.types: dict[str, str] = {}
        self.defined: set[str] = set()
        self.sig: Sig | None = None
        self.binds: list[tuple] = []
        self.any_bind = False
        self.nbind = 0
        self.nloop = 0
        self.loop_defs: list[list[str]] = []
        self.exts: list[str] = []
        self.mutates = False
        self.in_branch = 0
        self.in_loop = False
        self.key_add = False

    def fail(self, node, what):
        self.tr.fail(node, what)

    def use_ext(self, e: str):
        if e not in self.exts:
            self.exts.append(e)

    def collect_locals(self, stmts):
        k = 0

        def name(t):
            nonlocal k
            if isinstance(t, ast.Name) and t.id not in self.canon:
                self.canon[t.id] = f"v{k}"
                k += 1

        def visit(sts):
            for st in sts:
                if isinstance(st, Skip):
                    continue
                if isinstance(st, ast.Assign):
                    for t in st.targets:
                        name(t)
                elif isinstance(st, (ast.AugAssign, ast.AnnAssign)):
                    name(st.target)
                elif isinstance(st, ast.For):
                    name(st.target)
                    visit(st.body)
                elif isinstance(st, ast.If):
                    visit(st.body)
                    visit(st.orelse)
        visit(stmts)

    def fresh(self) -> str:
        r = f"r{self.nbind}"
        self.nbind += 1
        return r

    # ---------------- expressions
    def ex(self, n, top: bool = False) -> tuple[str, str]:
        par = (lambda s: s) if top else (lambda s: f"({s})")
        if isinstance(n, ast.Constant):
            if type(n.value) is bool:
                return ("true" if n.value else "false"), BOOL
            if type(n.value) is int:
                return (str(n.value) if n.value >= 0 else f"({n.value})"), NUM
            if n.value is None:
                return "none", NONE
            self.fail(n, f"constant {n.value!r}")
        if isinstance(n, ast.Name):
            if n.id not in self.defined or n.id not in self.types:
                self.fail(n, f"name {n.id} (not a parameter / local assigned before on every path)")
            return self.canon[n.id], self.types[n.id]
        if isinstance(n, ast.Attribute):
            if self_attr(n) and not self.init_mode:
                if n.attr in self.tr.props:
                    return self.method_call(n, n.attr, [], [], par)
                if n.attr in self.tr.fields:
                    return f"st.{n.attr}", self.tr.fields[n.attr]
            self.fail(n, f"attribute .{n.attr}")
        if isinstance(n, ast.Subscript):
            return self.subscript(n, par)
        if isinstance(n, ast.BinOp):
            (a, ta), (b, tb) = self.ex(n.left), self.ex(n.right)
            if ta not in (INT, NUM) or tb not in (INT, NUM):
                self.fail(n, f"arithmetic on non-integers ({ta}, {tb})")
            if type(n.op) in ARITH:
                return par(f"{a} {ARITH[type(n.op)]} {b}"), INT
            if isinstance(n.op, (ast.FloorDiv, ast.Mod)):
                self.binds.append(("guard", f"{b} = 0"))
                self.any_bind = True
                return par(f"Int.{'fdiv' if isinstance(n.op, ast.FloorDiv) else 'fmod'} {a} {b}"), INT
            self.fail(n, f"operator {type(n.op).__name__}")
        if isinstance(n, ast.Compare):
            parts, (ltxt, lt) = [], self.ex(n.left)
            for o, r in zip(n.ops, n.comparators):
                rtxt, rt = self.ex(r)
                if isinstance(o, (ast.Is, ast.IsNot)):
                    if not (rt == NONE and lt == OPTROWS):
                        self.fail(n, "`is` other than `<storage field> is [not] None`")
                    parts.append(f"{ltxt}.{'isNone' if isinstance(o, ast.Is) else 'isSome'}")
                else:
                    op = CMPOPS.get(type(o)) or self.fail(n, f"comparison {type(o).__name__}")
                    if lt not in (INT, NUM) or rt not in (INT, NUM):
                        self.fail(n, f"comparison of non-integers ({lt}, {rt})")
                    parts.append(f"{ltxt} {op} {rtxt}")
                ltxt, lt = rtxt, rt
            return par(" ∧ ".join(parts) if len(parts) == 1 else " ∧ ".join(f"({p})" for p in parts)), BOOL
        if isinstance(n, ast.BoolOp):
            op = " ∧ " if isinstance(n.op, ast.And) else " ∨ "
            vs = []
            for v in n.values:
                t, ty = self.ex(v)
                if ty != BOOL:
                    self.fail(v, "non-boolean operand of and / or")
                vs.append(t)
            return par(op.join(vs)), BOOL
        if isinstance(n, ast.UnaryOp) and isinstance(n.op, ast.Not):
            t, ty = self.ex(n.operand)
            if ty != BOOL:
                self.fail(n, "not <non-boolean>")
            return par(f"¬ {t}"), BOOL
        if isinstance(n, ast.UnaryOp) and isinstance(n.op, ast.USub):
            t, ty = self.ex(n.operand)
            if ty not in (INT, NUM):
                self.fail(n, "-<non-integer>")
            return par(f"-{t}"), INT
        if isinstance(n, ast.Call):
            return self.call(n, par)
        self.fail(n, type(n).__name__)

    def slice_bounds(self, sl: ast.Slice) -> tuple[str, str]:
        if sl.step is not None:
            self.fail(sl, "slice with a step")

        def bound(b):
            if b is None:
                return "none"
            t, ty = self.ex(b)
            if ty not in (INT, NUM):
                self.fail(b, "slice bound that is not an integer")
            return f"(some {t})"
        return bound(sl.lower), bound(sl.upper)

    def bind(self, txt: str) -> str:
        r = self.fresh()
        self.binds.append(("match", r, txt))
        self.any_bind = True
        return r

    def subscript(self, n: ast.Subscript, par):
        v = n.value
        if isinstance(v, ast.Attribute) and v.attr == "shape" and not self_attr(v):
            base, ty = self.ex(v.value)
            if ty not in (ROWS, IDX):
                self.fail(n, ".shape of something that is not a batch of rows")
            if not (isinstance(n.slice, ast.Constant) and type(n.slice.value) is int and n.slice.value == 0):
                self.fail(n, ".shape[k] with k other than the constant 0 (the row count)")
            return par(f"({base}.length : Int)"), INT
        base, ty = self.ex(v)
        if isinstance(n.slice, ast.Slice):
            lo, hi = self.slice_bounds(n.slice)
            if ty in (ROWS, IDX):
                return par(f"pyGetSlice {base} {lo} {hi}"), ty
            if ty == OPTROWS:
                return self.bind(f"pyGetSliceOpt {base} {lo} {hi}"), ROWS
            self.fail(n, f"slice of a value of type {ty}")
        i, ti = self.ex(n.slice)
        if ti == IDX and ty == OPTROWS:
            return self.bind(f"pyGatherOpt {base} {i}"), ROWS
        if ti == IDX and ty == ROWS:
            return self.bind(f"pyGather {base} {i}"), ROWS
        self.fail(n, f"subscript [{ti}] of a value of type {ty}")

    def call(self, n: ast.Call, par):
        f = n.func
        name = dotted(f)
        if self.init_mode:
            self.fail(n, f"call of {name or 'an expression'} in __init__")
        plain = not n.keywords and not any(isinstance(a, ast.Starred) for a in n.args)
        if name in ("min", "max") and plain and len(n.args) == 2:
            (a, ta), (b, tb) = self.ex(n.args[0]), self.ex(n.args[1])
            if ta not in (INT, NUM) or tb not in (INT, NUM):
                self.fail(n, f"{name} of non-integers")
            return par(f"py{name.capitalize()} {a} {b}"), INT
        if name == "len" and plain and len(n.args) == 1:
            a0 = n.args[0]
            if isinstance(a0, ast.Name) and a0.id == "self":
                if "__len__" not in self.tr.methods:
                    self.fail(n, "len(self) without a translated __len__")
                return self.method_call(n, "__len__", [], [], par)
            a, ta = self.ex(a0)
            if ta in (ROWS, IDX):
                return par(f"({a}.length : Int)"), INT
            if ta == DEQUE:
                return par(f"PyDeque.len {a}"), INT
            self.fail(n, f"len of a value of type {ta}")
        if name in EXT_FUNCS and plain:
            pname, argtys, res = EXT_FUNCS[name]
            if len(n.args) != len(argtys):
                self.fail(n, f"arguments of {name}")
            args = []
            for a, want in zip(n.args, argtys):
                t, ty = self.ex(a)
                if not (ty == want or (want == INT and ty == NUM)):
                    self.fail(a, f"argument of {name} of type {ty}")
                args.append(t)
            self.use_ext(pname)
            return par(f"{pname} " + " ".join(args)), res
        if name == "zip" and not n.keywords and len(n.args) == 1 and isinstance(n.args[0], ast.Starred):
            a, ta = self.ex(n.args[0].value)
            if ta != ROWS:
                self.fail(n, "zip(*x) where x is not the per-environment list")
            return a, ROWS
        if self_attr(f):
            m = f.attr
            if m in self.tr.spec.constructors:
                if not (len(n.args) == 1 and isinstance(n.args[0], ast.Starred) and not n.keywords):
                    self.fail(n, f"self.{m}(…) other than self.{m}(*<packed transition>)")
                a, ta = self.ex(n.args[0].value)
                if ta != ITEM:
                    self.fail(n, f"self.{m}(*x) where x is not a packed transition")
                return a, ITEM
            if m in self.tr.spec.externals and self.tr.spec.externals[m][0] == "pure":
                _, argtys, res = self.tr.spec.externals[m]
                args = self.ext_args(n, m, argtys)
                self.use_ext(m)
                return par(f"{m} " + " ".join(args)), res
            if m in self.tr.methods and m not in self.tr.props:
                return self.method_call(n, m, n.args, n.keywords, par)
        self.fail(n, f"call of {name or ast.unparse(f)}")

    def ext_args(self, n: ast.Call, m: str, argtys) -> list[str]:
        if n.keywords or len(n.args) != len(argtys):
            self.fail(n, f"arguments of self.{m}")
        args = []
        for a, want in zip(n.args, argtys):
            if isinstance(a, ast.Starred):
                if want != ITEM:
                    self.fail(a, f"starred argument of self.{m}")
                a = a.value
            t, ty = self.ex(a)
            if ty != want:
                self.fail(a, f"argument of self.{m} of type {ty} (expected {want})")
            args.append(t)
        return args

    def bind_args(self, n, m: str, args, keywords) -> list[str]:
        sig = self.tr.sigs[m]
        vals: dict[str, ast.expr] = {}
        pos = [p for p in sig.params if p[3] == "pos"]
        var = [p for p in sig.params if p[3] == "var"]
        i = 0
        for a in args:
            if isinstance(a, ast.Starred):
                if not var or var[0][0] in vals or i != len(pos):
                    self.fail(a, f"starred argument of {m}")
                vals[var[0][0]] = a.value
            elif i < len(pos):
                vals[pos[i][0]] = a
                i += 1
            else:
                self.fail(a, f"too many positional arguments of {m} (a packed transition is passed as *x)")
        for kw in keywords:
            names = [p[0] for p in sig.params if p[3] in ("pos", "kw")]
            if kw.arg is None or kw.arg not in names or kw.arg in vals:
                self.fail(n, f"keyword argument {kw.arg} of {m}")
            vals[kw.arg] = kw.value
        out = []
        for p, ty, dflt, _ in sig.params:
            if p in vals:
                t, got = self.ex(vals[p])
                if not (got == ty or (ty == INT and got == NUM)):
                    self.fail(vals[p], f"argument {p} of {m} has type {got} (expected {ty})")
                out.append(t)
            elif dflt is not None:
                out.append(dflt)
            else:
                self.fail(n, f"missing argument {p} of {m}")
        return out

    def method_call(self, n, m: str, args, keywords, par):
        """a translated method used as an expression"""
        sig = self.tr.sigs.get(m)
        if sig is None:
            self.fail(n, f"use of {m} before its translation")
        if sig.kind == "state":
            self.fail(n, f"{m} (which changes self) used as an expression")
        for e in sig.exts:
            self.use_ext(e)
        ext_args = "".join(f" {e}" for e in sig.exts)
        txt = f"{sig.lean}{ext_args} st" + "".join(f" {a}" for a in self.bind_args(n, m, args, keywords))
        if sig.kind == "getter":
            return par(txt), sig.ret_type
        return self.bind(txt), sig.ret_type

    # ---------------- statements
    def with_binds(self, build) -> list[str]:
        saved, self.binds = self.binds, []
        lines = build()
        binds, self.binds = self.binds, saved
        for b in reversed(binds):
            if b[0] == "guard":
                lines = [f"if {b[1]} then none else"] + lines
            else:
                lines = [f"match {b[2]} with", "| none => none", f"| some {b[1]} =>"] + lines
        return lines

    def end_of_method(self) -> list[str]:
        if self.sig.kind != "state":
            self.fail(self.fn, f"{self.fn.name}: a path reaches the end without `return`")
        return ["some st"]

    def assigned_locals(self, stmts) -> set[str]:
        out = set()
        for st in stmts:
            for n in ast.walk(st):
                tg = []
                if isinstance(n, ast.Assign):
                    tg = n.targets
                elif isinstance(n, (ast.AugAssign, ast.AnnAssign)):
                    tg = [n.target]
                elif isinstance(n, ast.For):
                    tg = [n.target]
                for t in tg:
                    if isinstance(t, ast.Name):
                        out.add(t.id)
        return out

    def block(self, stmts, k) -> list[str]:
        if not stmts:
            return k()
        st, rest = stmts[0], stmts[1:]
        cont = lambda: self.block(rest, k)          # noqa: E731
        if isinstance(st, Skip):
            return [f"-- {st.comment}"] + cont()
        if is_docstring(st):
            return cont()
        if isinstance(st, ast.AugAssign):
            if isinstance(st.target, ast.Name):
                load = ast.Name(id=st.target.id, ctx=ast.Load())
            elif self_attr(st.target):
                load = ast.Attribute(value=st.target.value, attr=st.target.attr, ctx=ast.Load())
            else:
                self.fail(st, "augmented assignment to other than a local / a field of self")
            ast.copy_location(load, st)
            st = ast.copy_location(ast.Assign(targets=[st.target], value=ast.copy_location(
                ast.BinOp(left=load, op=st.op, right=st.value), st)), st)
        if isinstance(st, ast.AnnAssign):
            if st.value is None:
                self.fail(st, "annotation without a value")
            st = ast.copy_location(ast.Assign(targets=[st.target], value=st.value), st)
        if isinstance(st, ast.Assign):
            if len(st.targets) != 1:
                self.fail(st, "chained assignment")
            return self.assign(st, st.targets[0], cont)
        if isinstance(st, ast.Assert):
            def build():
                c, ty = self.ex(st.test, top=True)
                if ty != BOOL:
                    self.fail(st, "assert <non-boolean>")
                return [f"if ¬ ({c}) then none else"] + cont()
            return self.with_binds(build)
        if isinstance(st, ast.Return):
            if rest:
                self.fail(rest[0], "statement after return")
            if self.in_branch or self.in_loop:
                self.fail(st, "return inside if / for")
            if st.value is None:
                self.fail(st, "bare return")

            def build():
                txt, ty = self.ex(st.value)
                if ty in (NUM,):
                    ty = INT
                if ty in (NONE, OPTROWS, DEQUE):
                    self.fail(st, f"return of a value of type {ty}")
                self.sig.ret_type = ty
                return [f"some {txt}"]
            return self.with_binds(build)
        if isinstance(st, ast.Expr):
            return self.expr_stmt(st, cont)
        if isinstance(st, ast.If):
            return self.if_stmt(st, cont)
        if isinstance(st, ast.For):
            return self.for_stmt(st, cont)
        self.fail(st, type(st).__name__)

    def assign(self, st, tg, cont) -> list[str]:
        if isinstance(tg, ast.Name):
            if tg.id not in self.canon:
                self.fail(st, f"assignment to {tg.id}")

            def build():
                txt, ty = self.ex(st.value, top=True)
                if ty == NUM:
                    ty = INT
                if ty in (NONE, OPTROWS, DEQUE):
                    self.fail(st, f"local variable of type {ty}")
                if ty == BOOL:
                    txt = f"decide ({txt})"
                self.types[tg.id] = ty
                self.defined.add(tg.id)
                return [f"let {self.canon[tg.id]} : {LEAN_TY[ty]} := {txt}"] + cont()
            return self.with_binds(build)
        if self_attr(tg):
            f = tg.attr
            if f not in self.tr.fields:
                self.fail(st, f"assignment to self.{f} (not a translated field)")
            want = self.tr.fields[f]

            def build():
                txt, ty = self.ex(st.value, top=True)
                if want == INT and ty in (INT, NUM):
                    pass
                elif want == BOOL and ty == BOOL:
                    txt = txt if txt in ("true", "false") else f"decide ({txt})"
                elif want == OPTROWS and ty == NONE:
                    pass
                elif want == OPTROWS and ty == ROWS:
                    txt = f"some ({txt})"
                else:
                    self.fail(st, f"self.{f} (of type {want}) = <value of type {ty}>")
                self.mutates = True
                return [f"let st := {{ st with {f} := {txt} }}"] + cont()
            return self.with_binds(build)
        if isinstance(tg, ast.Subscript) and self_attr(tg.value) and isinstance(tg.slice, ast.Slice):
            f = tg.value.attr
            if self.tr.fields.get(f) != OPTROWS:
                self.fail(st, f"slice assignment to self.{f}")

            def build():
                v, tv = self.ex(st.value)
                if tv != ROWS:
                    self.fail(st, f"self.{f}[…] = <value of type {tv}>")
                lo, hi = self.slice_bounds(tg.slice)
                r = self.fresh()
                self.mutates = True
                self.any_bind = True
                return [f"match pySetSliceOpt st.{f} {lo} {hi} {v} with", "| none => none", f"| some {r} =>",
                        f"let st := {{ st with {f} := some {r} }}"] + cont()
            return self.with_binds(build)
        self.fail(st, f"assignment to {ast.unparse(tg)}")

    def expr_stmt(self, st, cont) -> list[str]:
        c = st.value
        if not isinstance(c, ast.Call):
            self.fail(st, "expression statement")
        f = c.func
        if isinstance(f, ast.Attribute) and f.attr == "append" and self_attr(f.value) \
                and self.tr.fields.get(f.value.attr) == DEQUE:
            if c.keywords or len(c.args) != 1 or isinstance(c.args[0], ast.Starred):
                self.fail(st, "arguments of deque.append")
            fld = f.value.attr

            def build():
                v, tv = self.ex(c.args[0])
                if tv != ITEM:
                    self.fail(st, f"deque.append(<value of type {tv}>)")
                self.mutates = True
                return [f"let st := {{ st with {fld} := PyDeque.append st.{fld} {v} }}"] + cont()
            return self.with_binds(build)
        if self_attr(f):
            m = f.attr
            ext = self.tr.spec.externals.get(m)
            if ext is not None and ext[0] == "mut":
                def build():
                    args = self.ext_args(c, m, ext[1])
                    self.use_ext(m)
                    self.mutates = True
                    return [f"let st := {m} st " + " ".join(args)] + cont()
                return self.with_binds(build)
            if m in self.tr.methods and m not in self.tr.props:
                sig = self.tr.sigs.get(m)
                if sig is None:
                    self.fail(st, f"use of {m} before its translation")
                if sig.kind != "state":
                    self.fail(st, f"result of self.{m}(…) is dropped")

                def build():
                    args = self.bind_args(c, m, c.args, c.keywords)
                    for e in sig.exts:
                        self.use_ext(e)
                    ext_args = "".join(f" {e}" for e in sig.exts)
                    self.mutates = True
                    self.any_bind = True
                    return [f"match {sig.lean}{ext_args} st" + "".join(f" {a}" for a in args) + " with",
                            "| none => none", "| some st =>"] + cont()
                return self.with_binds(build)
        self.fail(st, f"call statement {ast.unparse(f)}(…)")

    def is_key_add(self, st: ast.If) -> bool:
        if not self.key_add or st.orelse or not st.body:
            return False
        for b in st.body:
            if not (isinstance(b, ast.Assign) and len(b.targets) == 1 and isinstance(b.targets[0], ast.Subscript)
                    and isinstance(b.targets[0].value, ast.Name) and isinstance(b.targets[0].slice, ast.Constant)
                    and isinstance(b.targets[0].slice.value, str)
                    and self.types.get(b.targets[0].value.id) == ROWS and b.targets[0].value.id in self.defined):
                return False
        return True

    def if_stmt(self, st: ast.If, cont) -> list[str]:
        if self.is_key_add(st):
            def build():
                c, ty = self.ex(st.test, top=True)
                if ty != BOOL:
                    self.fail(st, "if <non-boolean>")
                notes = []
                for b in st.body:
                    v, _ = self.ex(b.value)
                    notes.append(f'-- when {c}: key "{b.targets[0].slice.value}" := {v} is added to the batch '
                                 f"{self.canon[b.targets[0].value.id]} (rows unchanged)")
                return notes + cont()
            return self.with_binds(build)
        pre_defined = set(self.defined)
        clash = self.assigned_locals(list(st.body) + list(st.orelse)) & pre_defined
        if clash:
            self.fail(st, f"a branch re-assigns {sorted(clash)} defined before the if")

        def build():
            c, ty = self.ex(st.test, top=True)
            if ty != BOOL:
                self.fail(st, "if <non-boolean>")
            snap_t, snap_d = dict(self.types), set(self.defined)
            self.in_branch += 1
            a = self.block(list(st.body), lambda: ["some st"])
            self.types, self.defined = dict(snap_t), set(snap_d)
            b = self.block(list(st.orelse), lambda: ["some st"])
            self.types, self.defined = dict(snap_t), set(snap_d)
            self.in_branch -= 1
            self.any_bind = True
            return [f"match (if {c} then ("] + ind(a, 4) + ["  ) else ("] + ind(b, 4) + \
                   ["  )) with", "| none => none", "| some st =>"] + cont()
        return self.with_binds(build)

    def for_stmt(self, st: ast.For, cont) -> list[str]:
        if st.orelse:
            self.fail(st, "for … else")
        if self.in_loop:
            self.fail(st, "nested for")
        if not isinstance(st.target, ast.Name):
            self.fail(st, "for with a tuple target")
        for n in ast.walk(st):
            if isinstance(n, (ast.Break, ast.Continue, ast.Return, ast.While)):
                self.fail(n, f"{type(n).__name__.lower()} inside for")
        x = st.target.id
        pre_defined = set(self.defined)
        clash = (self.assigned_locals(st.body) | {x}) & pre_defined
        if clash:
            self.fail(st, f"the loop re-assigns {sorted(clash)} defined before it")

        def build():
            it, ty = self.ex(st.iter)
            if ty not in ELEM_OF:
                self.fail(st, f"for over a value of type {ty}")
            reads = {n.id for b in st.body for n in ast.walk(b) if isinstance(n, ast.Name) and isinstance(n.ctx, ast.Load)}
            fixed = sorted([v for v in reads if v in pre_defined and v in self.types],
                           key=lambda v: (self.canon[v][0], int(self.canon[v][1:])))
            name = f"{self.tr.spec.cls}.{self.tr.lean_name(self.fn.name)}_loop{self.nloop}"
            self.nloop += 1
            fixed_decl = "".join(f" ({self.canon[v]} : {LEAN_TY[self.types[v]]})" for v in fixed)
            fixed_args = "".join(f" {self.canon[v]}" for v in fixed)
            snap_t, snap_d = dict(self.types), set(self.defined)
            self.types[x] = ELEM_OF[ty]
            self.defined.add(x)
            self.in_loop = True
            saved, self.binds = self.binds, []
            body = self.block(list(st.body), lambda: [f"{name}{EXTS}{fixed_args} st rest"])
            self.binds = saved
            self.in_loop = False
            self.types, self.defined = snap_t, snap_d
            cls = self.tr.spec.cls
            self.loop_defs.append([
                f"/-- the `for` loop of `{cls}.{self.fn.name}` over `{ast.unparse(st.iter)}` -/",
                f"def {name}«EXTDECL»{fixed_decl} : {cls} α → {LEAN_TY[ty]} → Option ({cls} α)",
                "  | st, [] => some st",
                f"  | st, {self.canon[x]} :: rest =>",
            ] + ind(body, 4) + [""])
            self.mutates = True
            self.any_bind = True
            return [f"match {name}{EXTS}{fixed_args} st {it} with", "| none => none", "| some st =>"] + cont()
        return self.with_binds(build)


# ----------------------------------------------------------------------------------------------
def repo_dir(arg: str | None) -> Path:
    if arg:
        return Path(arg)
    return Path(os.environ.get("VERIF_REPO", "/repo"))


def translate(repo: Path) -> tuple[str, str]:
    """returns (lean text, sha256 over the two source files); raises Unsupported"""
    shas, body = [], []
    for spec in SPECS:
        path = repo / spec.rel
        try:
            raw = path.read_bytes()
        except OSError as e:
            raise Unsupported(f"cannot read {path}: {e}") from e
        shas.append((spec.rel, hashlib.sha256(raw).hexdigest()))
        try:
            src = raw.decode("utf-8")
        except UnicodeDecodeError as e:
            raise Unsupported(f"{spec.rel}: not utf-8: {e}") from e
        body += [f"/-! ### `{spec.cls}` ({spec.rel}) -/", ""] + ClassTranslator(spec, src).run()
    sha = hashlib.sha256("".join(s for _, s in shas).encode()).hexdigest()
    header = [
        "/-",
        "  Gen/RingGen.lean — GENERATED by harness/py2lean_ring.py from",
        f"  {REL_SOURCE} (class ReplayBuffer) and",
        f"  {REL_SOURCE_MA} (class MultiAgentReplayBuffer); do not edit.  Core Lean only.",
        "  `Proofs/RingGenEq.lean` proves these definitions equal to their counterparts in `Model/Ring.lean`.",
        "-/",
    ] + [f"{SHA_PREFIX}{rel}) = {s}" for rel, s in shas] + [
        "set_option linter.unusedVariables false",
        "",
        "namespace RingGen",
        "",
        "section",
        "variable {α : Type}",
    ]
    text = "\n".join(header) + "\n" + PRELUDE + "\n" + "\n".join(body).rstrip() + "\n\nend\n\nend RingGen\n"
    return text, sha


def strip_sha(text: str) -> str:
    return "\n".join(ln for ln in text.split("\n") if not ln.startswith(SHA_PREFIX))


def write_if_changed(text: str, out: Path, force: bool = False) -> bool:
    """writes `text` unless the file already holds the same translation (sha lines ignored)"""
    old = out.read_text() if out.exists() else None
    if old is not None and not force and strip_sha(old) == strip_sha(text):
        return False
    if old == text:
        return False
    out.parent.mkdir(parents=True, exist_ok=True)
    tmp = out.with_suffix(".lean.tmp")
    tmp.write_text(text)
    os.replace(tmp, out)
    return True


def main(argv: list[str]) -> int:
    import argparse
    ap = argparse.ArgumentParser()
    ap.add_argument("--repo", default=None)
    ap.add_argument("--out", default=str(DEFAULT_OUT))
    ap.add_argument("--stdout", action="store_true")
    ap.add_argument("--force", action="store_true", help="rewrite even if only the sha256 lines differ")
    a = ap.parse_args(argv)
    try:
        text, sha = translate(repo_dir(a.repo))
    except Unsupported as e:
        print(f"py2lean_ring: {e}", file=sys.stderr)
        return 1
    if a.stdout:
        sys.stdout.write(text)
        return 0
    changed = write_if_changed(text, Path(a.out), a.force)
    print(f"{a.out}: {'written' if changed else 'unchanged'} (sources sha256 {sha[:16]}…, "
          f"translation sha256 {hashlib.sha256(strip_sha(text).encode()).hexdigest()[:16]}…)")
    return 0


if __name__ == "__main__":
    sys.exit(main(sys.argv[1:]))
