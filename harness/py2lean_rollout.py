#!/usr/bin/env python3
"""
py2lean_rollout.py — translate the ROLLOUT-COLLECTION BLOCK of `train_on_policy`
(agilerl/training/train_on_policy.py) and `train_multi_agent_on_policy`
(agilerl/training/train_multi_agent_on_policy.py) into Lean 4: the statements that decide what `learn()` RECEIVES.

    python3 harness/py2lean_rollout.py [--repo DIR] [--out FILE] [--stdout] [--force]

Reads the *source text* only (Python `ast`; agilerl is never imported) and writes lean/Gen/RolloutGen.lean (core Lean
only; namespaces `RolloutGen.On`, `RolloutGen.MaOn`).  `Proofs/RolloutGenEq.lean` proves the generated `step` /
`collect` equal to `collectStep` / `collect` of `Model/GAE.lean`; `Props/C17.lean` states the alignment and the
no-leak theorems over generated collection ∘ generated GAE loop (`C17_source_translation_rollout_*`).

Located BY STRUCTURE (no line numbers, no variable names):
  * THE STEP LOOP = the one `for v in range(…)` of the training function whose direct body holds a
    `… = X.get_action(…)` and a `… = env.step(…)`;  THE LEARN LOOP = the `for` whose direct body holds the step loop;
  * PRE = the statements of the learn loop before the step loop, POST = those after it up to the call `X.learn(E)`;
    THE EXPERIENCES = the tuple `E` (a tuple display of names, directly or through one assignment).
The translator is a SLICING SYMBOLIC EXECUTOR (as py2lean_loop.py is for the counters of the same functions): the
TRACKED variables are the names of the experiences tuple and, transitively, every name read by a statement that writes a
tracked variable.  One ENVIRONMENT COLUMN of ONE AGENT is translated (every operation of the block is element-wise over
environments and — in the multi-agent function — keyed by the agent id of `for agent_id in agent.agent_ids`).

Output per function:
  * `structure St` — the loop-carried state: `e<i>` = element i of the experiences, `c<k>` = other tracked variables
    that live across steps (in order of first appearance: the state acted on, the running `done`);
  * `init` — PRE: `[]` → `[]`, `np.zeros(num_envs)` → `false`; a carried variable PRE does not assign (the observation,
    set by `env.reset()` before / carried over between learn steps) is a parameter `c<k>_0`; a variable that is only
    bound inside the step loop (`next_state`, `next_done`: Python raises NameError if the loop body never runs) gets a
    placeholder parameter `u<i>`;
  * `step s x` — the body of the step loop on one `Reply` (`x.pi0 … x.pi3` = the four results of `get_action` in return
    order, `x.obs x.reward x.term x.trunc` = the first four results of `env.step`, `x.reset` = `some o` iff the loop
    itself called `env.reset()` after this step, `o` its observation); SSA `let`s in source order, every append,
    copy, `np.logical_or` operand order and append target flows from the AST;
  * `acted s` — the observation `get_action` is called with (first positional argument or `obs=`) in a step from `s`;
  * `collect` — `init`, fold of `step` over the stream, POST, the experiences tuple in source order.

Supported subset (tracked statements): `x = e`; tuple assignment from `get_action` / `env.step`; `L.append(e)`,
`L[agent_id].append(e)`; `D[agent_id] = e`; `for agent_id in agent.agent_ids:` (executed for the one agent of the column; all
subscripts of tracked dicts must use that loop variable); `if c:` where c reads no tracked variable and both branches
leave every tracked variable unchanged up to LAYOUT (`x[0]`, `[x]`, `np.array([x])`, `obs_channels_to_first(x, …)`,
`{k: f(v) for k, v in D.items()}` are identities on a column) — the condition is then dropped; a compound statement
whose only tracked write is `obs, info = env.reset()` (any guards) → `x.reset.getD obs`.
Expressions: tracked names, `np.logical_or / logical_and(a, b)`, `a | b`, `.astype(…)` (identity), `np.zeros(num_envs)`, `[]`,
`{}` (unset), `{k: e for k in agent.agent_ids}`, `D[agent_id]`.
Every other statement is DROPPED after checking that it writes no tracked variable (assignment, augmented assignment,
subscript / attribute store, loop target, method call statement on it, `del`), and that no `break` / `continue` /
`return` / `raise` of the step loop hides in it.  Anything else: `Unsupported` with file:line.  Never guessed.

Assumptions (repeated in the generated header): `get_action` returns (action, log_prob, entropy, value) and does not
touch the tracked variables; `env.step` returns (obs, reward, terminated, truncated, info); functions that receive a
tracked value as an argument do not mutate it; agent ids are distinct keys; which steps the multi-agent loop resets a
non-vectorised environment at is an input of the stream (`x.reset`).
The header carries the sha256 of the two source files; `write_if_changed` compares everything *but* that line.
"""
from __future__ import annotations

import ast
import hashlib
import os
import sys
from pathlib import Path

HERE = Path(__file__).resolve().parent
DEFAULT_OUT = HERE.parent / "lean" / "Gen" / "RolloutGen.lean"
TARGETS = (
    ("On", "agilerl/training/train_on_policy.py", "train_on_policy"),
    ("MaOn", "agilerl/training/train_multi_agent_on_policy.py", "train_multi_agent_on_policy"),
)
REL_SOURCES = tuple(t[1] for t in TARGETS)
REL_SOURCE = "agilerl/training/train_{on_policy,multi_agent_on_policy}.py"
SHA_PREFIX = "-- sha256(source) = "
PI_TYPES = ("α", "Rat", "Rat", "Rat")
STEP_FIELDS = (("obs", "σ"), ("reward", "Rat"), ("term", "Bool"), ("trunc", "Bool"))
LAYOUT_FUNCS = {"obs_channels_to_first"}


class Unsupported(Exception):
    pass


_CUR = {"rel": "?"}


def where(node) -> str:
    return f"{_CUR['rel']}:{getattr(node, 'lineno', '?')}"


def unparse(n, k: int = 80) -> str:
    try:
        t = ast.unparse(n).replace("\n", " ")
    except Exception:
        t = type(n).__name__
    return t if len(t) <= k else t[:k - 1] + "…"


def bad(node, what: str):
    raise Unsupported(f"{where(node)}: {what}: `{unparse(node)}`")


# ----------------------------------------------------------------------------- reads / writes
def _base_name(t):
    while isinstance(t, (ast.Subscript, ast.Attribute)):
        t = t.value
    return t.id if isinstance(t, ast.Name) else None


def target_names(t) -> set[str]:
    if isinstance(t, ast.Name):
        return {t.id}
    if isinstance(t, (ast.Tuple, ast.List)):
        out = set()
        for e in t.elts:
            out |= target_names(e)
        return out
    if isinstance(t, ast.Starred):
        return target_names(t.value)
    b = _base_name(t)
    return {b} if b else set()


def writes(st) -> set[str]:
    """every name a statement (recursively) may write: assignments, loop targets, method-call statements, del"""
    out: set[str] = set()
    for n in ast.walk(st):
        if isinstance(n, ast.Assign):
            for t in n.targets:
                out |= target_names(t)
        elif isinstance(n, (ast.AugAssign, ast.AnnAssign)):
            out |= target_names(n.target)
        elif isinstance(n, (ast.For, ast.AsyncFor)):
            out |= target_names(n.target)
        elif isinstance(n, (ast.With, ast.AsyncWith)):
            for it in n.items:
                if it.optional_vars is not None:
                    out |= target_names(it.optional_vars)
        elif isinstance(n, ast.Delete):
            for t in n.targets:
                out |= target_names(t)
        elif isinstance(n, ast.NamedExpr):
            out |= target_names(n.target)
        elif isinstance(n, ast.Expr) and isinstance(n.value, ast.Call) and isinstance(n.value.func, ast.Attribute):
            b = _base_name(n.value.func.value)
            if b:
                out.add(b)
        elif isinstance(n, (ast.Global, ast.Nonlocal)):
            out |= set(n.names)
    return out


def comp_bound(e) -> set[str]:
    out: set[str] = set()
    for n in ast.walk(e):
        if isinstance(n, ast.comprehension):
            out |= target_names(n.target)
    return out


def reads(e) -> set[str]:
    """names an expression loads, without callee names, module roots and comprehension-bound names"""
    skip = comp_bound(e)
    callee = set()
    for n in ast.walk(e):
        if isinstance(n, ast.Subscript) and isinstance(n.slice, ast.Name):       # a key, not data
            callee.add(id(n.slice))
        if isinstance(n, ast.Call):
            f = n.func
            if isinstance(f, ast.Name):
                callee.add(id(f))
                if f.id in LAYOUT_FUNCS:          # only the first argument is data, the others describe the layout
                    for a in list(n.args[1:]) + [k.value for k in n.keywords]:
                        callee |= {id(m) for m in ast.walk(a)}
            elif isinstance(f, ast.Attribute) and isinstance(f.value, ast.Name) and f.value.id in ("np", "torch", "spaces"):
                callee.add(id(f.value))
    return {n.id for n in ast.walk(e) if isinstance(n, ast.Name) and id(n) not in callee and n.id not in skip}


def is_event(v, attr: str, base: str | None = None) -> bool:
    return (isinstance(v, ast.Call) and isinstance(v.func, ast.Attribute) and v.func.attr == attr
            and (base is None or (isinstance(v.func.value, ast.Name) and v.func.value.id == base)))


def is_agent_ids(e) -> bool:
    return isinstance(e, ast.Attribute) and e.attr == "agent_ids"


# ----------------------------------------------------------------------------- values
class Val:
    __slots__ = ("expr", "ty")

    def __init__(self, expr: str, ty):
        self.expr, self.ty = expr, ty

    def key(self):
        return self.expr


def ty_str(ty) -> str:
    if isinstance(ty, tuple):
        return f"List {ty_str(ty[1])}"
    return ty


class Exec:
    def __init__(self, tracked: set[str], store: dict, lazy: bool, prefix: str):
        self.T = tracked
        self.store: dict[str, Val] = store
        self.lazy = lazy                      # reading an unknown tracked name creates a carried variable
        self.lazy_names: list[str] = []
        self.lets: list[str] = []
        self.k = 0
        self.prefix = prefix
        self.agent_var: str | None = None
        self.tmp: dict[str, Val] = {}
        self.key_vars: set[str] = set()
        self.assumed: set[str] = set()
        self.seen_events: list[str] = []

    # -- helpers
    def fresh(self, expr: str, ty) -> Val:
        name = f"{self.prefix}{self.k}"
        self.k += 1
        self.lets.append(f"let {name} := {expr}")
        return Val(name, ty)

    def lookup(self, node: ast.Name) -> Val:
        n = node.id
        if n in self.tmp:
            return self.tmp[n]
        if n in self.store:
            return self.store[n]
        if self.lazy and n in self.T:
            self.lazy_names.append(n)
            v = Val(f"s.<{n}>", None)        # patched to the field name once the fields are numbered
            self.store[n] = v
            return v
        bad(node, "name outside the translated slice")

    def is_key(self, e) -> bool:
        return isinstance(e, ast.Name) and (e.id == self.agent_var or e.id in self.key_vars)

    # -- expressions
    def ev(self, e, layout: bool) -> Val:
        if isinstance(e, ast.Name):
            return self.lookup(e)
        if isinstance(e, ast.List) and not e.elts:
            return Val("[]", ("List", None))
        if isinstance(e, ast.Dict) and not e.keys:
            return Val("UNSET", None)
        if isinstance(e, ast.List) and len(e.elts) == 1 and layout:
            self.assumed.add("`[x]` (one environment)")
            return self.ev(e.elts[0], layout)
        if isinstance(e, ast.Subscript):
            if self.is_key(e.slice):
                return self.ev(e.value, layout)
            if layout and isinstance(e.slice, ast.Constant) and e.slice.value == 0:
                self.assumed.add("`x[0]` (one environment)")
                return self.ev(e.value, layout)
            bad(e, "subscript of a tracked value")
        if isinstance(e, ast.BinOp) and isinstance(e.op, (ast.BitOr, ast.BitAnd)):
            return self.boolop("||" if isinstance(e.op, ast.BitOr) else "&&", e.left, e.right, layout, e)
        if isinstance(e, ast.Call):
            f = e.func
            if isinstance(f, ast.Attribute) and isinstance(f.value, ast.Name) and f.value.id == "np":
                if f.attr in ("logical_or", "logical_and") and len(e.args) == 2 and not e.keywords:
                    return self.boolop("||" if f.attr == "logical_or" else "&&", e.args[0], e.args[1], layout, e)
                if f.attr == "zeros" and len(e.args) == 1 and isinstance(e.args[0], ast.Name) and e.args[0].id == "num_envs":
                    return Val("ZERO", None)
                if f.attr == "array" and layout and len(e.args) == 1:
                    self.assumed.add("`np.array(x)`")
                    return self.ev(e.args[0], layout)
                bad(e, "numpy call on a tracked value")
            if isinstance(f, ast.Attribute) and f.attr == "astype":
                self.assumed.add("`.astype(…)`")
                return self.ev(f.value, layout)
            if isinstance(f, ast.Name) and f.id in LAYOUT_FUNCS and e.args:
                self.assumed.add(f"`{f.id}(x, …)`")
                return self.ev(e.args[0], layout)
            bad(e, "call on a tracked value")
        if isinstance(e, ast.DictComp) and len(e.generators) == 1 and not e.generators[0].ifs:
            g = e.generators[0]
            if isinstance(g.target, ast.Name) and is_agent_ids(g.iter) and self.is_keyname(e.key, g.target.id):
                self.key_vars.add(g.target.id)
                try:
                    return self.ev(e.value, layout)
                finally:
                    self.key_vars.discard(g.target.id)
            if (isinstance(g.target, ast.Tuple) and len(g.target.elts) == 2
                    and all(isinstance(x, ast.Name) for x in g.target.elts)
                    and is_event(g.iter, "items") and not g.iter.args
                    and self.is_keyname(e.key, g.target.elts[0].id)):
                d = self.ev(g.iter.func.value, layout)
                kname, vname = g.target.elts[0].id, g.target.elts[1].id
                self.key_vars.add(kname)
                old = self.tmp.get(vname)
                self.tmp[vname] = d
                try:
                    return self.ev(e.value, layout)
                finally:
                    self.key_vars.discard(kname)
                    if old is None:
                        self.tmp.pop(vname, None)
                    else:
                        self.tmp[vname] = old
            bad(e, "dict comprehension over something else than the agent ids / the items of a tracked dict")
        bad(e, "expression outside the subset")

    @staticmethod
    def is_keyname(k, name: str) -> bool:
        return isinstance(k, ast.Name) and k.id == name

    def boolop(self, op: str, a, b, layout: bool, node) -> Val:
        x, y = self.ev(a, layout), self.ev(b, layout)
        if x.ty != "Bool" or y.ty != "Bool":
            bad(node, "logical operation on something that is not a terminated / truncated flag")
        return Val(f"({x.expr} {op} {y.expr})", "Bool")

    # -- statements
    def assign(self, name: str, v: Val, node):
        if v.expr == "UNSET":
            self.store[name] = v
            return
        if not (v.expr.startswith("s.") or v.expr.startswith("x.") or v.expr.startswith(self.prefix) or v.expr in ("[]", "ZERO")):
            v = self.fresh(v.expr, v.ty)
        self.store[name] = v

    def touches(self, st) -> bool:
        return bool(writes(st) & self.T)

    def run(self, stmts, layout=False):
        for st in stmts:
            self.stmt(st, layout)

    def stmt(self, st, layout: bool):
        if not self.touches(st):
            for n in ast.walk(st):
                if isinstance(n, (ast.Return, ast.Raise)):
                    bad(n, "return / raise inside the collection block")
                if is_event(n, "get_action") or is_event(n, "step", "env"):
                    bad(n, "get_action / env.step whose results are not tracked")
            return
        if isinstance(st, ast.Assign) and len(st.targets) == 1:
            t, v = st.targets[0], st.value
            if is_event(v, "get_action"):
                if not (isinstance(t, ast.Tuple) and len(t.elts) == 4 and all(isinstance(x, ast.Name) for x in t.elts)):
                    bad(st, "get_action must be unpacked into four names")
                self.seen_events.append("get_action")
                obs_args = list(v.args[:1]) + [k.value for k in v.keywords if k.arg in ("obs", "state", "observation")]
                if len(obs_args) != 1:
                    bad(st, "get_action must receive the observation as its first positional argument or as `obs=`")
                a = self.ev(obs_args[0], layout)
                if not a.expr.startswith("s."):
                    bad(st, "the policy is asked about something else than a carried variable")
                self.acted = a.expr
                for i, x in enumerate(t.elts):
                    self.store[x.id] = Val(f"x.pi{i}", PI_TYPES[i])
                return
            if is_event(v, "step", "env"):
                if not (isinstance(t, ast.Tuple) and len(t.elts) == 5 and all(isinstance(x, ast.Name) for x in t.elts)):
                    bad(st, "env.step must be unpacked into five names")
                self.seen_events.append("step")
                for x, (fld, ty) in zip(t.elts, STEP_FIELDS):
                    self.store[x.id] = Val(f"x.{fld}", ty)
                self.store[t.elts[4].id] = Val("x.info", "info")
                return
            if is_event(v, "reset", "env"):
                bad(st, "unconditional env.reset() inside the step loop")
            if isinstance(t, ast.Name):
                self.assign(t.id, self.ev(v, layout), st)
                return
            if isinstance(t, ast.Subscript) and isinstance(t.value, ast.Name) and self.is_key(t.slice):
                self.assign(t.value.id, self.ev(v, layout), st)
                return
            bad(st, "assignment target outside the subset")
        if isinstance(st, ast.Expr) and isinstance(st.value, ast.Call) and isinstance(st.value.func, ast.Attribute):
            c = st.value
            recv = c.func.value
            if isinstance(recv, ast.Subscript) and self.is_key(recv.slice):
                recv = recv.value
            if c.func.attr == "append" and isinstance(recv, ast.Name) and len(c.args) == 1 and not c.keywords:
                lst = self.lookup(recv)
                if not isinstance(lst.ty, tuple):
                    bad(st, "append to something that is not a list initialised in the learn loop")
                e = self.ev(c.args[0], layout)
                if e.ty is None and e.expr.startswith("s.<"):
                    pass
                elif lst.ty[1] not in (None, e.ty):
                    bad(st, f"list of {lst.ty[1]} receives a {e.ty}")
                nv = self.fresh(f"{lst.expr} ++ [{e.expr}]", ("List", e.ty if e.ty is not None else lst.ty[1]))
                nv_elem = e
                self.store[recv.id] = nv
                self.appended = getattr(self, "appended", {})
                self.appended.setdefault(recv.id, []).append(nv_elem)
                return
            bad(st, "method call on a tracked variable")
        if isinstance(st, ast.For) and is_agent_ids(st.iter) and isinstance(st.target, ast.Name) and not st.orelse:
            if self.agent_var is not None:
                bad(st, "nested loop over the agent ids")
            self.agent_var = st.target.id
            self.assumed.add("`for agent_id in agent.agent_ids:` executed for the agent of the column")
            try:
                self.run(st.body, layout)
            finally:
                self.agent_var = None
            return
        if isinstance(st, ast.If) and not (reads(st.test) & self.T):
            if self.lazy:                      # a carried variable first read inside the branch exists before it
                for n in ast.walk(st):
                    if isinstance(n, ast.Name) and isinstance(n.ctx, ast.Load) and n.id in self.T \
                            and n.id not in self.store and n.id not in self.tmp and n.id not in comp_bound(st):
                        self.lookup(n)
            snap = {k: v.key() for k, v in self.store.items()}
            nlets = len(self.lets)
            for branch in (st.body, st.orelse):
                saved = dict(self.store)
                self.run(branch, True)
                if len(self.lets) != nlets:
                    bad(st, "a branch on an untracked condition computes a tracked value")
                for k, v in self.store.items():
                    if k in self.T and snap.get(k) != v.key() and not (k not in snap):
                        bad(st, f"a branch on an untracked condition changes `{k}`")
                    if k in self.T and k not in snap:
                        bad(st, f"a branch on an untracked condition binds `{k}`")
                self.store = saved
            return
        # a compound statement: the only tracked write allowed inside is `obs, info = env.reset()` (conditional reset)
        if isinstance(st, (ast.For, ast.If)):
            found = False
            for n in ast.walk(st):
                if isinstance(n, ast.stmt) and n is not st and not isinstance(n, (ast.For, ast.If)):
                    w = writes(n) & self.T
                    if not w:
                        continue
                    if (isinstance(n, ast.Assign) and len(n.targets) == 1 and is_event(n.value, "reset", "env")
                            and isinstance(n.targets[0], ast.Tuple) and len(n.targets[0].elts) == 2
                            and all(isinstance(x, ast.Name) for x in n.targets[0].elts) and not found):
                        found = True
                        o, i = n.targets[0].elts
                        cur = self.lookup(o)
                        if cur.ty != "σ":
                            bad(n, "env.reset() assigned to something that is not the observation")
                        self.store[o.id] = self.fresh(f"x.reset.getD {cur.expr}", "σ")
                        self.store[i.id] = Val("x.info", "info")
                        self.assumed.add("the steps after which the loop calls `env.reset()` itself are an input (`x.reset`)")
                    else:
                        bad(n, "tracked variable written under a condition")
                elif isinstance(n, (ast.Break, ast.Continue, ast.Return, ast.Raise)):
                    bad(n, "control flow leaving the collection block")
            if (writes(st) & self.T) - {x for n in ast.walk(st) if isinstance(n, ast.Assign) for t in n.targets for x in target_names(t)}:
                bad(st, "loop target / method call on a tracked variable")
            return
        bad(st, "statement outside the subset writes a tracked variable")


# ----------------------------------------------------------------------------- locating the block
def locate(func: ast.FunctionDef):
    parents = {}
    for n in ast.walk(func):
        for ch in ast.iter_child_nodes(n):
            parents[ch] = n
    cands = []
    for n in ast.walk(func):
        if isinstance(n, ast.For):
            ga = any(isinstance(s, ast.Assign) and is_event(s.value, "get_action") for s in n.body)
            es = any(isinstance(s, ast.Assign) and is_event(s.value, "step", "env") for s in n.body)
            if ga and es:
                cands.append(n)
    if len(cands) != 1:
        bad(func, f"{len(cands)} loops hold a get_action and an env.step (expected exactly one)")
    step = cands[0]
    if not (isinstance(step.target, ast.Name) and isinstance(step.iter, ast.Call) and isinstance(step.iter.func, ast.Name)
            and step.iter.func.id == "range") or step.orelse:
        bad(step, "the step loop is not `for v in range(…)`")
    learn = parents.get(step)
    if not isinstance(learn, ast.For) or step not in learn.body or learn.orelse:
        bad(step, "the step loop is not directly inside a `for` (the learn loop)")
    i = learn.body.index(step)
    pre, rest = learn.body[:i], learn.body[i + 1:]
    post, exp = [], None
    for st in rest:
        call = None
        for n in ast.walk(st):
            if is_event(n, "learn") and len(n.args) == 1:
                call = n
                break
        if call is None:
            post.append(st)
            continue
        a = call.args[0]
        if isinstance(a, ast.Tuple):
            exp = a
        elif isinstance(a, ast.Name):
            for j in range(len(post) - 1, -1, -1):
                p = post[j]
                if isinstance(p, ast.Assign) and len(p.targets) == 1 and isinstance(p.targets[0], ast.Name) \
                        and p.targets[0].id == a.id and isinstance(p.value, ast.Tuple):
                    exp = p.value
                    post = post[:j] + post[j + 1:]
                    if any(a.id in writes(q) for q in post[j:]):
                        bad(p, "the experiences are rewritten before learn()")
                    break
        if exp is None:
            bad(st, "learn() is not called with a tuple display (directly or through one assignment)")
        break
    if exp is None:
        bad(learn, "no `X.learn(experiences)` after the step loop")
    if len(exp.elts) != 8 or not all(isinstance(x, ast.Name) for x in exp.elts):
        bad(exp, "the experiences are not a tuple of eight names")
    # no break / continue / return of the step loop
    def scan(stmts):
        for s in stmts:
            for n in ast.walk(s):
                if isinstance(n, (ast.Break, ast.Continue)):
                    q = n
                    while q is not step and not (isinstance(q, (ast.For, ast.While)) and q is not step):
                        q = parents[q]
                    if q is step:
                        bad(n, "break / continue of the step loop")
                if isinstance(n, (ast.Return, ast.Raise)):
                    bad(n, "return / raise inside the step loop")
    scan(step.body)
    return pre, step, post, exp


def tracked_set(pre, step, post, exp) -> set[str]:
    T = {x.id for x in exp.elts}
    simple = []
    for s in list(pre) + list(step.body) + list(post):
        for n in ast.walk(s):
            if isinstance(n, (ast.Assign, ast.AugAssign, ast.Expr)):
                simple.append(n)
    changed = True
    while changed:
        changed = False
        for n in simple:
            if not (writes(n) & T):
                continue
            if isinstance(n, ast.Assign):
                v = n.value
                if is_event(v, "get_action") or is_event(v, "step", "env") or is_event(v, "reset", "env"):
                    continue
                new = reads(v)
            elif isinstance(n, ast.AugAssign):
                new = reads(n.value)
            else:
                new = set()
                for a in n.value.args:
                    new |= reads(a)
            new -= {"np", "torch", "agent", "env", "num_envs", "spaces"}
            if not new <= T:
                T |= new
                changed = True
    return T


# ----------------------------------------------------------------------------- one function
def translate_function(ns: str, rel: str, fname: str, src: str) -> tuple[list[str], list[str]]:
    _CUR["rel"] = rel
    tree = ast.parse(src)
    funcs = [n for n in tree.body if isinstance(n, ast.FunctionDef) and n.name == fname]
    if len(funcs) != 1:
        raise Unsupported(f"{rel}: function `{fname}` not found")
    pre, step, post, exp = locate(funcs[0])
    T = tracked_set(pre, step, post, exp)
    if step.target.id in T:
        bad(step, "the step counter flows into the experiences")
    expn = [x.id for x in exp.elts]
    if len(set(expn)) != 8:
        bad(exp, "the experiences repeat a name")

    # PRE
    ex0 = Exec(T, {}, lazy=False, prefix="p")
    ex0.run(pre)
    if ex0.lets:
        bad(pre[0], "the statements before the step loop compute")
    pre_store = ex0.store
    # STEP
    ex = Exec(T, {k: Val(f"s.<{k}>", v.ty if isinstance(v.ty, tuple) else None) for k, v in pre_store.items()}, lazy=True, prefix="v")
    ex.run(step.body)
    if sorted(ex.seen_events) != ["get_action", "step"]:
        bad(step, "the step loop must call get_action and env.step exactly once each")
    # fields
    order = list(pre_store) + [n for n in ex.lazy_names if n not in pre_store] + [n for n in expn if n not in pre_store and n not in ex.lazy_names]
    others = [n for n in order if n not in expn]
    fld = {n: (f"e{expn.index(n)}" if n in expn else f"c{others.index(n)}") for n in order}
    final = {}
    for n in order:
        v = ex.store.get(n)
        if v is None or v.expr == "UNSET":
            bad(step, f"`{n}` is not bound at the end of a step")
        final[n] = v
    ftype = {}
    appended = getattr(ex, "appended", {})
    for n in sorted(order, key=lambda n: isinstance(final[n].ty, tuple)):
        ty = final[n].ty
        if isinstance(ty, tuple) and ty[1] is None:            # elements are a carried variable: its type is known by now
            for e in appended.get(n, []):
                m = e.expr[3:-1] if e.expr.startswith("s.<") else None
                if m in ftype:
                    ty = ("List", ftype[m])
                    final[n].ty = ty
                    break
        if isinstance(ty, tuple) and ty[1] is None:
            bad(step, f"nothing is appended to `{n}`")
        if ty is None:              # carried and never rewritten: its type is that of what it is appended to
            bad(step, f"`{n}` is carried across steps and never assigned")
        if ty == "info":
            bad(step, f"`{n}` holds the info dict")
        ftype[n] = ty_str(ty)

    def patch(t: str) -> str:
        for n in order:
            t = t.replace(f"s.<{n}>", f"s.{fld[n]}")
        if "s.<" in t:
            raise Unsupported(f"{rel}: a tracked variable is read before it is bound: {t}")
        return t

    # POST (on the state after the fold)
    exq = Exec(T, {n: Val(f"s.<{n}>", final[n].ty) for n in order}, lazy=False, prefix="q")
    exq.run(post)
    out_exprs = []
    for x in exp.elts:
        v = exq.lookup(x)
        out_exprs.append(patch(v.expr))
    out_types = [ty_str(exq.lookup(x).ty) for x in exp.elts]

    # init
    params, inits = [], []
    for n in order:
        f = fld[n]
        if n in pre_store:
            v = pre_store[n]
            if v.expr == "[]":
                inits.append(f"{f} := []")
            elif v.expr == "ZERO":
                z = {"Bool": "false", "Rat": "0"}.get(ftype[n])
                if z is None:
                    bad(pre[0], f"`{n}` starts as zeros but holds a {ftype[n]}")
                inits.append(f"{f} := {z}")
            else:
                bad(pre[0], f"initial value of `{n}` outside the subset")
        elif n in ex.lazy_names:
            params.append((f"{f}_0", ftype[n], f"`{n}` on entry of the learn loop's body (not assigned there: carried over)"))
            inits.append(f"{f} := {f}_0")
        else:
            i = expn.index(n)
            params.append((f"u{i}", ftype[n], f"placeholder for `{n}`, unbound until the first step"))
            inits.append(f"{f} := u{i}")

    roles = "; ".join(f"`{fld[n]}` = `{n}`" for n in order)
    assumed = sorted(ex0.assumed | ex.assumed | exq.assumed)
    L: list[str] = []
    L.append(f"namespace {ns}")
    L.append("")
    L.append(f"/-- the tracked variables of `{fname}` that live across steps: {roles} -/")
    L.append("structure St (σ α : Type) where")
    for n in order:
        L.append(f"  {fld[n]} : {ftype[n]}")
    L.append("")
    ptxt = " ".join(f"({p} : {t})" for p, t, _ in params)
    L.append("/-- the statements of the learn loop before the step loop. " + "; ".join(f"`{p}`: {d}" for p, _, d in params) + " -/")
    L.append(f"def init {{σ α : Type}} {ptxt} : St σ α :=")
    L.append("  { " + ", ".join(inits) + " }")
    L.append("")
    L.append(f"/-- the body of the step loop of `{fname}` on one reply (one environment column" + (" of one agent" if ns.startswith("Ma") else "") + ").")
    L.append("    Assumed identity on a column / dropped: " + ("; ".join(assumed) if assumed else "nothing") + " -/")
    L.append("def step {σ α : Type} (s : St σ α) (x : Reply σ α) : St σ α :=")
    for l in ex.lets:
        L.append("  " + patch(l))
    L.append("  { " + ", ".join(f"{fld[n]} := {patch(final[n].expr)}" for n in order) + " }")
    L.append("")
    L.append("/-- the observation `get_action` is called with in a step that starts in state `s` -/")
    L.append(f"def acted {{σ α : Type}} (s : St σ α) : σ := {patch(ex.acted)}")
    L.append("")
    L.append("/-- `init`, the step loop over the stream, the statements up to `learn(experiences)`: the eight-tuple handed to learn, in source order -/")
    L.append(f"def collect {{σ α : Type}} {ptxt} (xs : List (Reply σ α)) : {' × '.join(out_types)} :=")
    L.append(f"  let s := xs.foldl step (init {' '.join(p for p, _, _ in params)})")
    for l in exq.lets:
        L.append("  " + patch(l))
    L.append("  (" + ", ".join(out_exprs) + ")")
    L.append("")
    L.append(f"end {ns}")
    return L, assumed


PREAMBLE = """set_option linter.unusedVariables false

namespace RolloutGen

/-- what one trip round the step loop receives for one environment column (of one agent): `pi0 … pi3` the four results
    of `get_action` in return order (action, log_prob, entropy, value), `obs reward term trunc` the first four results
    of `env.step`, `reset` = `some o` iff the loop itself called `env.reset()` after this step (`o` its observation) -/
structure Reply (σ α : Type) where
  pi0 : α
  pi1 : Rat
  pi2 : Rat
  pi3 : Rat
  obs : σ
  reward : Rat
  term : Bool
  trunc : Bool
  reset : Option σ
"""


def repo_dir(arg: str | None) -> Path:
    if arg:
        return Path(arg)
    return Path(os.environ.get("VERIF_REPO", "/repo"))


def translate(repo: Path) -> tuple[str, str]:
    h = hashlib.sha256()
    parts: list[str] = []
    for ns, rel, fname in TARGETS:
        p = Path(repo) / rel
        try:
            src = p.read_text()
        except OSError as e:
            raise Unsupported(f"{rel}: cannot read ({e})")
        h.update(src.encode())
        try:
            lines, _ = translate_function(ns, rel, fname, src)
        except SyntaxError as e:
            raise Unsupported(f"{rel}: syntax error: {e}")
        parts.append("\n".join(lines))
    sha = h.hexdigest()
    head = ("/-\n  Gen/RolloutGen.lean — GENERATED by harness/py2lean_rollout.py from the rollout-collection block (step loop of the\n"
            "  learn loop up to `agent.learn(experiences)`) of `train_on_policy` (agilerl/training/train_on_policy.py) and\n"
            "  `train_multi_agent_on_policy` (agilerl/training/train_multi_agent_on_policy.py); do not edit.  Core Lean only.\n"
            "  One environment column of one agent.  `Proofs/RolloutGenEq.lean` proves `step` / `collect` equal to `collectStep` /\n"
            "  `collect` of `Model/GAE.lean`.  Assumed: get_action returns (action, log_prob, entropy, value) and env.step\n"
            "  (obs, reward, terminated, truncated, info); neither touches the tracked variables; callees do not mutate their\n"
            "  arguments; agent ids are distinct keys.\n-/\n")
    text = head + SHA_PREFIX + sha + "\n" + PREAMBLE + "\n" + "\n\n".join(parts) + "\n\nend RolloutGen\n"
    return text, sha


def strip_sha(text: str) -> str:
    return "\n".join(l for l in text.splitlines() if not l.startswith(SHA_PREFIX))


def write_if_changed(text: str, out: Path, force: bool = False) -> bool:
    out = Path(out)
    old = out.read_text() if out.exists() else None
    if old is not None and not force and strip_sha(old) == strip_sha(text):
        return False
    if old == text:
        return False
    out.parent.mkdir(parents=True, exist_ok=True)
    tmp = out.with_suffix(".lean.tmp")
    tmp.write_text(text)
    os.replace(tmp, out)
    return True


def main(argv: list[str]) -> int:
    import argparse
    ap = argparse.ArgumentParser()
    ap.add_argument("--repo")
    ap.add_argument("--out", default=str(DEFAULT_OUT))
    ap.add_argument("--stdout", action="store_true")
    ap.add_argument("--force", action="store_true")
    a = ap.parse_args(argv)
    try:
        text, sha = translate(repo_dir(a.repo))
    except Unsupported as e:
        print(f"Unsupported: {e}", file=sys.stderr)
        return 2
    if a.stdout:
        sys.stdout.write(text)
        return 0
    ch = write_if_changed(text, Path(a.out), a.force)
    print(f"{'wrote' if ch else 'unchanged'} {a.out} (sha256 {sha[:12]})")
    return 0


if __name__ == "__main__":
    sys.exit(main(sys.argv[1:]))
