#!/usr/bin/env python3
"""
py2lean_sampler.py — translate the SAMPLING PATH of off-policy training into Lean 4:

  * REPO/agilerl/components/replay_buffer.py : the class statements (`class X(Base)`: which class is an instance of
    which, which class defines a method), `ReplayBuffer.sample`, `MultiStepReplayBuffer.sample_from_indices`,
    `PrioritizedReplayBuffer.sample`;
  * REPO/agilerl/components/sampler.py : `Sampler.__init__` (the choice of `self.sample`), `Sampler.sample_standard`,
    `Sampler.sample_per`, `Sampler.sample_n_step`;
  * REPO/agilerl/training/train_off_policy.py : three statement groups of `train_off_policy`, located by structure:
    SETUP  = the `else` branch of the `if accelerator is not None:` that creates `Sampler(memory=…)` objects,
    STORE  = the `if n_step_memory is not None:` statement that contains `n_step_memory.add(…)`,
    LEARN  = every outermost `if per:` statement that contains an `agent.learn(…)` call (one definition per distinct
             translation, `learn_block_0`, `learn_block_1`, … in source order; textually identical copies share one).

    python3 harness/py2lean_sampler.py [--repo DIR] [--out FILE] [--stdout] [--force]

Reads the *source text* only (Python `ast`; agilerl is never imported) and writes lean/Gen/SamplerGen.lean (namespace
SamplerGen, core Lean only).  `Proofs/SamplerGenEq.lean` proves the generated definitions equal to the hand-written
model functions of `Model/NStep.lean` (`samplerMode`, `uniformBatch`, `perBatch`, `nStepBatch`, `sampleBlock`,
`priorityUpdate`, the 1-step log of `State.add`); `Props/C10.lean` restates the alignment theorems over the generated
definitions (`C10_source_translation_sampler_*`).

Data model (fixed prelude of the output — Python / torch / tensordict runtime semantics, assumed):
  * a buffer is `Mem α` = its class (`MemKind`), an abstract storage `store : Nat → α` (index ↦ record) and `size`;
    what `add` does to the storage is C09 / the other C10 translation, not this file;
  * an index tensor is `IdxT` = the index values, the number `extra` of trailing singleton axes (shape (B,1,…,1)) and
    whether it is a `torch.Tensor`; `x.unsqueeze(1)` adds an axis, `x.reshape(-1)` removes them all, `x[:k]` keeps the
    first k values;
  * a sampled batch (`TensorDict`) is `Batch α ω` = rows (one record per index), `extra` (an index tensor of shape
    (B,1) yields a batch of shape (B,1): every row then broadcasts against the other batch), the optional entries
    `idxs : Option IdxT` and `weights : Option ω`; `storage[i]` is `Mem.gather`; `b["idxs"]` of a missing entry
    (KeyError) makes the function answer `none`;
  * random draws and the code of other properties are explicit oracles `Env β ω`: `randperm d n` (torch.randperm;
    `d` numbers the draws of one function in evaluation order, so two call sites never share a draw),
    `sample_proportional d k` (`PrioritizedReplayBuffer._sample_proportional`, C11), `calculate_weights i beta`
    (`_calculate_weights`, C11; the shape of the weights is not tracked: `.unsqueeze(1)` on them is the identity);
    `.clone()` is the identity; floats (`beta`) are an abstract type β;
  * `memory` arguments are `Mem α` with `kind = .none` for `None`; `dataset` is "is not None"; `dataloader` is
    `DLKind` (`none` / a torch `DataLoader` / something else); `MultiAgentReplayBuffer` (another file) is assumed
    unrelated to the classes of replay_buffer.py;
  * `agent.learn(experiences, n_experiences=None, per=False)` is a function parameter returning `LearnRet π`
    (`loss, idxs, priorities = agent.learn(…)` reads `.idxs` / `.priorities` by tuple position; the learner is
    outside this translation); `memory.update_priorities(i, p)` and `agent.learn(…)` are recorded as events
    (`BlockOut.updates`, `BlockOut.calls`, in program order); a learn block receives `env : Nat → Env β ω`, the k-th
    `S.sample(…)` call on a path uses `env k` (two sampling calls never share their draws);
  * `n_step_memory.add(t)` is a function parameter `nAdd : σ → τ → Option (σ × Option τ)` (new buffer state and the
    returned transition; instantiated with the generated `NStepGen.add` in the proofs); `memory.add(x)` is recorded
    (`store_block` returns the records handed to it, in order).

A method call on an object whose class is only known at run time (`self.memory.sample(…)`, `sampler.sample(…)`) is
a `match` over the classes / installed methods: per alternative the callee is resolved through the class statements
(single inheritance) resp. through the `self.sample = self.sample_X` assignments, the arguments are bound to the callee's
parameters by position / keyword and checked against the annotated types (`int`, `bool`, `float`, an index tensor);
an alternative whose arguments do not fit, whose callee is outside the subset or whose class has no such method answers
`none` (= not described by the model; the theorems' hypotheses select the alternatives that are).

Supported subset (anything else raises Unsupported naming the construct and file:line)
  * statements: docstring, `x = e`, `x: T = e`, `x["idxs"|"weights"] = e`, `self.f = e` (in `__init__`), `assert e[, msg]`,
    `if / elif / else` (the rest of the block is continued in both branches), `return e`, `x = None`, tuple targets
    on the result of `agent.learn` (`loss, idxs, priorities = …`, `loss, *_ = …`), expression statements that are
    events (`memory.add`, `memory.update_priorities`, `agent.learn`);
  * expressions: names, `True False None`, non-negative ints, `self.size`, `self.storage[e]` / `self._storage[e]`,
    `torch.randperm(e)`, `e[:k]`, `.clone() .unsqueeze(1) .reshape(-1)`, `self._sample_proportional(e)`,
    `self._calculate_weights(e, e)`, `isinstance(x, C | (C, …))`, `x is [not] None`, `and or not`, `a if c else b`,
    `self.memory.m(…)`, `S.sample(…)` for a `Sampler` local, `Sampler(memory=e)`, `e["idxs"]`, `agent.batch_size`,
    `agent.beta`, `agent.learn(…)`, `n_step_memory.add(e)`.
  * DROPPED after checking that they cannot write a sliced variable or hide an event: `warnings.warn(…)`, assignments
    to `self.dataset` / `self.dataloader` (not read by the sampling methods), statements that only bind `loss`.

Shape of the output: every generated function returns an `Option` (`none` = the model does not describe the call /
Python raises); fallible reads / calls are bound in evaluation order before the statement that uses them; Python locals
are renamed canonically (`v0, v1, …` in order of first assignment, bound values `r0, r1, …`; parameters keep their names).
The header carries the sha256 of the three source files; `write_if_changed` compares everything *but* that line.
"""
from __future__ import annotations

import ast
import hashlib
import os
import sys
from pathlib import Path

HERE = Path(__file__).resolve().parent
DEFAULT_OUT = HERE.parent / "lean" / "Gen" / "SamplerGen.lean"
SRC_BUFFER = "agilerl/components/replay_buffer.py"
SRC_SAMPLER = "agilerl/components/sampler.py"
SRC_TRAIN = "agilerl/training/train_off_policy.py"
REL_SOURCES = (SRC_BUFFER, SRC_SAMPLER, SRC_TRAIN)
REL_SOURCE = "agilerl/{components/replay_buffer.py,components/sampler.py,training/train_off_policy.py}"
SHA_PREFIX = "-- sha256(source) = "

KINDS = ("ReplayBuffer", "MultiStepReplayBuffer", "PrioritizedReplayBuffer")        # classes read from SRC_BUFFER
FOREIGN_KINDS = ("MultiAgentReplayBuffer",)                                         # assumed unrelated
NAT, BOOL, BETA, IDX, OPTIDX, BATCH, OPTBATCH, MEM, OPTMEM, SAMPLER, OPTSAMPLER, WEIGHTS, NONE, LEARNRET, PRIO, DL, TRANS, OPTTRANS = (
    "nat", "bool", "beta", "idx", "optidx", "batch", "optbatch", "mem", "optmem", "sampler", "optsampler", "weights",
    "none", "learnret", "prio", "dl", "trans", "opttrans")
LEAN_TY = {NAT: "Nat", BOOL: "Bool", BETA: "β", IDX: "IdxT", OPTIDX: "Option IdxT", BATCH: "Batch α ω",
           OPTBATCH: "Option (Batch α ω)", MEM: "Mem α", OPTMEM: "Option (Mem α)", SAMPLER: "Sampler α",
           OPTSAMPLER: "Option (Sampler α)", WEIGHTS: "ω", LEARNRET: "LearnRet π", PRIO: "Option π", DL: "DLKind",
           TRANS: "τ", OPTTRANS: "Option τ"}
OPTION_OF = {IDX: OPTIDX, BATCH: OPTBATCH, MEM: OPTMEM, SAMPLER: OPTSAMPLER, TRANS: OPTTRANS}

PRELUDE = '''namespace SamplerGen

/-- the class of a `memory` argument (`none` = Python's `None`; `other` = a class unrelated to these) -/
inductive MemKind where
  | none | ReplayBuffer | MultiStepReplayBuffer | PrioritizedReplayBuffer | MultiAgentReplayBuffer | other
deriving DecidableEq, Repr

/-- the `dataloader` argument: `None`, a `torch.utils.data.DataLoader`, anything else -/
inductive DLKind where
  | none | DataLoader | other
deriving DecidableEq, Repr

/-- an index tensor: values, number of trailing singleton axes (shape (B,1,…,1)), `isinstance(·, torch.Tensor)` -/
structure IdxT where
  vals : List Nat
  extra : Nat
  tensor : Bool
deriving DecidableEq, Repr

/-- `x.reshape(-1)`, `x.unsqueeze(1)`, `x[:k]` -/
def IdxT.reshapeFlat (i : IdxT) : IdxT := { i with extra := 0 }
def IdxT.unsqueeze1 (i : IdxT) : IdxT := { i with extra := i.extra + 1 }
def IdxT.take (i : IdxT) (k : Nat) : IdxT := { i with vals := i.vals.take k }

/-- a sampled batch: one record per index; `extra` > 0 = the batch carries the extra axes of its index tensor -/
structure Batch (α ω : Type) where
  rows : List α
  extra : Nat
  idxs : Option IdxT
  weights : Option ω

/-- a replay buffer seen by the sampling code: class, storage (index ↦ record), `size` -/
structure Mem (α : Type) where
  kind : MemKind
  store : Nat → α
  size : Nat

/-- `storage[i]` -/
def Mem.gather {α ω : Type} (m : Mem α) (i : IdxT) : Batch α ω :=
  { rows := i.vals.map m.store, extra := i.extra, idxs := none, weights := none }

/-- the explicit oracles: `torch.randperm`, `_sample_proportional` (random: the first argument is the number of
    the draw within the translated function, in evaluation order — two call sites never share a draw),
    `_calculate_weights` (a function of the tree) -/
structure Env (β ω : Type) where
  randperm : Nat → Nat → List Nat
  sample_proportional : Nat → Nat → List Nat
  calculate_weights : IdxT → β → ω

/-- what `agent.learn` returns besides the loss (tuple positions 1 and 2) -/
structure LearnRet (π : Type) where
  idxs : Option IdxT
  priorities : Option π

/-- one `agent.learn(experiences, n_experiences, per)` call -/
structure LearnCall (α ω : Type) where
  experiences : Batch α ω
  n_experiences : Option (Batch α ω)
  per : Bool

/-- the events of one pass through a learn block, in program order -/
structure BlockOut (α ω π : Type) where
  calls : List (LearnCall α ω)
  updates : List (Option IdxT × Option π)
'''


class Unsupported(Exception):
    pass


_file = [REL_SOURCE]


def fail(node, what: str):
    try:
        txt = " ".join(ast.unparse(node).split())
    except Exception:
        txt = "?"
    if len(txt) > 90:
        txt = txt[:90] + "…"
    raise Unsupported(f"{_file[0]}:{getattr(node, 'lineno', '?')}: {what}: `{txt}`")


def ind(lines, n: int = 2):
    return [" " * n + ln for ln in lines]


def is_docstring(st) -> bool:
    return isinstance(st, ast.Expr) and isinstance(st.value, ast.Constant) and isinstance(st.value.value, str)


def is_name(n, name=None) -> bool:
    return isinstance(n, ast.Name) and (name is None or n.id == name)


def self_attr(n, name=None) -> bool:
    return isinstance(n, ast.Attribute) and is_name(n.value, "self") and (name is None or n.attr == name)


def is_none(n) -> bool:
    return isinstance(n, ast.Constant) and n.value is None


def find_class(tree, name):
    for st in tree.body:
        if isinstance(st, ast.ClassDef) and st.name == name:
            return st
    return None


def find_method(cls, name):
    for st in cls.body:
        if isinstance(st, ast.FunctionDef) and st.name == name:
            return st
    return None


def ann_type(arg: ast.arg):
    """the modelled type of an annotated parameter"""
    a = arg.annotation
    txt = ast.unparse(a) if a is not None else ""
    if txt == "int":
        return NAT
    if txt == "bool":
        return BOOL
    if txt == "float":
        return BETA
    if arg.arg in ("idxs", "indices") and txt in ("Any", "torch.Tensor", "Tensor", ""):
        return IDX
    return None


class Sig:
    """parameters of a method after `self`: [(name, type, default expr | None)]"""
    def __init__(self, fn: ast.FunctionDef):
        a = fn.args
        if a.vararg or a.kwarg or a.kwonlyargs or a.posonlyargs:
            fail(fn, "parameter kind outside the subset")
        args = a.args[1:] if a.args and a.args[0].arg in ("self", "cls") else a.args
        defaults = [None] * (len(args) - len(a.defaults)) + list(a.defaults)
        self.params = []
        for arg, d in zip(args, defaults):
            self.params.append((arg.arg, ann_type(arg), d))
        self.fn = fn


# ================================================================================================ block translator
class Block:
    """continuation-passing translation of a statement list into an `Option`-valued Lean expression"""

    def __init__(self, owner, fname: str):
        self.owner = owner
        self.fname = fname
        self.sym: dict[str, tuple[str, str]] = {}        # python name -> (lean text, type)
        self.names: dict[str, str] = {}                  # python local -> canonical lean name
        self.nbind = 0
        self.binds: list[tuple[str, str]] = []
        self.calls: list[str] = []                       # learn events on the current path
        self.updates: list[str] = []
        self.added: list[str] = []                       # memory.add events on the current path
        self.fields: dict[str, str] = {}                 # self.<sliced field> on the current path (`__init__`)
        self.nonnull: set[str] = set()                   # names known not to be None on the current path
        self.ndraw = 0                                   # random draws made on the current path

    # ---- state
    def snapshot(self):
        return (dict(self.sym), list(self.calls), list(self.updates), list(self.added), dict(self.fields), set(self.nonnull), self.ndraw)

    def restore(self, s):
        self.sym, self.calls, self.updates, self.added, self.fields = dict(s[0]), list(s[1]), list(s[2]), list(s[3]), dict(s[4])
        self.nonnull = set(s[5])
        self.ndraw = s[6]

    def local(self, name: str) -> str:
        if name not in self.names:
            self.names[name] = f"v{len(self.names)}"
        return self.names[name]

    def bind(self, opt_text: str) -> str:
        r = f"r{self.nbind}"
        self.nbind += 1
        self.binds.append((opt_text, r))
        return r

    def with_binds(self, build) -> list[str]:
        """`build()` translates one statement and its continuation; fallible sub-expressions evaluated while the
        statement's own expressions are translated are bound in front of it"""
        saved = self.binds
        self.binds = []
        try:
            head, cont = build()
            mine = self.binds
        finally:
            self.binds = saved
        lines = head + cont()
        for opt, r in reversed(mine):
            if r.startswith("l"):
                lines = [f"let {r} := {opt}"] + lines
            else:
                lines = [f"match {opt} with", "| none => none", f"| some {r} =>"] + ind(lines)
        return lines

    # ---- expressions
    def coerce(self, val, ty, node):
        txt, t = val
        if t == ty:
            return txt
        if OPTION_OF.get(t) == ty:
            return f"(some {txt})"
        if t == NONE and ty in OPTION_OF.values() or t == NONE and ty == PRIO:
            return "none"
        fail(node, f"a value of type {t} where {ty} is needed")

    def truth(self, n) -> str:
        txt, t = self.ex(n)
        if t != BOOL:
            fail(n, f"condition of type {t}")
        return txt

    def ex(self, n) -> tuple[str, str]:
        if isinstance(n, ast.Constant):
            if n.value is True:
                return "true", BOOL
            if n.value is False:
                return "false", BOOL
            if n.value is None:
                return "none", NONE
            if isinstance(n.value, int) and n.value >= 0:
                return str(n.value), NAT
            fail(n, "constant outside the subset")
        if isinstance(n, ast.Name):
            if n.id in self.sym:
                return self.sym[n.id]
            fail(n, "name outside the slice")
        if isinstance(n, ast.BoolOp):
            op = " && " if isinstance(n.op, ast.And) else " || "
            return "(" + op.join(self.truth(v) for v in n.values) + ")", BOOL
        if isinstance(n, ast.UnaryOp) and isinstance(n.op, ast.Not):
            return f"(!{self.truth(n.operand)})", BOOL
        if isinstance(n, ast.IfExp):
            c = self.truth(n.test)
            a, ta = self.ex(n.body)
            b, tb = self.ex(n.orelse)
            if ta != tb:
                fail(n, f"conditional expression of types {ta} / {tb}")
            return f"(if {c} then {a} else {b})", ta
        if isinstance(n, ast.Compare) and len(n.ops) == 1 and isinstance(n.ops[0], (ast.Is, ast.IsNot)) \
                and is_none(n.comparators[0]):
            txt, t = self.ex(n.left)
            neg = isinstance(n.ops[0], ast.IsNot)
            if isinstance(n.left, ast.Name) and n.left.id in self.nonnull:
                return ("true" if neg else "false"), BOOL
            if t == MEM:
                return (f"({txt}.kind != MemKind.none)" if neg else f"({txt}.kind == MemKind.none)"), BOOL
            if t == DL:
                return (f"({txt} != DLKind.none)" if neg else f"({txt} == DLKind.none)"), BOOL
            if t == BOOL and isinstance(n.left, ast.Name) and n.left.id == "dataset":
                return (txt if neg else f"(!{txt})"), BOOL
            if t in OPTION_OF.values():
                return (f"{txt}.isSome" if neg else f"{txt}.isNone"), BOOL
            if t == NONE:
                return ("false" if neg else "true"), BOOL
            fail(n, f"`is None` test of a value of type {t}")
        if isinstance(n, ast.Call):
            return self.call(n)
        if isinstance(n, ast.Attribute):
            return self.attr(n)
        if isinstance(n, ast.Subscript):
            return self.subscript(n)
        fail(n, "expression outside the subset")

    def attr(self, n: ast.Attribute):
        if self_attr(n):
            if n.attr in self.fields:
                return self.fields[n.attr]
            if n.attr == "size" and "self" in self.sym and self.sym["self"][1] == MEM:
                self.owner.check_size_property(n)
                return f"{self.sym['self'][0]}.size", NAT
            if n.attr == "memory" and "self" in self.sym and self.sym["self"][1] == SAMPLER:
                return f"{self.sym['self'][0]}.memory", MEM
            fail(n, "attribute of self outside the subset")
        if is_name(n.value, "agent") and "agent" in self.sym:
            if n.attr == "batch_size":
                return "batch_size", NAT
            if n.attr == "beta":
                return "beta", BETA
        fail(n, "attribute outside the subset")

    def subscript(self, n: ast.Subscript):
        # storage[e]
        if self_attr(n.value) and n.value.attr in ("storage", "_storage") and self.sym.get("self", ("", ""))[1] == MEM:
            if n.value.attr == "storage":
                self.owner.check_storage_property(n)
            i, t = self.ex(n.slice)
            if t != IDX:
                fail(n, f"storage indexed with a value of type {t}")
            return f"({self.sym['self'][0]}.gather {i})", BATCH
        # e[:k]
        if isinstance(n.slice, ast.Slice):
            if n.slice.lower is not None or n.slice.step is not None or n.slice.upper is None:
                fail(n, "slice outside the subset (only `[:k]`)")
            v, t = self.ex(n.value)
            k, tk = self.ex(n.slice.upper)
            if t != IDX or tk != NAT:
                fail(n, f"slice of a value of type {t} with a bound of type {tk}")
            return f"({v}.take {k})", IDX
        # batch["idxs"]
        if isinstance(n.slice, ast.Constant) and isinstance(n.slice.value, str):
            v, t = self.ex(n.value)
            if t != BATCH or n.slice.value not in ("idxs",):
                fail(n, "key read outside the subset")
            return self.bind(f"{v}.{n.slice.value}"), IDX
        fail(n, "subscript outside the subset")

    def call(self, n: ast.Call):
        f = n.func
        if n.keywords and not (isinstance(f, ast.Attribute) or is_name(f, "Sampler")):
            fail(n, "keyword arguments outside the subset")
        if is_name(f, "isinstance") and len(n.args) == 2:
            return self.isinstance_(n)
        if is_name(f, "Sampler"):
            return self.owner.sampler_ctor(self, n)
        if isinstance(f, ast.Attribute):
            recv = f.value
            # torch.randperm(e)
            if is_name(recv, "torch") and f.attr == "randperm" and len(n.args) == 1 and not n.keywords:
                e, t = self.ex(n.args[0])
                if t != NAT:
                    fail(n, "randperm of a non-integer")
                self.ndraw += 1
                return f"(IdxT.mk (env.randperm {self.ndraw - 1} {e}) 0 true)", IDX
            if is_name(recv, "self") and self.sym.get("self", ("", ""))[1] == MEM:
                if f.attr == "_sample_proportional" and len(n.args) == 1 and not n.keywords:
                    self.owner.need_method(n, f.attr)
                    e, t = self.ex(n.args[0])
                    if t != NAT:
                        fail(n, "argument of _sample_proportional")
                    self.ndraw += 1
                    return f"(IdxT.mk (env.sample_proportional {self.ndraw - 1} {e}) 0 true)", IDX
                if f.attr == "_calculate_weights" and len(n.args) == 2 and not n.keywords:
                    self.owner.need_method(n, f.attr)
                    (a, ta), (b, tb) = self.ex(n.args[0]), self.ex(n.args[1])
                    if ta != IDX or tb != BETA:
                        fail(n, "arguments of _calculate_weights")
                    return f"(env.calculate_weights {a} {b})", WEIGHTS
                fail(n, "method of self outside the subset")
            # tensor methods
            if f.attr in ("clone", "unsqueeze", "reshape") and not n.keywords:
                v, t = self.ex(recv)
                if f.attr == "clone" and not n.args and t in (BATCH, IDX, WEIGHTS):
                    return v, t
                if f.attr == "unsqueeze" and len(n.args) == 1 and isinstance(n.args[0], ast.Constant) and n.args[0].value == 1:
                    if t == IDX:
                        return f"{v}.unsqueeze1", IDX
                    if t == WEIGHTS:
                        return v, t
                if f.attr == "reshape" and len(n.args) == 1 and isinstance(n.args[0], ast.UnaryOp) \
                        and isinstance(n.args[0].op, ast.USub) and isinstance(n.args[0].operand, ast.Constant) \
                        and n.args[0].operand.value == 1 and t == IDX:
                    return f"{v}.reshapeFlat", IDX
                fail(n, f"tensor method on a value of type {t} outside the subset")
            # self.memory.m(…)  /  S.sample(…)  /  agent.learn(…)  /  n_step_memory.add(…)
            if self_attr(recv, "memory"):
                return self.owner.memory_call(self, n)
            if is_name(recv) and recv.id in self.sym and self.sym[recv.id][1] in (SAMPLER, OPTSAMPLER) and f.attr == "sample":
                return self.owner.sampler_call(self, n)
            if is_name(recv, "agent") and f.attr == "learn" and "agent" in self.sym:
                return self.owner.learn_call(self, n)
            if is_name(recv, "n_step_memory") and f.attr == "add" and "nAdd" in self.sym:
                return self.owner.nadd_call(self, n)
        fail(n, "call outside the subset")

    def isinstance_(self, n: ast.Call):
        x, cls = n.args
        xt, t = self.ex(x)
        names = [c for c in (cls.elts if isinstance(cls, ast.Tuple) else [cls])]
        outs = []
        for c in names:
            ctxt = ast.unparse(c)
            if t == MEM and ctxt in KINDS + FOREIGN_KINDS:
                outs.append(f"isinstance_{ctxt} {xt}.kind")
            elif t == DL and ctxt == "DataLoader":
                outs.append(f"({xt} == DLKind.DataLoader)")
            elif t == IDX and ctxt in ("torch.Tensor", "Tensor"):
                outs.append(f"{xt}.tensor")
            else:
                fail(n, f"isinstance test of a value of type {t}")
        return ("(" + " || ".join(outs) + ")" if len(outs) > 1 else outs[0]), BOOL

    def bind_args(self, n: ast.Call, sig: Sig, args, kwargs):
        """bind evaluated arguments to the callee's parameters; returns list of texts or a reason string"""
        params = sig.params
        if len(args) > len(params):
            return f"{len(args)} positional arguments for {len(params)} parameters"
        got: dict[str, tuple[str, str]] = {}
        for (pname, _, _), a in zip(params, args):
            got[pname] = a
        for k, a in kwargs.items():
            if k not in [p[0] for p in params]:
                return f"no parameter `{k}`"
            if k in got:
                return f"parameter `{k}` given twice"
            got[k] = a
        out = []
        for pname, pty, default in params:
            if pty is None:
                return f"parameter `{pname}` of a type outside the subset"
            if pname in got:
                txt, t = got[pname]
                if t != pty:
                    return f"argument for `{pname} : {pty}` is of type {t}"
                out.append(txt)
            elif default is not None:
                if isinstance(default, ast.Constant) and isinstance(default.value, bool) and pty == BOOL:
                    out.append("true" if default.value else "false")
                else:
                    return f"default of `{pname}` needed"
            else:
                return f"parameter `{pname}` missing"
        return out

    # ---- statements
    def drop_ok(self, st) -> bool:
        return self.owner.droppable(self, st)

    def block(self, stmts, end) -> list[str]:
        """`end()` produces the lines for falling off the end of the statement list"""
        if not stmts:
            return end()
        st, rest = stmts[0], stmts[1:]
        cont = lambda: self.block(rest, end)
        if is_docstring(st) or isinstance(st, ast.Pass):
            return cont()
        if isinstance(st, ast.Return):
            if st.value is None:
                fail(st, "bare return")
            def build():
                txt, t = self.ex(st.value)
                return self.owner.ret(self, st, txt, t), (lambda: [])
            return self.with_binds(build)
        if isinstance(st, ast.Assert):
            def build():
                c = self.truth(st.test)
                return [f"if !{c} then none else"], cont
            return self.with_binds(build)
        if isinstance(st, ast.If):
            def build():
                c = self.truth(st.test)
                s = self.snapshot()
                a = self.block(list(st.body) + rest, end)
                self.restore(s)
                b = self.block(list(st.orelse) + rest, end)
                self.restore(s)
                return [f"if {c} then"] + ind(a) + ["else"] + ind(b), (lambda: [])
            if self.owner.droppable(self, st):
                return cont()
            return self.with_binds(build)
        if isinstance(st, ast.AnnAssign) and st.value is not None and isinstance(st.target, ast.Name):
            return self.assign(st, st.target, st.value, cont)
        if isinstance(st, ast.Assign) and len(st.targets) == 1:
            return self.assign(st, st.targets[0], st.value, cont)
        if isinstance(st, ast.Expr) and isinstance(st.value, ast.Call):
            if self.owner.droppable(self, st):
                return cont()
            def build():
                self.owner.event(self, st.value)
                return [], cont
            return self.with_binds(build)
        if self.owner.droppable(self, st):
            return cont()
        fail(st, "statement outside the subset")

    def assign(self, st, target, value, cont) -> list[str]:
        if self.owner.droppable(self, st):
            return cont()
        # self.f = e
        if self_attr(target):
            def build():
                return self.owner.set_field(self, st, target.attr, value), cont
            return self.with_binds(build)
        # x["key"] = e
        if isinstance(target, ast.Subscript) and is_name(target.value) and isinstance(target.slice, ast.Constant) \
                and target.slice.value in ("idxs", "weights"):
            def build():
                name = target.value.id
                if name not in self.sym or self.sym[name][1] != BATCH:
                    fail(st, "key write on something that is not a sampled batch")
                want = IDX if target.slice.value == "idxs" else WEIGHTS
                txt, t = self.ex(value)
                if t != want:
                    fail(st, f"`{target.slice.value}` entry of type {t}")
                old = self.sym[name][0]
                new = self.local(name)
                self.sym[name] = (new, BATCH)
                return [f"let {new} : {LEAN_TY[BATCH]} := {{ {old} with {target.slice.value} := some {txt} }}"], cont
            return self.with_binds(build)
        # tuple targets on agent.learn
        if isinstance(target, ast.Tuple):
            def build():
                txt, t = self.ex(value)
                if t != LEARNRET:
                    fail(st, "tuple assignment outside the subset")
                lines = []
                for pos, el in enumerate(target.elts):
                    if isinstance(el, ast.Starred):
                        if pos != len(target.elts) - 1 or not is_name(el.value):
                            fail(st, "starred target outside the subset")
                        continue
                    if not is_name(el):
                        fail(st, "tuple target outside the subset")
                    if pos == 0:
                        continue                                    # the loss: not part of the slice
                    if pos == 1:
                        nm = self.local(el.id)
                        self.sym[el.id] = (nm, OPTIDX)
                        lines.append(f"let {nm} : {LEAN_TY[OPTIDX]} := {txt}.idxs")
                    elif pos == 2:
                        nm = self.local(el.id)
                        self.sym[el.id] = (nm, PRIO)
                        lines.append(f"let {nm} : {LEAN_TY[PRIO]} := {txt}.priorities")
                    else:
                        fail(st, "more than three results of agent.learn")
                return lines, cont
            return self.with_binds(build)
        if isinstance(target, ast.Name):
            def build():
                txt, t = self.ex(value)
                if t == LEARNRET:                                   # `loss = agent.learn(…)`: only the event is kept
                    return [], cont
                nm = self.local(target.id)
                if t == NONE:
                    ty = self.owner.none_type(self, st, target.id)
                    self.sym[target.id] = (nm, ty)
                    return [f"let {nm} : {LEAN_TY[ty]} := none"], cont
                self.sym[target.id] = (nm, t)
                return [f"let {nm} : {LEAN_TY[t]} := {txt}"], cont
            return self.with_binds(build)
        fail(st, "assignment outside the subset")


# ================================================================================================ owners
class Owner:
    """what differs between the three sources (hooks called by Block)"""
    def droppable(self, blk, st) -> bool:
        return False

    def ret(self, blk, st, txt, t):
        fail(st, "return outside the subset")

    def event(self, blk, call):
        fail(call, "expression statement outside the subset")

    def set_field(self, blk, st, field, value):
        fail(st, "attribute assignment outside the subset")

    def none_type(self, blk, st, name):
        fail(st, "`None` bound to a name of unknown type")

    def check_size_property(self, n):
        pass

    def check_storage_property(self, n):
        pass

    def need_method(self, n, name):
        pass

    def sampler_ctor(self, blk, n):
        fail(n, "Sampler(…) outside the subset")

    def memory_call(self, blk, n):
        fail(n, "call outside the subset")

    def sampler_call(self, blk, n):
        fail(n, "call outside the subset")

    def learn_call(self, blk, n):
        fail(n, "call outside the subset")

    def nadd_call(self, blk, n):
        fail(n, "call outside the subset")


class BufferTr(Owner):
    """replay_buffer.py: class statements + the three sampling methods"""
    METHODS = (("ReplayBuffer", "sample"), ("MultiStepReplayBuffer", "sample_from_indices"),
               ("PrioritizedReplayBuffer", "sample"))

    def __init__(self, src: str):
        _file[0] = SRC_BUFFER
        self.tree = ast.parse(src)
        self.classes = {}
        for k in KINDS:
            c = find_class(self.tree, k)
            if c is None:
                raise Unsupported(f"{SRC_BUFFER}: class {k} not found")
            self.classes[k] = c
        self.parent = {}
        for k, c in self.classes.items():
            if len(c.bases) > 1 or c.keywords:
                fail(c, "multiple inheritance / metaclass outside the subset")
            b = ast.unparse(c.bases[0]) if c.bases else None
            if b is not None and b not in KINDS:
                fail(c, "base class outside the translated file")
            self.parent[k] = b
        for k in KINDS:                               # no cycles
            seen, x = set(), k
            while x is not None:
                if x in seen:
                    fail(self.classes[k], "cyclic class hierarchy")
                seen.add(x)
                x = self.parent[x]
        self.cur = None
        self.sigs = {}

    def mro(self, k):
        out = []
        while k is not None:
            out.append(k)
            k = self.parent[k]
        return out

    def resolve(self, kind: str, method: str):
        """class whose definition of `method` an instance of `kind` runs, or None"""
        for c in self.mro(kind):
            if find_method(self.classes[c], method) is not None:
                return c
        return None

    def check_size_property(self, n):
        self._check_property(n, "size", "_size")

    def check_storage_property(self, n):
        self._check_property(n, "storage", "_storage")

    def _check_property(self, n, prop, field):
        for c in self.mro(self.cur):
            fn = find_method(self.classes[c], prop)
            if fn is not None:
                body = [s for s in fn.body if not is_docstring(s)]
                ok = any(ast.unparse(d) == "property" for d in fn.decorator_list) and len(body) == 1 \
                    and isinstance(body[0], ast.Return) and self_attr(body[0].value, field)
                if not ok:
                    fail(fn, f"`{prop}` is not the plain property returning self.{field}")
                return
        fail(n, f"property `{prop}` not found")

    def need_method(self, n, name):
        if self.resolve(self.cur, name) is None:
            fail(n, f"method `{name}` not found")

    def ret(self, blk, st, txt, t):
        if t != BATCH:
            fail(st, f"return value of type {t}")
        return [f"some {txt}"]

    def emit(self) -> list[str]:
        out = ["/-! ### agilerl/components/replay_buffer.py -/", ""]
        out.append("/-- `isinstance(m, C)` by the class statements (`class X(Base)`) of replay_buffer.py -/")
        for k in KINDS:
            subs = [d for d in KINDS if k in self.mro(d)]
            out.append(f"def isinstance_{k} (k : MemKind) : Bool := " + " || ".join(f"k == MemKind.{d}" for d in subs))
        for k in FOREIGN_KINDS:
            out.append(f"def isinstance_{k} (k : MemKind) : Bool := k == MemKind.{k}")
        out.append("")
        for cls, name in self.METHODS:
            fn = find_method(self.classes[cls], name)
            if fn is None:
                raise Unsupported(f"{SRC_BUFFER}: {cls}.{name} not found")
            self.cur = cls
            sig = Sig(fn)
            self.sigs[(cls, name)] = sig
            blk = Block(self, f"{cls}_{name}")
            blk.sym["self"] = ("self", MEM)
            params = []
            for pname, pty, _ in sig.params:
                if pty is None:
                    fail(fn, f"parameter `{pname}` of a type outside the subset")
                blk.sym[pname] = (pname, pty)
                params.append(f"({pname} : {LEAN_TY[pty]})")
            body = blk.block(list(fn.body), lambda: fail(fn, "method may end without return") or [])
            out.append(f"/-- `{cls}.{name}` (source line {fn.lineno}) -/")
            out.append(f"def {cls}_{name} {{α β ω : Type}} (self : Mem α) (env : Env β ω) " + " ".join(params)
                       + " : Option (Batch α ω) :=")
            out += ind(body)
            out.append("")
        return out


class SamplerTr(Owner):
    """sampler.py: Sampler.__init__ and the sampling methods it installs"""
    SLICED = ("distributed", "per", "n_step", "memory", "sample")
    UNSLICED = ("dataset", "dataloader")

    def __init__(self, src: str, buf: BufferTr):
        _file[0] = SRC_SAMPLER
        self.buf = buf
        self.tree = ast.parse(src)
        self.cls = find_class(self.tree, "Sampler")
        if self.cls is None:
            raise Unsupported(f"{SRC_SAMPLER}: class Sampler not found")
        if self.cls.bases:
            fail(self.cls, "Sampler with base classes")
        self.init = find_method(self.cls, "__init__")
        if self.init is None:
            raise Unsupported(f"{SRC_SAMPLER}: Sampler.__init__ not found")
        # the methods `self.sample` may be bound to, in order of first assignment
        self.modes = []
        for node in ast.walk(self.init):
            if isinstance(node, (ast.Assign, ast.AnnAssign)):
                tg = node.targets if isinstance(node, ast.Assign) else [node.target]
                for t in tg:
                    if self_attr(t, "sample"):
                        v = node.value
                        if not (self_attr(v) and find_method(self.cls, v.attr) is not None):
                            fail(node, "`self.sample` bound to something that is not a method of Sampler")
                        if v.attr not in self.modes:
                            self.modes.append(v.attr)
        if not self.modes:
            fail(self.init, "`self.sample` is never bound")
        for node in ast.walk(self.cls):
            if node is not self.init and isinstance(node, ast.FunctionDef):
                for sub in ast.walk(node):
                    if isinstance(sub, (ast.Assign, ast.AugAssign, ast.AnnAssign)):
                        tg = sub.targets if isinstance(sub, ast.Assign) else [sub.target]
                        for t in tg:
                            if self_attr(t) and t.attr in self.SLICED:
                                fail(sub, "a sampler field written outside __init__")
        self.translated = {}          # method name -> Sig, for the methods inside the subset
        self.in_init = False

    # ---- __init__
    def droppable(self, blk, st) -> bool:
        if not self.in_init:
            return False
        if isinstance(st, ast.Expr) and isinstance(st.value, ast.Call) and ast.unparse(st.value.func) == "warnings.warn":
            return True
        if isinstance(st, (ast.Assign, ast.AnnAssign)):
            tg = st.targets if isinstance(st, ast.Assign) else [st.target]
            if all(self_attr(t) and t.attr in self.UNSLICED for t in tg):
                v = st.value
                if is_name(v) or (isinstance(v, ast.Call) and self_attr(v.func) and all(is_name(a) for a in v.args)
                                  and not v.keywords):
                    return True
            return False
        if isinstance(st, ast.If):
            return all(self.droppable(blk, s) for s in list(st.body) + list(st.orelse))
        return False

    def set_field(self, blk, st, field, value):
        if field not in self.SLICED:
            fail(st, "assignment to a sampler attribute outside the slice")
        if field == "sample":
            blk.fields["sample"] = (f"Mode.{value.attr}", "mode")
            return []
        txt, t = blk.ex(value)
        want = MEM if field == "memory" else BOOL
        if t != want:
            fail(st, f"self.{field} of type {t}")
        blk.fields[field] = (f"self_{field}", t)
        return [f"let self_{field} : {LEAN_TY[t]} := {txt}"]

    def emit(self) -> list[str]:
        out = ["/-! ### agilerl/components/sampler.py -/", ""]
        out.append("/-- the methods `Sampler.__init__` binds `self.sample` to -/")
        out.append("inductive Mode where")
        out.append("  " + " ".join(f"| {m}" for m in self.modes))
        out.append("deriving DecidableEq, Repr")
        out.append("")
        out.append("/-- the attributes of a `Sampler` that the sampling methods read -/")
        out.append("structure Sampler (α : Type) where")
        out += ["  distributed : Bool", "  per : Bool", "  n_step : Bool", "  memory : Mem α", "  sample : Mode", ""]
        # __init__
        fn = self.init
        sig = Sig(fn)
        names = [p[0] for p in sig.params]
        if names != ["memory", "dataset", "dataloader"]:
            fail(fn, "parameters of Sampler.__init__ outside the subset")
        for p in sig.params:
            if not is_none(p[2]):
                fail(fn, "default of a Sampler.__init__ parameter is not None")
        blk = Block(self, "Sampler_init")
        blk.sym["memory"] = ("memory", MEM)
        blk.sym["dataset"] = ("dataset", BOOL)
        blk.sym["dataloader"] = ("dataloader", DL)
        self.in_init = True

        def end():
            missing = [f for f in self.SLICED if f not in blk.fields]
            if missing:
                fail(fn, f"a path through __init__ leaves {missing} unset")
            return ["some { " + ", ".join(f"{f} := {blk.fields[f][0]}" for f in self.SLICED) + " }"]
        body = blk.block(list(fn.body), end)
        self.in_init = False
        out.append(f"/-- `Sampler.__init__` (source line {fn.lineno}); `none` = the assert fails -/")
        out.append("def Sampler_init {α : Type} (memory : Mem α) (dataset : Bool) (dataloader : DLKind) : Option (Sampler α) :=")
        out += ind(body)
        out.append("")
        # the sampling methods
        for m in self.modes:
            fn = find_method(self.cls, m)
            try:
                sig = Sig(fn)
                blk = Block(self, f"Sampler_{m}")
                blk.sym["self"] = ("self", SAMPLER)
                params = []
                for pname, pty, _ in sig.params:
                    if pty is None:
                        fail(fn, f"parameter `{pname}` of a type outside the subset")
                    blk.sym[pname] = (pname, pty)
                    params.append(f"({pname} : {LEAN_TY[pty]})")
                self.pnames = {p[0] for p in sig.params}
                body = blk.block(list(fn.body), lambda: fail(fn, "method may end without return") or [])
            except Unsupported as e:
                if m in ("sample_standard", "sample_per", "sample_n_step"):
                    raise
                out.append(f"-- `Sampler.{m}` (source line {fn.lineno}) is outside the subset ({str(e).split(': ', 1)[-1][:80]}):")
                out.append("-- a sampler in this mode answers `none`")
                out.append("")
                continue
            self.translated[m] = sig
            out.append(f"/-- `Sampler.{m}` (source line {fn.lineno}) -/")
            out.append(f"def Sampler_{m} {{α β ω : Type}} (self : Sampler α) (env : Env β ω) " + " ".join(params)
                       + " : Option (Batch α ω) :=")
            out += ind(body)
            out.append("")
        for m in ("sample_standard", "sample_per", "sample_n_step"):
            if m not in self.translated:
                raise Unsupported(f"{SRC_SAMPLER}: `self.sample` is never bound to Sampler.{m}")
        return out

    # ---- sampling methods
    def assign_param(self, blk, st):
        pass

    def ret(self, blk, st, txt, t):
        if t != BATCH:
            fail(st, f"return value of type {t}")
        return [f"some {txt}"]

    def memory_call(self, blk, n: ast.Call):
        """`self.memory.m(args)`: dispatch over the class of the memory"""
        m = n.func.attr
        args = [blk.ex(a) for a in n.args]
        kwargs = {}
        for kw in n.keywords:
            if kw.arg is None:
                fail(n, "`**` argument")
            kwargs[kw.arg] = blk.ex(kw.value)
        mem = f"{blk.sym['self'][0]}.memory"
        if blk.ndraw > 0:
            fail(n, "a second call that draws random numbers on one path of a sampler method (the draws of the two "
                    "calls would have to be told apart)")
        blk.ndraw += 1
        alts = []
        for k in ("none",) + KINDS + FOREIGN_KINDS + ("other",):
            if k not in KINDS:
                alts.append((k, None, "outside the classes of replay_buffer.py"))
                continue
            c = self.buf.resolve(k, m)
            if c is None:
                alts.append((k, None, f"no method `{m}`"))
                continue
            if (c, m) not in self.buf.sigs:
                alts.append((k, None, f"`{c}.{m}` is outside the subset"))
                continue
            bound = blk.bind_args(n, self.buf.sigs[(c, m)], args, kwargs)
            if isinstance(bound, str):
                alts.append((k, None, f"`{c}.{m}`: {bound}"))
            else:
                alts.append((k, f"{c}_{m} {mem} env " + " ".join(bound), None))
        if not any(a[1] for a in alts):
            fail(n, "no class of replay_buffer.py accepts this call")
        blk.owner_notes = getattr(blk, "owner_notes", [])
        txt = f"(match {mem}.kind with " + " ".join(
            f"| MemKind.{k} => {call if call else 'none'}" for k, call, _ in alts) + ")"
        self.last_reasons = [(k, why) for k, _, why in alts if why]
        return blk.bind(txt), BATCH

    def assign_ok(self):
        return True


class TrainTr(Owner):
    """train_off_policy.py: SETUP, STORE, LEARN"""
    flowing: set = set()

    def __init__(self, src: str, smp: SamplerTr):
        _file[0] = SRC_TRAIN
        self.smp = smp
        self.tree = ast.parse(src)
        fns = [s for s in self.tree.body if isinstance(s, ast.FunctionDef) and s.name == "train_off_policy"]
        if len(fns) != 1:
            raise Unsupported(f"{SRC_TRAIN}: function train_off_policy not found")
        self.fn = fns[0]
        pnames = [a.arg for a in self.fn.args.args + self.fn.args.kwonlyargs]
        for p in ("memory", "n_step_memory", "per", "accelerator"):
            if p not in pnames:
                fail(self.fn, f"parameter `{p}` not found")
        self.mode = None

    # ---- location by structure
    @staticmethod
    def contains_call(node, recv: str, attr: str) -> bool:
        for sub in ast.walk(node):
            if isinstance(sub, ast.Call) and isinstance(sub.func, ast.Attribute) and sub.func.attr == attr \
                    and is_name(sub.func.value, recv):
                return True
        return False

    def outermost(self, pred):
        found = []

        def visit(stmts):
            for st in stmts:
                if isinstance(st, ast.If) and pred(st):
                    found.append(st)
                    continue
                for fld in ("body", "orelse", "finalbody"):
                    sub = getattr(st, fld, None)
                    if isinstance(sub, list):
                        visit(sub)
                if isinstance(st, ast.Try):
                    for h in st.handlers:
                        visit(h.body)
        visit(self.fn.body)
        return found

    # ---- hooks
    def droppable(self, blk, st) -> bool:
        """a statement that binds nothing of the slice and hides no event"""
        if isinstance(st, ast.If) and self.mode == "learn":
            if not all(self.droppable(blk, s) for s in list(st.body) + list(st.orelse)):
                return False
            return True
        if isinstance(st, (ast.Assign, ast.AnnAssign, ast.AugAssign)) and self.mode == "learn":
            # droppable iff it binds only names that never flow into a call of the block (`loss`) from a call-free
            # value that reads no such name either
            tg = st.targets if isinstance(st, ast.Assign) else [st.target]
            names = []
            for t in tg:
                for x in ast.walk(t):
                    if isinstance(x, ast.Name):
                        names.append(x.id)
                    elif not isinstance(x, (ast.Tuple, ast.Starred, ast.Store, ast.Load)):
                        return False
            if any(nm in self.flowing for nm in names):
                return False
            for x in ast.walk(st.value):
                if isinstance(x, ast.Call):
                    return False
                if isinstance(x, ast.Name) and x.id in self.flowing:
                    return False
            return True
        return False

    def none_type(self, blk, st, name):
        # the only values of the slice that may be `None`: the n-step batch (learn blocks), the n-step sampler (set-up);
        # a wrong guess cannot go unnoticed: the use of the name is type-checked (`coerce`)
        if self.mode == "learn":
            return OPTBATCH
        if self.mode == "setup":
            return OPTSAMPLER
        fail(st, "`None` bound to a name of unknown type")

    def sampler_ctor(self, blk, n: ast.Call):
        if n.args or [k.arg for k in n.keywords] != ["memory"]:
            fail(n, "Sampler(…) with arguments other than `memory=`")
        txt, t = blk.ex(n.keywords[0].value)
        if t != MEM:
            fail(n, f"Sampler(memory=…) of a value of type {t}")
        return blk.bind(f"Sampler_init {txt} false DLKind.none"), SAMPLER

    def sampler_call(self, blk, n: ast.Call):
        recv = n.func.value.id
        stxt, st_ty = blk.sym[recv]
        if st_ty == OPTSAMPLER:
            stxt = blk.bind(stxt)                       # unbound / None sampler
        args = [blk.ex(a) for a in n.args]
        kwargs = {}
        for kw in n.keywords:
            if kw.arg is None:
                fail(n, "`**` argument")
            kwargs[kw.arg] = blk.ex(kw.value)
        alts = []
        blk.ndraw += 1                                   # every sampling call has its own draws
        envk = f"(env {blk.ndraw - 1})"
        for m in self.smp.modes:
            if m not in self.smp.translated:
                alts.append((m, None))
                continue
            bound = blk.bind_args(n, self.smp.translated[m], args, kwargs)
            alts.append((m, None if isinstance(bound, str) else f"Sampler_{m} {stxt} {envk} " + " ".join(bound)))
        if not any(c for _, c in alts):
            fail(n, "no sampling method accepts this call")
        txt = f"(match {stxt}.sample with " + " ".join(f"| Mode.{m} => {c if c else 'none'}" for m, c in alts) + ")"
        return blk.bind(txt), BATCH

    def learn_call(self, blk, n: ast.Call):
        params = [("experiences", BATCH), ("n_experiences", OPTBATCH), ("per", BOOL)]
        got = {}
        if len(n.args) > 3:
            fail(n, "arguments of agent.learn")
        for (p, _), a in zip(params, n.args):
            got[p] = a
        for kw in n.keywords:
            if kw.arg not in [p for p, _ in params] or kw.arg in got:
                fail(n, "arguments of agent.learn")
            got[kw.arg] = kw.value
        if "experiences" not in got:
            fail(n, "agent.learn without experiences")
        e = blk.coerce(blk.ex(got["experiences"]), BATCH, n)
        ne = blk.coerce(blk.ex(got["n_experiences"]), OPTBATCH, n) if "n_experiences" in got else "none"
        pr = blk.coerce(blk.ex(got["per"]), BOOL, n) if "per" in got else "false"
        blk.calls.append(f"{{ experiences := {e}, n_experiences := {ne}, per := {pr} }}")
        l = f"l{blk.nbind}"
        blk.nbind += 1
        blk.binds.append((f"learn {e} {ne} {pr}", l))
        return l, LEARNRET

    def nadd_call(self, blk, n: ast.Call):
        if len(n.args) != 1 or n.keywords:
            fail(n, "arguments of n_step_memory.add")
        t, ty = blk.ex(n.args[0])
        if ty != TRANS:
            fail(n, f"n_step_memory.add of a value of type {ty}")
        st = blk.sym["n_step_state"][0]
        r = blk.bind(f"nAdd {st} {t}")
        blk.sym["n_step_state"] = (f"{r}.1", "state")
        return f"{r}.2", OPTTRANS

    def event(self, blk, call: ast.Call):
        f = call.func
        if isinstance(f, ast.Attribute) and is_name(f.value, "memory"):
            if f.attr == "update_priorities" and self.mode == "learn" and len(call.args) == 2 and not call.keywords:
                i = blk.coerce(blk.ex(call.args[0]), OPTIDX, call)
                p = blk.coerce(blk.ex(call.args[1]), PRIO, call)
                blk.updates.append(f"({i}, {p})")
                return
            if f.attr == "add" and self.mode == "store" and len(call.args) == 1 and not call.keywords:
                t, ty = blk.ex(call.args[0])
                if ty != TRANS:
                    fail(call, f"memory.add of a value of type {ty}")
                blk.added.append(t)
                return
        if isinstance(f, ast.Attribute) and is_name(f.value, "agent") and f.attr == "learn":
            blk.ex(call)
            return
        fail(call, "expression statement outside the subset")

    # ---- the three groups
    def emit(self) -> list[str]:
        out = ["/-! ### agilerl/training/train_off_policy.py -/", ""]
        out += self.emit_setup()
        out += self.emit_store()
        out += self.emit_learn()
        return out

    def emit_setup(self):
        def pred(st):
            return ast.unparse(st.test) == "accelerator is not None" and any(
                isinstance(x, ast.Call) and is_name(x.func, "Sampler") for s in st.orelse for x in ast.walk(s))
        found = self.outermost(pred)
        if len(found) != 1:
            fail(self.fn, f"{len(found)} statements create the samplers (expected one `if accelerator is not None: … else:`)")
        st = found[0]
        self.mode = "setup"
        blk = Block(self, "setup")
        blk.sym["memory"] = ("memory", MEM)
        blk.sym["n_step_memory"] = ("n_step_memory", OPTMEM)
        blk.names = {"sampler": "v0", "n_step_sampler": "v1"}

        def end():
            if "sampler" not in blk.sym:
                fail(st, "a path leaves `sampler` unbound")
            s = blk.sym["sampler"][0]
            ns = blk.coerce(blk.sym["n_step_sampler"], OPTSAMPLER, st) if "n_step_sampler" in blk.sym else "none"
            return [f"some ({s}, {ns})"]
        body = self.block_with_optmem(blk, list(st.orelse), end)
        return [f"/-- SETUP: the `accelerator is None` branch of the statement at source line {st.lineno}: the samplers "
                "of the 1-step and of the n-step buffer -/",
                "def setup {α : Type} (memory : Mem α) (n_step_memory : Option (Mem α)) : "
                "Option (Sampler α × Option (Sampler α)) :="] + ind(body) + [""]

    def block_with_optmem(self, blk: Block, stmts, end):
        """`if n_step_memory is not None:` opens the Option (the memory itself is used inside)"""
        owner = self
        orig_block = blk.block

        def block(stmts, end):
            if stmts and isinstance(stmts[0], ast.If) and ast.unparse(stmts[0].test) == "n_step_memory is not None" \
                    and blk.sym.get("n_step_memory", ("", ""))[1] == OPTMEM:
                st, rest = stmts[0], stmts[1:]
                s = blk.snapshot()
                blk.sym["n_step_memory"] = ("nm", MEM)
                blk.nonnull.add("n_step_memory")
                a = block(list(st.body) + rest, end)
                blk.restore(s)
                blk.sym["n_step_memory"] = ("none", NONE)
                b = block(list(st.orelse) + rest, end)
                blk.restore(s)
                return ["match n_step_memory with", "| some nm =>"] + ind(a) + ["| none =>"] + ind(b)
            return orig_block(stmts, end)
        blk.block = block
        return block(stmts, end)

    def emit_store(self):
        def pred(st):
            return ast.unparse(st.test) == "n_step_memory is not None" and self.contains_call(st, "n_step_memory", "add")
        found = self.outermost(pred)
        if len(found) != 1:
            fail(self.fn, f"{len(found)} statements store into the n-step memory (expected one)")
        st = found[0]
        self.mode = "store"
        blk = Block(self, "store_block")
        blk.sym["transition"] = ("transition", TRANS)
        blk.sym["nAdd"] = ("nAdd", "fn")
        blk.sym["n_step_state"] = ("n_step_memory", "state")
        blk.sym["n_step_memory"] = ("n_step_memory", "optstate")
        orig_block = blk.block

        def block(stmts, end):
            if stmts and isinstance(stmts[0], ast.If):
                s0, rest = stmts[0], stmts[1:]
                test = ast.unparse(s0.test)
                if test == "n_step_memory is not None" and blk.sym["n_step_memory"][1] == "optstate":
                    s = blk.snapshot()
                    blk.sym["n_step_memory"] = ("ns", "state")
                    blk.sym["n_step_state"] = ("ns", "state")
                    a = block(list(s0.body) + rest, end)
                    blk.restore(s)
                    blk.sym["n_step_state"] = ("none", "nostate")
                    blk.sym.pop("nAdd")
                    b = block(list(s0.orelse) + rest, end)
                    blk.restore(s)
                    return ["match n_step_memory with", "| some ns =>"] + ind(a) + ["| none =>"] + ind(b)
                # `if x is not None:` on the result of n_step_memory.add
                if isinstance(s0.test, ast.Compare) and len(s0.test.ops) == 1 and is_none(s0.test.comparators[0]) \
                        and isinstance(s0.test.ops[0], (ast.Is, ast.IsNot)) and is_name(s0.test.left) \
                        and blk.sym.get(s0.test.left.id, ("", ""))[1] == OPTTRANS:
                    nm = s0.test.left.id
                    txt = blk.sym[nm][0]
                    s = blk.snapshot()
                    blk.sym[nm] = ("one", TRANS)
                    a = block((list(s0.body) if isinstance(s0.test.ops[0], ast.IsNot) else list(s0.orelse)) + rest, end)
                    blk.restore(s)
                    blk.sym[nm] = ("none", NONE)
                    b = block((list(s0.orelse) if isinstance(s0.test.ops[0], ast.IsNot) else list(s0.body)) + rest, end)
                    blk.restore(s)
                    return [f"match {txt} with", "| some one =>"] + ind(a) + ["| none =>"] + ind(b)
            return orig_block(stmts, end)
        blk.block = block

        def end():
            stt = blk.sym["n_step_state"]
            s = "none" if stt[1] == "nostate" else f"some {stt[0]}"
            return [f"some ({s}, [" + ", ".join(blk.added) + "])"]
        body = block([st], end)
        return [f"/-- STORE: the statement at source line {st.lineno}; returns the n-step buffer afterwards and the "
                "records handed to `memory.add`, in order -/",
                "def store_block {σ τ : Type} (n_step_memory : Option σ) (nAdd : σ → τ → Option (σ × Option τ)) "
                "(transition : τ) : Option (Option σ × List τ) :="] + ind(body) + [""]

    def emit_learn(self):
        def pred(st):
            return is_name(st.test, "per") and self.contains_call(st, "agent", "learn")
        found = self.outermost(pred)
        if not found:
            fail(self.fn, "no `if per:` statement with an `agent.learn(…)` call found")
        self.mode = "learn"
        texts, lines_of = [], []
        for st in found:
            # every name that is read inside a call of the block (receiver, argument, keyword)
            self.flowing = {x.id for c in ast.walk(st) if isinstance(c, ast.Call) for x in ast.walk(c)
                            if isinstance(x, ast.Name)} | {"per", "memory", "n_step_memory", "sampler", "n_step_sampler"}
            blk = Block(self, "learn_block")
            blk.sym["per"] = ("per", BOOL)
            blk.sym["memory"] = ("memory", MEM)
            blk.sym["n_step_memory"] = ("n_step_memory", OPTMEM)
            blk.sym["sampler"] = ("sampler", SAMPLER)
            blk.sym["n_step_sampler"] = ("n_step_sampler", OPTSAMPLER)
            blk.sym["agent"] = ("agent", "agent")

            def end(blk=blk, st=st):
                if len(blk.calls) != 1:
                    fail(st, f"{len(blk.calls)} agent.learn calls on one path (expected one)")
                return ["some { calls := [" + ", ".join(blk.calls) + "], updates := [" + ", ".join(blk.updates) + "] }"]
            body = self.block_with_optmem(blk, [st], end)
            if body in texts:
                lines_of[texts.index(body)].append(st.lineno)
            else:
                texts.append(body)
                lines_of.append([st.lineno])
        out = []
        for k, (body, lns) in enumerate(zip(texts, lines_of)):
            out.append(f"/-- LEARN: the `if per:` statement at source line{'s' if len(lns) > 1 else ''} "
                       f"{', '.join(map(str, lns))}: which sampler is called with which arguments, what `agent.learn` "
                       "receives, what `memory.update_priorities` receives -/")
            out.append(f"def learn_block_{k} {{α β ω π : Type}} (per : Bool) (memory : Mem α) (n_step_memory : Option (Mem α)) "
                       "(sampler : Sampler α) (n_step_sampler : Option (Sampler α)) (env : Nat → Env β ω) (batch_size : Nat) "
                       "(beta : β)")
            out.append("    (learn : Batch α ω → Option (Batch α ω) → Bool → LearnRet π) : Option (BlockOut α ω π) :=")
            out += ind(body)
            out.append("")
        out.append("/-- every distinct translation of a learn block, in source order -/")
        out.append("def learn_blocks {α β ω π : Type} : List (Bool → Mem α → Option (Mem α) → Sampler α → Option (Sampler α) → "
                   "(Nat → Env β ω) → Nat → β →")
        out.append("    (Batch α ω → Option (Batch α ω) → Bool → LearnRet π) → Option (BlockOut α ω π)) :=")
        out.append("  [" + ", ".join(f"learn_block_{k}" for k in range(len(texts))) + "]")
        out.append("")
        return out


# ================================================================================================ interface
def repo_dir(arg: str | None = None) -> Path:
    if arg:
        return Path(arg)
    return Path(os.environ.get("VERIF_REPO", "/repo"))


def translate(repo: Path) -> tuple[str, str]:
    """returns (lean text, sha256 of the sources); raises Unsupported"""
    raws = []
    for rel in REL_SOURCES:
        path = Path(repo) / rel
        try:
            raws.append(path.read_bytes())
        except OSError as e:
            raise Unsupported(f"cannot read {path}: {e}") from e
    sha = hashlib.sha256(b"\0".join(raws)).hexdigest()
    try:
        buf = BufferTr(raws[0].decode("utf-8"))
        part_a = buf.emit()
        smp = SamplerTr(raws[1].decode("utf-8"), buf)
        part_b = smp.emit()
        trn = TrainTr(raws[2].decode("utf-8"), smp)
        part_c = trn.emit()
    except SyntaxError as e:
        raise Unsupported(f"{_file[0]}:{e.lineno}: not parseable: {e.msg}") from e
    except RecursionError as e:
        raise Unsupported(f"{_file[0]}: nesting too deep") from e
    header = "\n".join([
        "/-",
        "  Gen/SamplerGen.lean — GENERATED by harness/py2lean_sampler.py from",
        f"  {REL_SOURCE}",
        "  (ReplayBuffer.sample, MultiStepReplayBuffer.sample_from_indices, PrioritizedReplayBuffer.sample, the class",
        "  statements; Sampler.__init__ / sample_standard / sample_per / sample_n_step; the sampler set-up, the storing",
        "  statements and the `if per:` learn blocks of train_off_policy); do not edit.  Core Lean only.",
        "  `Proofs/SamplerGenEq.lean` proves the definitions equal to their counterparts in `Model/NStep.lean`.",
        "-/",
        SHA_PREFIX + sha,
        "set_option linter.unusedVariables false",
        "",
    ])
    body = "\n".join([PRELUDE] + part_a + part_b + part_c + ["end SamplerGen", ""])
    return header + "\n" + body, sha


def strip_sha(text: str) -> str:
    return "\n".join(ln for ln in text.split("\n") if not ln.startswith(SHA_PREFIX))


def write_if_changed(text: str, out: Path, force: bool = False) -> bool:
    """writes `text` unless the file already holds the same translation (sha line ignored)"""
    out = Path(out)
    old = out.read_text() if out.exists() else None
    if old is not None and not force and strip_sha(old) == strip_sha(text):
        return False
    if old == text:
        return False
    out.parent.mkdir(parents=True, exist_ok=True)
    tmp = out.with_suffix(".lean.tmp")
    tmp.write_text(text)
    os.replace(tmp, out)
    return True


def main(argv: list[str]) -> int:
    import argparse
    ap = argparse.ArgumentParser()
    ap.add_argument("--repo", default=None)
    ap.add_argument("--out", default=str(DEFAULT_OUT))
    ap.add_argument("--stdout", action="store_true")
    ap.add_argument("--force", action="store_true", help="rewrite even if only the sha256 line differs")
    a = ap.parse_args(argv)
    try:
        text, sha = translate(repo_dir(a.repo))
    except Unsupported as e:
        print(f"py2lean_sampler: {e}", file=sys.stderr)
        return 1
    if a.stdout:
        sys.stdout.write(text)
        return 0
    changed = write_if_changed(text, Path(a.out), a.force)
    print(f"{a.out}: {'written' if changed else 'unchanged'} (source sha256 {sha[:16]}…, "
          f"translation sha256 {hashlib.sha256(strip_sha(text).encode()).hexdigest()[:16]}…)")
    return 0


if __name__ == "__main__":
    sys.exit(main(sys.argv[1:]))
