#!/usr/bin/env python3
"""
py2lean_segtree.py — translate REPO/agilerl/components/segment_tree.py into Lean 4.

    python3 harness/py2lean_segtree.py [--repo DIR] [--out FILE] [--stdout] [--force]

Reads the *source text* only (Python `ast`; agilerl is never imported) and writes
lean/Gen/SegTreeGen.lean (namespace SegTreeGen, core Lean only).  `Proofs/SegTreeGenEq.lean` proves
that every generated definition equals the hand-written model function of `Model/SegTree.lean`,
so the C11 theorems are re-checked against what the code says now.

Supported subset (anything else: exit 1 with a message naming the construct and its line):
  * module level: docstring, `import operator`, `from typing import …`, the three classes
    `SegmentTree`, `SumSegmentTree(SegmentTree)`, `MinSegmentTree(SegmentTree)`;
  * fields `self.capacity` (int), `self.tree` (list), `self.operation` (binary callable);
  * `SegmentTree.__init__`: one `assert`, `self.capacity = <param>`, `self.operation = <param>`,
    `self.tree = [<param> for _ in range(<int expr>)]`;
    subclass `__init__`: exactly `super().__init__(capacity, operation, init_value)` with
    operation `operator.add` (init_value a finite float) or `min` (init_value `float("inf")`);
  * parameters annotated `int` (→ Nat; indices are natural numbers) or `float` (→ the element type:
    `α` in the base class, `Rat` in the sum tree, `Option Rat` with `none` = +inf in the min tree),
    integer defaults;
  * statements: docstring, `x = e`, `x op= e` (normalised to `x = x op e`), `self.tree[e] = e`,
    `assert e[, msg]`, `return e`, `if / elif / else`, one level of `while` (no else/break/continue);
  * expressions: int / float literals, names, `self.capacity`, `self.tree[e]`, `self.operation(a, b)`,
    `+ - * // &`, comparisons (chained), `and / or / not`, calls `self.m(…)` / `super().m(…)` of
    translated methods (positional / keyword / default arguments), direct recursion.

Shape of the output (designed so that the equality proofs are `induction fuel` + `simp`):
  * every method becomes `Class.method (op) (d) (cap) (tree) [fuel] args`; `d` is the value read
    outside the list (never happens on reachable states; Python would raise IndexError);
  * a method that mutates `self.tree` and returns nothing returns the new list;
  * a `while` loop becomes `Class.method_loopN` by structural recursion on `fuel` (out of fuel: the
    current state), carrying the variables defined before the loop that it reads or writes and
    returning the one it writes that is still needed afterwards;
  * a recursive method recurses on `fuel` (out of fuel: `none`);
  * `assert c` becomes `if c then … else none`; methods with an assertion / recursion / a call of
    such a method return `Option`; such calls are bound (`match … with | none => none | some r =>`)
    in evaluation order before the statement that uses them (they are pure);
  * Python locals are renamed canonically: parameters `a0, a1, …`, locals `v0, v1, …` in order of
    first assignment, bound calls `r0, r1, …`.
The header carries the sha256 of the source file the text was generated from; `write_if_changed`
compares everything *but* that line, so a refactoring that leaves the translation unchanged does
not touch the file (and lake does not rebuild).
"""
from __future__ import annotations

import ast
import hashlib
import os
import sys
from pathlib import Path

HERE = Path(__file__).resolve().parent
DEFAULT_OUT = HERE.parent / "lean" / "Gen" / "SegTreeGen.lean"
REL_SOURCE = "agilerl/components/segment_tree.py"
SHA_PREFIX = "-- sha256(source) = "


class Unsupported(Exception):
    pass


def fail(node, what: str):
    line = getattr(node, "lineno", "?")
    raise Unsupported(f"{REL_SOURCE}:{line}: unsupported construct: {what}")


METHOD_NAMES = {"__init__": "init", "__setitem__": "setitem", "__getitem__": "getitem"}
BINOPS = {ast.Add: "+", ast.Sub: "-", ast.Mult: "*", ast.FloorDiv: "/", ast.BitAnd: "&&&"}
CMPOPS = {ast.Eq: "=", ast.NotEq: "≠", ast.Lt: "<", ast.LtE: "≤", ast.Gt: ">", ast.GtE: "≥"}
INT, ELEM, NUM, BOOL = "int", "elem", "num", "bool"


def lean_name(py: str) -> str:
    return METHOD_NAMES.get(py, py.lstrip("_"))


def ind(lines: list[str], n: int = 2) -> list[str]:
    return [" " * n + ln for ln in lines]


def is_docstring(st) -> bool:
    return isinstance(st, ast.Expr) and isinstance(st.value, ast.Constant) and isinstance(st.value.value, str)


# ----------------------------------------------------------------------------------------------
class ClassInfo:
    def __init__(self, node: ast.ClassDef, base: "ClassInfo | None"):
        self.node, self.base, self.name = node, base, node.name
        self.elem = "α"                      # element type of `tree`
        self.methods: dict[str, ast.FunctionDef] = {}
        for st in node.body:
            if is_docstring(st):
                continue
            if not isinstance(st, ast.FunctionDef):
                fail(st, f"{type(st).__name__} in class body of {node.name}")
            if st.decorator_list:
                fail(st, f"decorator on {node.name}.{st.name}")
            self.methods[st.name] = st

    def lookup(self, m: str):
        c = self
        while c is not None:
            if m in c.methods:
                return c, c.methods[m]
            c = c.base
        return None


class Sig:
    """what callers need to know about a translated method"""

    def __init__(self):
        self.params: list[tuple[str, str, object]] = []    # (python name, type, default text or None)
        self.option = False
        self.fuel = False
        self.recursive = False
        self.returns_tree = False
        self.ret_type = None


# ----------------------------------------------------------------------------------------------
class Translator:
    def __init__(self, src: str):
        self.src = src
        self.mod = ast.parse(src)
        self.classes: dict[str, ClassInfo] = {}
        self.sigs: dict[tuple[str, str], Sig] = {}
        self.out: list[str] = []

    # ------------------------------------------------------------------ module level
    def run(self) -> str:
        for st in self.mod.body:
            if is_docstring(st):
                continue
            if isinstance(st, ast.Import):
                if [a.name for a in st.names] != ["operator"] or st.names[0].asname:
                    fail(st, "import other than `import operator`")
                continue
            if isinstance(st, ast.ImportFrom):
                if st.module != "typing":
                    fail(st, f"from {st.module} import …")
                continue
            if isinstance(st, ast.ClassDef):
                if st.decorator_list or st.keywords:
                    fail(st, f"decorator / keyword on class {st.name}")
                bases = [b.id if isinstance(b, ast.Name) else fail(b, "class base expression") for b in st.bases]
                if st.name == "SegmentTree" and not bases:
                    self.classes[st.name] = ClassInfo(st, None)
                elif st.name in ("SumSegmentTree", "MinSegmentTree") and bases == ["SegmentTree"] \
                        and "SegmentTree" in self.classes:
                    self.classes[st.name] = ClassInfo(st, self.classes["SegmentTree"])
                else:
                    fail(st, f"class {st.name}({', '.join(bases)})")
                continue
            fail(st, f"module-level {type(st).__name__}")
        for need in ("SegmentTree", "SumSegmentTree", "MinSegmentTree"):
            if need not in self.classes:
                raise Unsupported(f"{REL_SOURCE}: class {need} not found")
        base = self.classes["SegmentTree"]
        for m in ("__init__", "__setitem__", "__getitem__", "_operate_helper", "operate"):
            if m not in base.methods:
                raise Unsupported(f"{REL_SOURCE}: method SegmentTree.{m} not found")
        self.emit_prelude()
        self.subclass_inits()                         # fixes the element types
        self.compute_sigs()
        self.out += ["section", "variable {α : Type}", ""]
        self.emit_base_init(base)
        for name, fn in base.methods.items():
            if name != "__init__":
                self.emit_method(base, fn)
        self.out += ["end", ""]
        for cname in ("SumSegmentTree", "MinSegmentTree"):
            ci = self.classes[cname]
            self.emit_subclass_init(ci)
            for name, fn in ci.methods.items():
                if name != "__init__":
                    self.emit_method(ci, fn)
        body = "\n".join(self.out).rstrip() + "\n\nend SegTreeGen\n"
        return body

    def emit_prelude(self):
        self.out += [
            "namespace SegTreeGen",
            "",
            "/-- Python's builtin `min(a, b)` on floats, `none` = `float(\"inf\")`: `b if b < a else a` -/",
            "def pyMin : Option Rat → Option Rat → Option Rat",
            "  | none, b => b",
            "  | a, none => a",
            "  | some a, some b => some (if b < a then b else a)",
            "",
        ]

    # ------------------------------------------------------------------ __init__
    def emit_base_init(self, ci: ClassInfo):
        fn = ci.methods["__init__"]
        args = self.plain_args(fn)
        names = [a.arg for a in args]
        anns = {a.arg: self.ann(a) for a in args}
        cond = None
        fields: dict[str, object] = {}
        canon = {n: f"a{i}" for i, n in enumerate(names)}
        for st in fn.body:
            if is_docstring(st):
                continue
            if isinstance(st, ast.Assert):
                if cond is not None:
                    fail(st, "second assert in SegmentTree.__init__")
                ctx = MethodCtx(self, ci, fn, canon, {n: (INT if anns[n] == "int" else ELEM) for n in names if anns[n] in ("int", "float")},
                                init_mode=True)
                cond = ctx.ex(st.test, top=True)[0]
                continue
            if isinstance(st, ast.Assign) and len(st.targets) == 1 and self.self_attr(st.targets[0]):
                f = st.targets[0].attr
                if f in fields:
                    fail(st, f"self.{f} assigned twice in __init__")
                if f in ("capacity", "operation"):
                    want = "int" if f == "capacity" else "Callable"
                    if not (isinstance(st.value, ast.Name) and st.value.id in names and anns[st.value.id] == want):
                        fail(st, f"self.{f} = <not a parameter annotated {want}>")
                    fields[f] = st.value.id
                elif f == "tree":
                    v = st.value
                    ok = isinstance(v, ast.ListComp) and len(v.generators) == 1 and not v.generators[0].ifs \
                        and not v.generators[0].is_async and isinstance(v.generators[0].target, ast.Name) \
                        and isinstance(v.elt, ast.Name) and v.elt.id in names and anns[v.elt.id] == "float" \
                        and v.elt.id != v.generators[0].target.id
                    it = v.generators[0].iter if ok else None
                    ok = ok and isinstance(it, ast.Call) and isinstance(it.func, ast.Name) and it.func.id == "range" \
                        and len(it.args) == 1 and not it.keywords
                    if not ok:
                        fail(st, "self.tree = <not `[init_value for _ in range(n)]`>")
                    ctx = MethodCtx(self, ci, fn, canon, {n: INT for n in names if anns[n] == "int"}, init_mode=True)
                    n_txt, n_ty = ctx.ex(it.args[0], top=False)
                    if n_ty not in (INT, NUM):
                        fail(st, "range(<non-integer>)")
                    fields[f] = (n_txt, v.elt.id)
                else:
                    fail(st, f"field self.{f}")
                continue
            fail(st, f"{type(st).__name__} in SegmentTree.__init__")
        for f in ("capacity", "operation", "tree"):
            if f not in fields:
                raise Unsupported(f"{REL_SOURCE}: SegmentTree.__init__ does not set self.{f}")
        self.init_fields = fields
        self.init_param_names = names
        n_txt, init_name = fields["tree"]
        cap_p, init_p = canon[fields["capacity"]], canon[init_name]
        self.out += [
            f"/-- `SegmentTree.__init__`: the list `self.tree` (`none` = the assertion fails);"
            f" `self.capacity` = `{cap_p}`, `self.operation` = `{canon[fields['operation']]}` -/",
            f"def SegmentTree.init ({cap_p} : Nat) ({init_p} : α) : Option (List α) :=",
        ]
        body = f"some (List.replicate {n_txt} {init_p})"
        if cond is None:
            self.out += [f"  {body}", ""]
        else:
            self.out += [f"  if {cond} then {body}", "  else none", ""]

    def subclass_inits(self):
        self.sub: dict[str, tuple[str, str, str]] = {}
        base_init = self.classes["SegmentTree"].methods["__init__"]
        pnames = [a.arg for a in self.plain_args(base_init)]
        for cname in ("SumSegmentTree", "MinSegmentTree"):
            ci = self.classes[cname]
            fn = ci.methods.get("__init__")
            if fn is None:
                raise Unsupported(f"{REL_SOURCE}: {cname}.__init__ not found")
            own = self.plain_args(fn)
            if len(own) != 1 or self.ann(own[0]) != "int":
                fail(fn, f"{cname}.__init__ parameters other than `capacity: int`")
            stmts = [s for s in fn.body if not is_docstring(s)]
            call = stmts[0].value if len(stmts) == 1 and isinstance(stmts[0], ast.Expr) else None
            ok = isinstance(call, ast.Call) and isinstance(call.func, ast.Attribute) and call.func.attr == "__init__" \
                and self.is_super(call.func.value)
            if not ok:
                fail(fn, f"{cname}.__init__ body other than `super().__init__(…)`")
            bound: dict[str, ast.expr] = {}
            for i, a in enumerate(call.args):
                if isinstance(a, ast.Starred) or i >= len(pnames):
                    fail(call, "argument list of super().__init__")
                bound[pnames[i]] = a
            for kw in call.keywords:
                if kw.arg is None or kw.arg not in pnames or kw.arg in bound:
                    fail(call, f"keyword {kw.arg} of super().__init__")
                bound[kw.arg] = kw.value
            if set(bound) != set(pnames):
                fail(call, "super().__init__ does not pass every parameter")
            # which parameter feeds which field is decided by the base __init__
            base_fn = self.classes["SegmentTree"].methods["__init__"]
            roles = self.init_roles(base_fn)
            cap_e, op_e, init_e = bound[roles["capacity"]], bound[roles["operation"]], bound[roles["init"]]
            if not (isinstance(cap_e, ast.Name) and cap_e.id == own[0].arg):
                fail(call, "capacity argument of super().__init__")
            if isinstance(op_e, ast.Attribute) and isinstance(op_e.value, ast.Name) and op_e.value.id == "operator" \
                    and op_e.attr == "add":
                op = "add"
            elif isinstance(op_e, ast.Name) and op_e.id == "min":
                op = "min"
            else:
                fail(call, "operation other than `operator.add` / `min`")
            if isinstance(init_e, ast.Constant) and isinstance(init_e.value, float) and init_e.value == init_e.value \
                    and abs(init_e.value) != float("inf"):
                init = rat_literal(init_e.value)
                inf = False
            elif isinstance(init_e, ast.Call) and isinstance(init_e.func, ast.Name) and init_e.func.id == "float" \
                    and len(init_e.args) == 1 and isinstance(init_e.args[0], ast.Constant) \
                    and init_e.args[0].value in ("inf", "+inf", "Infinity"):
                init, inf = "none", True
            else:
                fail(call, "init_value other than a finite float literal / float(\"inf\")")
            if op == "add" and not inf:
                ci.elem = "Rat"
                self.sub[cname] = ("Rat", "fun x y => x + y", init)
            elif op == "min" and inf:
                ci.elem = "Option Rat"
                self.sub[cname] = ("Option Rat", "pyMin", init)
            else:
                fail(call, f"combination operation={op}, init_value={'inf' if inf else 'finite'}")

    def init_roles(self, base_fn) -> dict[str, str]:
        roles = {}
        for st in base_fn.body:
            if isinstance(st, ast.Assign) and len(st.targets) == 1 and self.self_attr(st.targets[0]):
                f = st.targets[0].attr
                if f in ("capacity", "operation") and isinstance(st.value, ast.Name):
                    roles[f] = st.value.id
                if f == "tree" and isinstance(st.value, ast.ListComp) and isinstance(st.value.elt, ast.Name):
                    roles["init"] = st.value.elt.id
        if set(roles) != {"capacity", "operation", "init"}:
            fail(base_fn, "SegmentTree.__init__ field assignments")
        return roles

    def emit_subclass_init(self, ci: ClassInfo):
        elem, op, init = self.sub[ci.name]
        self.out += [
            f"/-- `operation` passed by `{ci.name}.__init__` -/",
            f"def {ci.name}.op : {elem} → {elem} → {elem} := {op}",
            "",
            f"/-- `init_value` passed by `{ci.name}.__init__` -/",
            f"def {ci.name}.initValue : {elem} := {init}",
            "",
            f"/-- `{ci.name}.__init__` -/",
            f"def {ci.name}.init (a0 : Nat) : Option (List ({elem})) :=",
            f"  SegmentTree.init a0 {ci.name}.initValue",
            "",
        ]

    # ------------------------------------------------------------------ signatures
    def plain_args(self, fn: ast.FunctionDef) -> list[ast.arg]:
        a = fn.args
        if a.vararg or a.kwarg or a.kwonlyargs or a.posonlyargs:
            fail(fn, f"*args / **kwargs / keyword-only parameters of {fn.name}")
        if not a.args or a.args[0].arg != "self":
            fail(fn, f"{fn.name} without self")
        return a.args[1:]

    def ann(self, a: ast.arg) -> str:
        if a.annotation is None:
            fail(a, f"parameter {a.arg} without annotation")
        if isinstance(a.annotation, ast.Name) and a.annotation.id in ("int", "float", "Callable"):
            return a.annotation.id
        fail(a, f"annotation of parameter {a.arg}")

    def self_attr(self, n) -> bool:
        return isinstance(n, ast.Attribute) and isinstance(n.value, ast.Name) and n.value.id == "self"

    def is_super(self, n) -> bool:
        return isinstance(n, ast.Call) and isinstance(n.func, ast.Name) and n.func.id == "super" \
            and not n.args and not n.keywords

    def method_calls(self, ci: ClassInfo, fn) -> list[tuple[str, str]]:
        res = []
        for n in ast.walk(fn):
            if isinstance(n, ast.Call) and isinstance(n.func, ast.Attribute):
                tgt = n.func.value
                if (isinstance(tgt, ast.Name) and tgt.id == "self" and n.func.attr != "operation") or self.is_super(tgt):
                    start = ci.base if self.is_super(tgt) else ci
                    found = start.lookup(n.func.attr) if start else None
                    if found is None:
                        fail(n, f"call of unknown method {n.func.attr}")
                    res.append((found[0].name, n.func.attr))
        return res

    def compute_sigs(self):
        todo = []
        for ci in self.classes.values():
            for name, fn in ci.methods.items():
                if name == "__init__":
                    continue
                s = Sig()
                args = self.plain_args(fn)
                defaults = [None] * (len(args) - len(fn.args.defaults)) + list(fn.args.defaults)
                for a, dflt in zip(args, defaults):
                    t = self.ann(a)
                    if t == "Callable":
                        fail(a, "callable parameter outside __init__")
                    dtxt = None
                    if dflt is not None:
                        if not (isinstance(dflt, ast.Constant) and type(dflt.value) is int and t == "int"):
                            fail(dflt, f"default of parameter {a.arg}")
                        dtxt = str(dflt.value)
                    s.params.append((a.arg, INT if t == "int" else ELEM, dtxt))
                has_ret = any(isinstance(n, ast.Return) and n.value is not None for n in ast.walk(fn))
                s.returns_tree = not has_ret
                if has_ret:
                    r = fn.returns
                    if not (isinstance(r, ast.Name) and r.id in ("int", "float")):
                        fail(fn, f"return annotation of {fn.name}")
                    s.ret_type = INT if r.id == "int" else ELEM
                s.recursive = (ci.name, name) in self.method_calls(ci, fn)
                s.option = s.recursive or any(isinstance(n, ast.Assert) for n in ast.walk(fn))
                s.fuel = s.recursive or any(isinstance(n, ast.While) for n in ast.walk(fn))
                self.sigs[(ci.name, name)] = s
                todo.append((ci, name, fn))
        changed = True
        while changed:
            changed = False
            for ci, name, fn in todo:
                s = self.sigs[(ci.name, name)]
                for key in self.method_calls(ci, fn):
                    c = self.sigs[key]
                    if c.option and not s.option:
                        s.option = changed = True
                    if c.fuel and not s.fuel:
                        s.fuel = changed = True

    # ------------------------------------------------------------------ methods
    def emit_method(self, ci: ClassInfo, fn: ast.FunctionDef):
        sig = self.sigs[(ci.name, fn.name)]
        canon, types = {}, {}
        for i, (p, t, _) in enumerate(sig.params):
            canon[p] = f"a{i}"
            types[p] = t
        ctx = MethodCtx(self, ci, fn, canon, types)
        ctx.sig = sig
        ctx.collect_locals(fn.body)
        stmts = [s for s in fn.body if not is_docstring(s)]
        body = ctx.block(stmts, ctx.end_of_method, top_level=True)
        name = f"{ci.name}.{lean_name(fn.name)}"
        elem = ci.elem
        rt = ctx.ret_lean_type()
        hdr = [f"/-- `{ci.name}.{fn.name}` (source line {fn.lineno}) -/"]
        fixed = f"(op : {elem} → {elem} → {elem}) (d : {elem}) (cap : Nat) (tree : List ({elem}))"
        ptys = [("Nat" if t == INT else f"({elem})") for _, t, _ in sig.params]
        pnames = [canon[p] for p, _, _ in sig.params]
        self.out += ctx.loop_defs
        if sig.recursive:
            if ctx.mutates:
                fail(fn, "recursive method that assigns self.tree")
            arrow = " → ".join(["Nat"] + ptys + [rt])
            self.out += hdr + [f"def {name} {fixed} : {arrow}",
                               "  | 0" + "".join(f", {p}" for p in pnames) + " => none",
                               "  | fuel + 1" + "".join(f", {p}" for p in pnames) + " =>"]
            self.out += ind(body, 4) + [""]
        else:
            ps = (" (fuel : Nat)" if sig.fuel else "") + "".join(f" ({p} : {t})" for p, t in zip(pnames, ptys))
            self.out += hdr + [f"def {name} {fixed}{ps} : {rt} :="] + ind(body, 2) + [""]


def rat_literal(x: float) -> str:
    n, dn = x.as_integer_ratio()
    if dn == 1:
        return f"({n} : Rat)" if n >= 0 else f"(({n}) : Rat)"
    return f"(mkRat {n} {dn})" if n >= 0 else f"(mkRat ({n}) {dn})"


# ----------------------------------------------------------------------------------------------
class MethodCtx:
    def __init__(self, tr: Translator, ci: ClassInfo, fn, canon: dict, types: dict, init_mode: bool = False):
        self.tr, self.ci, self.fn = tr, ci, fn
        self.canon, self.types = dict(canon), dict(types)
        self.init_mode = init_mode
        self.sig: Sig | None = None
        self.binds: list[tuple[str, str]] | None = None
        self.nbind = 0
        self.nloop = 0
        self.loop_defs: list[str] = []
        self.mutates = False
        self.in_loop = False
        self.defined: set[str] = set(canon)            # python names defined so far (for loop state)

    # ---------------- naming
    def collect_locals(self, stmts):
        k = 0

        def visit(sts):
            nonlocal k
            for st in sts:
                tgts = []
                if isinstance(st, ast.Assign):
                    tgts = st.targets
                elif isinstance(st, ast.AugAssign):
                    tgts = [st.target]
                for t in tgts:
                    if isinstance(t, ast.Name) and t.id not in self.canon:
                        self.canon[t.id] = f"v{k}"
                        k += 1
                if isinstance(st, (ast.If, ast.While)):
                    visit(st.body)
                    visit(st.orelse)
        visit(stmts)

    def ret_lean_type(self) -> str:
        s = self.sig
        base = f"List ({self.ci.elem})" if s.returns_tree else ("Nat" if s.ret_type == INT else self.ci.elem)
        if s.option:
            return f"Option ({base})" if " " in base else f"Option {base}"
        return base

    def lean_ty(self, t: str) -> str:
        return "Nat" if t == INT else self.ci.elem

    # ---------------- expressions
    def ex(self, n, top: bool = False) -> tuple[str, str]:
        par = (lambda s: s) if top else (lambda s: f"({s})")
        if isinstance(n, ast.Constant):
            if type(n.value) is int:
                return (str(n.value) if n.value >= 0 else f"({n.value})"), NUM
            if type(n.value) is float:
                if self.ci.elem != "Rat":
                    fail(n, f"float literal in a class whose elements are {self.ci.elem}")
                return rat_literal(n.value), ELEM
            fail(n, f"constant {n.value!r}")
        if isinstance(n, ast.Name):
            if n.id not in self.canon or n.id not in self.types:
                fail(n, f"name {n.id} (not a parameter / local assigned before)")
            return self.canon[n.id], self.types[n.id]
        if isinstance(n, ast.Attribute):
            if self.tr.self_attr(n) and n.attr == "capacity" and not self.init_mode:
                return "cap", INT
            fail(n, f"attribute .{n.attr}")
        if isinstance(n, ast.Subscript):
            if self.tr.self_attr(n.value) and n.value.attr == "tree" and not self.init_mode:
                i, t = self.ex(n.slice)
                if t not in (INT, NUM):
                    fail(n, "self.tree[<non-integer>]")
                return par(f"tree.getD {i} d"), ELEM
            fail(n, "subscript other than self.tree[…]")
        if isinstance(n, ast.BinOp):
            op = BINOPS.get(type(n.op)) or fail(n, f"operator {type(n.op).__name__}")
            (a, ta), (b, tb) = self.ex(n.left), self.ex(n.right)
            t = self.join(n, ta, tb)
            if t == ELEM and (self.ci.elem != "Rat" or op not in "+-*"):
                fail(n, f"arithmetic `{op}` on elements of type {self.ci.elem}")
            return par(f"{a} {op} {b}"), t
        if isinstance(n, ast.Compare):
            parts, left, (ltxt, lt) = [], n.left, self.ex(n.left)
            for o, r in zip(n.ops, n.comparators):
                op = CMPOPS.get(type(o)) or fail(n, f"comparison {type(o).__name__}")
                rtxt, rt = self.ex(r)
                t = self.join(n, lt, rt)
                if t == ELEM and self.ci.elem != "Rat":
                    fail(n, f"comparison of elements of type {self.ci.elem}")
                if t == BOOL:
                    fail(n, "comparison of booleans")
                parts.append(f"{ltxt} {op} {rtxt}")
                ltxt, lt = rtxt, rt
            return par(" ∧ ".join(parts)), BOOL
        if isinstance(n, ast.BoolOp):
            op = " ∧ " if isinstance(n.op, ast.And) else " ∨ "
            vs = []
            for v in n.values:
                t, ty = self.ex(v)
                if ty != BOOL:
                    fail(v, "non-boolean operand of and / or")
                vs.append(t)
            return par(op.join(vs)), BOOL
        if isinstance(n, ast.UnaryOp) and isinstance(n.op, ast.Not):
            t, ty = self.ex(n.operand)
            if ty != BOOL:
                fail(n, "not <non-boolean>")
            return par(f"¬ {t}"), BOOL
        if isinstance(n, ast.Call):
            return self.call(n, par)
        fail(n, type(n).__name__)

    def join(self, n, a: str, b: str) -> str:
        if a == NUM:
            return b
        if b == NUM or a == b:
            return a
        fail(n, f"operands of different types ({a}, {b})")

    def call(self, n: ast.Call, par) -> tuple[str, str]:
        f = n.func
        if self.init_mode:
            fail(n, "call inside __init__")
        if isinstance(f, ast.Attribute) and self.tr.self_attr(f) and f.attr == "operation":
            if len(n.args) != 2 or n.keywords:
                fail(n, "self.operation with other than two positional arguments")
            (a, ta), (b, tb) = self.ex(n.args[0]), self.ex(n.args[1])
            if ta != ELEM or tb != ELEM:
                fail(n, "self.operation on non-elements")
            return par(f"op {a} {b}"), ELEM
        if isinstance(f, ast.Attribute) and ((isinstance(f.value, ast.Name) and f.value.id == "self")
                                             or self.tr.is_super(f.value)):
            start = self.ci.base if self.tr.is_super(f.value) else self.ci
            found = start.lookup(f.attr) if start else None
            if found is None or f.attr == "__init__":
                fail(n, f"call of method {f.attr}")
            cls, _ = found
            sig = self.tr.sigs[(cls.name, f.attr)]
            if sig.returns_tree:
                fail(n, f"call of the mutating method {f.attr}")
            vals: dict[str, str] = {}
            for i, a in enumerate(n.args):
                if isinstance(a, ast.Starred) or i >= len(sig.params):
                    fail(n, f"arguments of {f.attr}")
                vals[sig.params[i][0]] = a
            for kw in n.keywords:
                if kw.arg is None or kw.arg in vals or kw.arg not in [p for p, _, _ in sig.params]:
                    fail(n, f"keyword argument {kw.arg} of {f.attr}")
                vals[kw.arg] = kw.value
            args = []
            for p, t, dflt in sig.params:
                if p in vals:
                    txt, ty = self.ex(vals[p])
                    if self.join(n, ty, t) != t:
                        fail(n, f"argument {p} of {f.attr}")
                    args.append(txt)
                elif dflt is not None:
                    args.append(dflt)
                else:
                    fail(n, f"missing argument {p} of {f.attr}")
            txt = f"{cls.name}.{lean_name(f.attr)} op d cap tree" + (" fuel" if sig.fuel else "") \
                + "".join(f" {a}" for a in args)
            if sig.option:
                if self.binds is None:
                    fail(n, f"call of {f.attr} in a position where it cannot be bound")
                r = f"r{self.nbind}"
                self.nbind += 1
                self.binds.append((r, txt))
                return r, sig.ret_type
            return par(txt), sig.ret_type
        fail(n, "call of " + (ast.unparse(f) if hasattr(ast, "unparse") else "function"))

    def with_binds(self, build) -> list[str]:
        """evaluate `build()` (which translates expressions) and wrap its lines in the binds it made"""
        saved, self.binds = self.binds, []
        lines = build()
        binds, self.binds = self.binds, saved
        for r, txt in reversed(binds):
            if not self.sig.option:
                fail(self.fn, "bound call in a method that cannot fail")
            lines = [f"match {txt} with", "| none => none", f"| some {r} =>"] + ind(lines)
        return lines

    def is_tail_call(self, v) -> bool:
        if isinstance(v, ast.Call) and isinstance(v.func, ast.Attribute) and v.func.attr != "operation" and \
                ((isinstance(v.func.value, ast.Name) and v.func.value.id == "self") or self.tr.is_super(v.func.value)):
            start = self.ci.base if self.tr.is_super(v.func.value) else self.ci
            found = start.lookup(v.func.attr) if start else None
            return found is not None and self.tr.sigs.get((found[0].name, v.func.attr), Sig()).option
        return False

    # ---------------- statements
    def ret(self, txt: str) -> str:
        return f"some {txt}" if self.sig.option else txt

    def end_of_method(self) -> list[str]:
        if not self.sig.returns_tree:
            fail(self.fn, f"{self.fn.name}: a path reaches the end without `return`")
        return [self.ret("tree")]

    def always_returns(self, stmts) -> bool:
        if not stmts:
            return False
        last = stmts[-1]
        if isinstance(last, ast.Return):
            return True
        if isinstance(last, ast.If):
            return self.always_returns(last.body) and self.always_returns(last.orelse)
        return False

    def assigned_names(self, stmts) -> list[str]:
        out = []
        for st in stmts:
            for n in ast.walk(st):
                tg = []
                if isinstance(n, ast.Assign):
                    tg = n.targets
                elif isinstance(n, ast.AugAssign):
                    tg = [n.target]
                for t in tg:
                    if isinstance(t, ast.Name) and t.id not in out:
                        out.append(t.id)
                    if isinstance(t, ast.Subscript) and self.tr.self_attr(t.value) and "self.tree" not in out:
                        out.append("self.tree")
        return out

    def read_names(self, nodes) -> set[str]:
        out = set()
        for st in nodes:
            for n in ast.walk(st):
                if isinstance(n, ast.Name) and isinstance(n.ctx, ast.Load):
                    out.add(n.id)
                if isinstance(n, ast.AugAssign) and isinstance(n.target, ast.Name):
                    out.add(n.target.id)
                if isinstance(n, ast.Attribute) and self.tr.self_attr(n) and n.attr == "tree":
                    out.add("self.tree")
                if isinstance(n, ast.Call) and isinstance(n.func, ast.Attribute) and n.func.attr != "operation" and \
                        ((isinstance(n.func.value, ast.Name) and n.func.value.id == "self") or self.tr.is_super(n.func.value)):
                    out.add("self.tree")                       # a method call reads the tree
        return out

    def simple_assign_only(self, stmts) -> bool:
        return all(isinstance(s, (ast.Assign, ast.AugAssign)) and
                   all(isinstance(t, ast.Name) for t in (s.targets if isinstance(s, ast.Assign) else [s.target]))
                   for s in stmts)

    def block(self, stmts, k, top_level: bool = False) -> list[str]:
        """translate `stmts`; `k()` gives the lines for what happens after the block"""
        if not stmts:
            return k()
        st, rest = stmts[0], stmts[1:]
        cont = lambda: self.block(rest, k, top_level)          # noqa: E731
        if is_docstring(st):
            return cont()
        if isinstance(st, ast.AugAssign):
            st = ast.copy_location(ast.Assign(targets=[st.target], value=ast.copy_location(
                ast.BinOp(left=self.as_load(st.target), op=st.op, right=st.value), st)), st)
        if isinstance(st, ast.Assign):
            if len(st.targets) != 1:
                fail(st, "chained assignment")
            tg = st.targets[0]
            if isinstance(tg, ast.Name):
                def build():
                    txt, ty = self.ex(st.value, top=True)
                    if ty == BOOL:
                        fail(st, "boolean local variable")
                    if ty == NUM:
                        ty = self.types.get(tg.id, INT)
                    if tg.id in self.types and self.types[tg.id] != ty:
                        fail(st, f"variable {tg.id} changes its type")
                    self.types[tg.id] = ty
                    self.defined.add(tg.id)
                    return [f"let {self.canon[tg.id]} : {self.lean_ty(ty)} := {txt}"] + cont()
                return self.with_binds(build)
            if isinstance(tg, ast.Subscript) and self.tr.self_attr(tg.value) and tg.value.attr == "tree":
                def build():
                    i, ti = self.ex(tg.slice)
                    v, tv = self.ex(st.value)
                    if ti not in (INT, NUM) or tv != ELEM:
                        fail(st, "self.tree[<int>] = <element> with other types")
                    self.mutates = True
                    return [f"let tree := tree.set {i} {v}"] + cont()
                return self.with_binds(build)
            fail(st, f"assignment to {type(tg).__name__}")
        if isinstance(st, ast.Assert):
            def build():
                c, ty = self.ex(st.test, top=True)
                if ty != BOOL:
                    fail(st, "assert <non-boolean>")
                return [f"if {c} then"] + ind(cont()) + ["else none"]
            return self.with_binds(build)
        if isinstance(st, ast.Return):
            if rest:
                fail(rest[0], "statement after return")
            if self.in_loop:
                fail(st, "return inside while")
            if st.value is None:
                fail(st, "bare return")
            if self.is_tail_call(st.value):
                saved, self.binds = self.binds, []
                self.ex(st.value, top=True)
                (_, txt), = self.binds
                self.binds = saved
                self.nbind -= 1
                return [txt]
            def build():
                txt, ty = self.ex(st.value)
                want = self.sig.ret_type
                if self.join(st, ty, want) != want:
                    fail(st, "returned value does not have the annotated type")
                return [self.ret(txt)]
            return self.with_binds(build)
        if isinstance(st, ast.If):
            def build_cond():
                c, ty = self.ex(st.test, top=True)
                if ty != BOOL:
                    fail(st, "if <non-boolean>")
                return c
            if self.always_returns(st.body):
                if st.orelse and self.always_returns(st.orelse) and rest:
                    fail(rest[0], "statement after an if whose branches all return")
                def build():
                    c = build_cond()
                    snap = dict(self.types)
                    a = self.block(st.body, k)
                    self.types = dict(snap)
                    b = self.block(list(st.orelse) + list(rest), k, top_level)
                    return [f"if {c} then"] + ind(a) + ["else"] + ind(b)
                return self.with_binds(build)
            if not rest:
                def build():
                    c = build_cond()
                    snap = dict(self.types)
                    a = self.block(st.body, k)
                    self.types = dict(snap)
                    b = self.block(st.orelse, k)
                    return [f"if {c} then"] + ind(a) + ["else"] + ind(b)
                return self.with_binds(build)
            if self.simple_assign_only(st.body) and self.simple_assign_only(st.orelse):
                mod = self.assigned_names(list(st.body) + list(st.orelse))
                if len(mod) != 1 or mod[0] not in self.types:
                    fail(st, "if (followed by statements) that assigns several variables or defines a new one")
                x = mod[0]
                def build():
                    c = build_cond()
                    a = self.block(st.body, lambda: [self.canon[x]])
                    b = self.block(st.orelse, lambda: [self.canon[x]])
                    one = lambda ls: " ".join(s.strip() + (";" if s.strip().startswith("let ") else "") for s in ls)  # noqa: E731
                    return [f"let {self.canon[x]} : {self.lean_ty(self.types[x])} := "
                            f"if {c} then ({one(a)}) else ({one(b)})"] + cont()
                return self.with_binds(build)
            fail(st, "if (followed by statements) whose branches neither all return nor only assign one variable")
        if isinstance(st, ast.While):
            if not top_level or self.in_loop:
                fail(st, "while that is not at the top level of a method")
            if st.orelse:
                fail(st, "while … else")
            for n in ast.walk(st):
                if isinstance(n, (ast.Break, ast.Continue, ast.Return)):
                    fail(n, f"{type(n).__name__.lower()} inside while")
                if isinstance(n, ast.While) and n is not st:
                    fail(n, "nested while")
            return self.while_loop(st, rest, k)
        if isinstance(st, ast.Expr):
            fail(st, "expression statement")
        fail(st, type(st).__name__)

    def as_load(self, t):
        if isinstance(t, ast.Name):
            return ast.copy_location(ast.Name(id=t.id, ctx=ast.Load()), t)
        fail(t, "augmented assignment to other than a local variable")

    def while_loop(self, st: ast.While, rest, k) -> list[str]:
        assigned = self.assigned_names(st.body)
        reads = self.read_names([st.test] + list(st.body))
        tree_assigned = "self.tree" in assigned
        tree_read = "self.tree" in reads or tree_assigned
        carried = sorted([x for x in (set(assigned) | reads) if x in self.defined and x in self.types],
                         key=lambda x: (self.canon[x][0], int(self.canon[x][1:])))
        later = self.read_names(rest)
        outs = [x for x in carried if x in assigned and x in later]
        if tree_assigned and (self.sig.returns_tree or "self.tree" in later):
            outs = ["self.tree"] + outs
        if len(outs) != 1:
            fail(st, f"while loop with {len(outs)} results needed afterwards (exactly one is supported)")
        out = outs[0]
        out_lean = "tree" if out == "self.tree" else self.canon[out]
        out_ty = f"List ({self.ci.elem})" if out == "self.tree" else self.lean_ty(self.types[out])
        name = f"{self.ci.name}.{lean_name(self.fn.name)}_loop{self.nloop}"
        self.nloop += 1
        elem = self.ci.elem
        fixed = f"(op : {elem} → {elem} → {elem}) (d : {elem}) (cap : Nat)"
        fixed_args = "op d cap"
        state = []
        if tree_read and not tree_assigned:
            fixed += f" (tree : List ({elem}))"
            fixed_args += " tree"
        elif tree_assigned:
            state.append(("tree", f"List ({elem})"))
        state += [(self.canon[x], self.lean_ty(self.types[x])) for x in carried]
        snames = [s for s, _ in state]
        call = lambda fuel: f"{name} {fixed_args} {fuel}" + "".join(f" {s}" for s in snames)   # noqa: E731
        saved_types, saved_defined = dict(self.types), set(self.defined)
        self.in_loop = True

        def build():
            c, ty = self.ex(st.test, top=True)
            if ty != BOOL:
                fail(st, "while <non-boolean>")
            body = self.block(st.body, lambda: [call("fuel")])
            return [f"if {c} then"] + ind(body) + [f"else {out_lean}"]
        saved_binds, self.binds = self.binds, None              # no fallible calls inside loops
        inner = build()
        self.binds = saved_binds
        self.in_loop = False
        self.types, self.defined = saved_types, saved_defined
        arrow = " → ".join(["Nat"] + [t if " " not in t else f"{t}" for _, t in state] + [out_ty])
        self.loop_defs += [
            f"/-- the `while` loop of `{self.ci.name}.{self.fn.name}` at source line {st.lineno} -/",
            f"def {name} {fixed} : {arrow}",
            "  | 0" + "".join(f", {s}" for s in snames) + f" => {out_lean}",
            "  | fuel + 1" + "".join(f", {s}" for s in snames) + " =>",
        ] + ind(inner, 4) + [""]
        if out == "self.tree":
            self.mutates = True
            return [f"let tree := {call('fuel')}"] + self.block(rest, k, True)
        return [f"let {out_lean} : {out_ty} := {call('fuel')}"] + self.block(rest, k, True)


# ----------------------------------------------------------------------------------------------
def repo_dir(arg: str | None) -> Path:
    if arg:
        return Path(arg)
    return Path(os.environ.get("VERIF_REPO", "/repo"))


def translate(repo: Path) -> tuple[str, str]:
    """returns (lean text, sha256 of the source); raises Unsupported"""
    path = repo / REL_SOURCE
    try:
        raw = path.read_bytes()
    except OSError as e:
        raise Unsupported(f"cannot read {path}: {e}") from e
    sha = hashlib.sha256(raw).hexdigest()
    try:
        body = Translator(raw.decode("utf-8")).run()
    except SyntaxError as e:
        raise Unsupported(f"{REL_SOURCE}:{e.lineno}: not parseable: {e.msg}") from e
    header = "\n".join([
        "/-",
        "  Gen/SegTreeGen.lean — GENERATED by harness/py2lean_segtree.py from",
        f"  {REL_SOURCE}; do not edit.  Core Lean only.",
        "  `Proofs/SegTreeGenEq.lean` proves each definition equal to its counterpart in `Model/SegTree.lean`.",
        "-/",
        SHA_PREFIX + sha,
        "set_option linter.unusedVariables false",
        "",
    ])
    return header + "\n" + body, sha


def strip_sha(text: str) -> str:
    return "\n".join(ln for ln in text.split("\n") if not ln.startswith(SHA_PREFIX))


def write_if_changed(text: str, out: Path, force: bool = False) -> bool:
    """writes `text` unless the file already holds the same translation (sha line ignored)"""
    old = out.read_text() if out.exists() else None
    if old is not None and not force and strip_sha(old) == strip_sha(text):
        return False
    if old == text:
        return False
    out.parent.mkdir(parents=True, exist_ok=True)
    tmp = out.with_suffix(".lean.tmp")
    tmp.write_text(text)
    os.replace(tmp, out)
    return True


def main(argv: list[str]) -> int:
    import argparse
    ap = argparse.ArgumentParser()
    ap.add_argument("--repo", default=None)
    ap.add_argument("--out", default=str(DEFAULT_OUT))
    ap.add_argument("--stdout", action="store_true")
    ap.add_argument("--force", action="store_true", help="rewrite even if only the sha256 line differs")
    a = ap.parse_args(argv)
    try:
        text, sha = translate(repo_dir(a.repo))
    except Unsupported as e:
        print(f"py2lean_segtree: {e}", file=sys.stderr)
        return 1
    if a.stdout:
        sys.stdout.write(text)
        return 0
    changed = write_if_changed(text, Path(a.out), a.force)
    print(f"{a.out}: {'written' if changed else 'unchanged'} (source sha256 {sha[:16]}…, "
          f"translation sha256 {hashlib.sha256(strip_sha(text).encode()).hexdigest()[:16]}…)")
    return 0


if __name__ == "__main__":
    sys.exit(main(sys.argv[1:]))
