#!/usr/bin/env python3
"""
py2lean_tourn.py — translate class `TournamentSelection` (`__init__`, `_tournament`, `_elitism`, `select`)
of REPO/agilerl/hpo/tournament.py into Lean 4.

    python3 harness/py2lean_tourn.py [--repo DIR] [--out FILE] [--stdout] [--force]

Reads the *source text* only (Python `ast`; agilerl and numpy are never imported) and writes
lean/Gen/TournGen.lean (namespace TournGen, core Lean only, imports nothing).
`Proofs/TournGenEq.lean` proves the generated definitions equal to the hand-written model functions of
`Model/Tournament.lean` (`Cfg.valid`, `winner`, `elitePos`, `maxId`, `eliteOf`, `newPop`), and
`Props/C05.lean` restates the C05 theorems over the generated definitions (`C05_source_translation_*`),
so they are re-checked against what the code says now.

What is read of the file: the module-level alias `PopulationType = List[EvolvableAlgorithm]` (if an
annotation uses it) and the four methods of `class TournamentSelection`.  `__init__` and `select` are the
entry points: the types of their parameters come from the annotations (`int` → `Int`, `bool` → `Bool`,
`PopulationType` / `List[EvolvableAlgorithm]` → `List Agent`).  The parameter types of `_tournament` and
`_elitism` come from the types of the arguments at their call sites inside the class (Python does not
enforce annotations: `_tournament` is annotated `List[float]` and is called with the integer rank array);
two call sites with different argument types, or a target method that is never called, are rejected.

Supported subset (anything else raises `Unsupported` naming the construct and its line):
  * `__init__`: `assert e[, msg]` (→ `if e then … else none`), `self.f = e` (each field once, at top
    level; the fields, in assignment order and with the type of the assigned expression, become the
    generated `structure TournamentSelection`), docstring.  No other method may assign `self.f`.
  * statements: docstring; `x = e`; `x, y, z = e` for a tuple-valued `e`; `x op= e` (normalised to
    `x = x op e`); `xs.append(e)` (→ `xs := xs ++ [e]`; the element type of a list that starts as `[]` is
    fixed by the first `append`); `assert`; `return e` (tail position); `if / elif / else` — either every
    branch returns, or the statement is followed by others and its branches only assign / append: the
    variables assigned in a branch are joined (`let j := if c then (branch; tuple) else (branch; tuple)`),
    a variable that is new after the `if` must be assigned on every path;
    `for i in range(n): body` (no `break` / `continue` / `return` / `else`, not nested) → the prelude's
    `pyFor body (List.range n) state`, a structural recursion over the iteration list whose bound `n` and
    whose body are translated from the AST; the loop state is the tuple of variables that are assigned in
    the body and were defined before the loop (in order of first assignment); variables first assigned in
    the body and the loop variable are not visible after the loop.
  * expressions: int literals, `True` / `False`, locals, parameters, `self.f`, `+ - *` on integers
    (a natural number — `len`, an index drawn / computed by numpy — is cast to `Int` when it meets an `Int`
    or a subtraction), unary `-`, comparisons `< <= > >= == !=` (chained), `and / or / not`,
    `isinstance(x, bool|int)` where the static type of `x` already is that type (→ `True`), tuples, `[]`,
    list displays, `len(xs)`, `int(i)` on an integer, `xs[i]` (→ prelude `pyIndex`: Python semantics incl.
    negative indices, `none` = IndexError), `xs[a:]` (→ prelude `pySliceFrom`: Python slice semantics for
    any integer `a`, so `fitness[-k:]` also for `k ≥ len` and `k ≤ 0`), list comprehensions / a generator
    argument with one `for` over a list and no `if` (→ `xs.map (fun x => e)`, or the prelude's `compM` when
    `e` can raise: `none` as soon as one element raises), `max(xs)` of one list of `Int` (→ `pyMaxList`,
    `none` = ValueError on `[]`), `agent.fitness` (`List Rat`), `agent.index` (`Int`),
    `self.<method>(args)` for a method of the class, and the numpy / agent calls below.

External / runtime calls (assumptions; the fixed prelude of the generated file):
  * `np.random.randint(low, high, size=k)` — the j-th occurrence (in source order) in a method becomes the
    explicit parameter `draw<j> : List Nat`, guarded by the prelude's `isDraw low high k draw<j>`
    (`low < high`, `k` entries, each in `[low, high)`; anything else is not a result of that call:
    `none`).  Nothing else is assumed about the draw.  A method that makes a draw and is called inside a
    `for i in range(n)` loop receives `draws<j> i`, where `draws<j> : Nat → List Nat` is a parameter of the
    caller (one draw per iteration, indexed by the iteration number).
  * `np.argsort(xs)` / `xs.argsort()` — numpy's default sort is NOT stable, ties may come in any order:
    the j-th occurrence becomes the explicit parameter `sort<j> : List Nat`, guarded by the prelude's
    `isArgsort le xs sort<j>` ("`sort<j>` is a permutation of the positions of `xs` that lists the values
    in ascending order"; `le` = numpy's order on floats with NaN last for means, `≤` on integers);
    a value that is not a sorting permutation is not a result of that call: `none`.  No tie-breaking rule
    is assumed, also not for the second and third `argsort` (there the values are distinct and the
    guard determines the result).  Not supported inside a loop.
  * `np.argmax(xs)` on a list of naturals → `npArgmax` (first index of the maximum; `none` = ValueError on
    an empty list); `np.mean(xs)` on a list of rationals → `npMean : Key` (exact rational mean; `none` =
    NaN for the empty list, numpy warns and does not raise); `Key := Option Rat`, `keyLe` = numpy's sort
    order (NaN last).  Float rounding is outside the model (the correspondence run uses dyadic scores).
  * `agent.clone(index=None, wrap=True)` (signature of `EvolvableAlgorithm.clone`) →
    `ops.clone agent (none | some index) wrap` for the explicit parameter
    `ops : AgentOps Agent` (`fitness`, `index`, `clone : Agent → Option Int → Bool → Agent`) over an
    abstract type `Agent`; what `clone` does to the agent is property C01, not this one.

Shape of the output: `structure TournamentSelection` (the fields), then one definition per method,
callee before caller:
  `TournamentSelection.<method> {Agent} (ops : AgentOps Agent) (self : TournamentSelection) (a0 : T0) …
     (sort0 … : List Nat) (draw0 … : List Nat | draws0 … : Nat → List Nat) : Option R`
(`{Agent}` / `ops` only if the method needs them; `__init__` takes its parameters and returns
`Option TournamentSelection`); `none` = an exception or an impossible numpy result.  Parameters are renamed
`a0, a1, …`, locals `v0, v1, …` in order of first assignment, bound variables `x<k>` (comprehension / loop
variables), `r<k>` (results of calls that can raise), `j<k>` (joins), `s<k>` / `l<k>` (loop state / result),
so renaming a local or a parameter does not change the text.
The header carries the sha256 of the source file; `write_if_changed` compares everything *but* that line,
so an edit of tournament.py that leaves the translation unchanged does not touch the file.
"""
from __future__ import annotations

import ast
import hashlib
import os
import sys
from pathlib import Path

HERE = Path(__file__).resolve().parent
DEFAULT_OUT = HERE.parent / "lean" / "Gen" / "TournGen.lean"
REL_SOURCE = "agilerl/hpo/tournament.py"
SHA_PREFIX = "-- sha256(source) = "

CLASS = "TournamentSelection"
TARGETS = ["__init__", "_tournament", "_elitism", "select"]
ENTRY = ["select"]
AGENT_CLASSES = ("EvolvableAlgorithm",)
AGENT_ATTRS = {"fitness": ("list", "rat"), "index": "int"}


class Unsupported(Exception):
    pass


def fail(node, what: str):
    line = getattr(node, "lineno", "?")
    raise Unsupported(f"{REL_SOURCE}:{line}: unsupported construct: {what}")


# ---------------------------------------------------------------------------------------------- types
# "int" "nat" "lit" (an integer literal) "bool" "prop" "key" "rat" "agent" "self" "none",
# ("list", t) ("tuple", (t1, …)), TVar (element type of `[]`, fixed later)
INT, NAT, LIT, BOOL, PROP, KEY, RAT, AGENT, SELF, NONE = \
    "int", "nat", "lit", "bool", "prop", "key", "rat", "agent", "self", "none"
CMPOPS = {ast.Eq: "=", ast.NotEq: "≠", ast.Lt: "<", ast.LtE: "≤", ast.Gt: ">", ast.GtE: "≥"}
RET = "\x01RET "


class TVar:
    count = 0

    def __init__(self, node):
        self.val = None
        self.node = node
        TVar.count += 1
        self.id = TVar.count


def resolve(t):
    while isinstance(t, TVar) and t.val is not None:
        t = t.val
    if isinstance(t, tuple) and t[0] == "list":
        return ("list", resolve(t[1]))
    if isinstance(t, tuple) and t[0] == "tuple":
        return ("tuple", tuple(resolve(x) for x in t[1]))
    return t


def unify(node, a, b, what: str):
    a, b = resolve(a), resolve(b)
    if isinstance(a, TVar):
        if a is not b:
            a.val = b
        return resolve(b)
    if isinstance(b, TVar):
        b.val = a
        return a
    if isinstance(a, tuple) and isinstance(b, tuple) and a[0] == b[0]:
        if a[0] == "list":
            return ("list", unify(node, a[1], b[1], what))
        if len(a[1]) == len(b[1]):
            return ("tuple", tuple(unify(node, x, y, what) for x, y in zip(a[1], b[1])))
    if a == b:
        return a
    fail(node, f"{what}: types {show_ty(a)} and {show_ty(b)} do not agree")


def show_ty(t) -> str:
    t = resolve(t)
    if isinstance(t, TVar):
        return "?"
    if isinstance(t, tuple):
        return f"{t[0]}[{', '.join(show_ty(x) for x in (t[1] if t[0] == 'tuple' else [t[1]]))}]"
    return t


def lean_ty(t, atom: bool = False) -> str:
    """Lean text of a type; an unresolved element type becomes a placeholder patched at the end"""
    t = resolve(t) if not isinstance(t, TVar) else (resolve(t))
    if isinstance(t, TVar):
        return f"\x00{t.id}\x00"
    simple = {INT: "Int", NAT: "Nat", BOOL: "Bool", KEY: "Key", RAT: "Rat", AGENT: "Agent", SELF: CLASS, LIT: "Int"}
    if t in simple:
        return simple[t]
    if isinstance(t, tuple) and t[0] == "list":
        s = "List " + lean_ty(t[1], True)
    elif isinstance(t, tuple) and t[0] == "tuple":
        s = " × ".join(lean_ty(x, True) for x in t[1])
    else:
        raise Unsupported(f"{REL_SOURCE}: no Lean type for {t!r}")
    return f"({s})" if atom else s


def mentions_agent(t) -> bool:
    t = resolve(t)
    if isinstance(t, tuple):
        return any(mentions_agent(x) for x in (t[1] if t[0] == "tuple" else [t[1]]))
    return t == AGENT


def ind(lines: list[str], n: int = 2) -> list[str]:
    return [" " * n + ln for ln in lines]


def is_docstring(st) -> bool:
    return isinstance(st, ast.Expr) and isinstance(st.value, ast.Constant) and isinstance(st.value.value, str)


def self_attr(n) -> bool:
    return isinstance(n, ast.Attribute) and isinstance(n.value, ast.Name) and n.value.id == "self"


def is_call_of(n, *path) -> bool:
    """`a.b.c(...)` with path ("a", "b", "c")"""
    if not isinstance(n, ast.Call):
        return False
    f = n.func
    for name in reversed(path[1:]):
        if not (isinstance(f, ast.Attribute) and f.attr == name):
            return False
        f = f.value
    return isinstance(f, ast.Name) and f.id == path[0]


def proj(name: str, i: int, n: int) -> str:
    """i-th component of an n-tuple `name` (Lean tuples nest to the right)"""
    if n == 1:
        return name
    return name + ".2" * i + (".1" if i < n - 1 else "")


PRELUDE = '''\
namespace TournGen

/-- a float as numpy sees it: `none` = NaN -/
abbrev Key := Option Rat

/-- the order numpy's sort uses on floats: NaN is larger than everything -/
def keyLe : Key → Key → Bool
  | _, none => true
  | none, some _ => false
  | some a, some b => decide (a ≤ b)

def natLe (a b : Nat) : Bool := decide (a ≤ b)

/-- `np.mean` of a list of numbers (exact); NaN for the empty list -/
def npMean (l : List Rat) : Key :=
  match l with
  | [] => none
  | _ => some (l.sum / (l.length : Rat))

/-- Python `l[s:]` for any integer `s` (a negative start counts from the end and is clipped at 0,
    a start beyond the end gives `[]`) -/
def pySliceFrom {α : Type} (l : List α) (s : Int) : List α :=
  if s < 0 then l.drop ((l.length : Int) + s).toNat else l.drop s.toNat

/-- Python `l[i]` for any integer `i`; `none` = IndexError -/
def pyIndex {α : Type} (l : List α) (i : Int) : Option α :=
  if 0 ≤ i then l[i.toNat]?
  else if -i ≤ (l.length : Int) then l[((l.length : Int) + i).toNat]?
  else none

/-- `np.argmax`: first index of the maximum; `none` = ValueError on an empty list -/
def npArgmax : List Nat → Option Nat
  | [] => none
  | v :: vs =>
    match npArgmax vs with
    | none => some 0
    | some j => if vs.getD j 0 > v then some (j + 1) else some 0

/-- Python's builtin `max(list)`; `none` = ValueError on an empty list -/
def pyMaxList : List Int → Option Int
  | [] => none
  | a :: r => some (r.foldl (fun m b => if b > m then b else m) a)

/-- `p` is a possible result of `np.argsort(xs)`: a permutation of the positions `0 … len(xs)-1` that
    lists the values in ascending order; how ties are ordered is left open -/
def isArgsort {α : Type} [Inhabited α] (le : α → α → Bool) (xs : List α) (p : List Nat) : Bool :=
  p.length == xs.length &&
  (List.range xs.length).all (fun i => p.contains i) &&
  (List.range p.length).all (fun b => (List.range b).all (fun a =>
    le (xs.getD (p.getD a 0) default) (xs.getD (p.getD b 0) default)))

/-- `d` is a possible result of `np.random.randint(low, high, size=size)` -/
def isDraw (low high size : Int) (d : List Nat) : Bool :=
  decide (low < high) && decide ((d.length : Int) = size) &&
  d.all (fun x => decide (low ≤ (x : Int)) && decide ((x : Int) < high))

/-- a list comprehension whose element expression can raise: `none` as soon as one element raises -/
def compM {α β : Type} (f : α → Option β) : List α → Option (List β)
  | [] => some []
  | x :: r =>
    match f x with
    | none => none
    | some y =>
      match compM f r with
      | none => none
      | some ys => some (y :: ys)

/-- a `for` loop: the body is run on the iteration values in order, threading the loop state;
    an exception in the body ends the loop with that exception -/
def pyFor {ι σ : Type} (body : ι → σ → Option σ) : List ι → σ → Option σ
  | [], s => some s
  | i :: r, s =>
    match body i s with
    | none => none
    | some s' => pyFor body r s'

/-- what `select` uses of an agent (`EvolvableAlgorithm`): two attributes and
    `clone(index=None, wrap=True)` -/
structure AgentOps (Agent : Type) where
  fitness : Agent → List Rat
  index : Agent → Int
  clone : Agent → Option Int → Bool → Agent
'''


# ---------------------------------------------------------------------------------------------- class
class ClassTr:
    def __init__(self, src: str):
        self.mod = ast.parse(src)
        found = [st for st in self.mod.body if isinstance(st, ast.ClassDef) and st.name == CLASS]
        if len(found) != 1:
            raise Unsupported(f"{REL_SOURCE}: {len(found)} definitions of class {CLASS} (expected one)")
        self.node = found[0]
        if self.node.bases or self.node.keywords or self.node.decorator_list:
            fail(self.node, f"base classes / decorators of {CLASS}")
        self.aliases = {}
        for st in self.mod.body:
            if isinstance(st, ast.Assign) and len(st.targets) == 1 and isinstance(st.targets[0], ast.Name):
                self.aliases[st.targets[0].id] = st.value
        self.fields: list[tuple[str, object]] = []
        self.done: dict[str, "MethodTr"] = {}
        self.active: list[str] = []
        self.order: list["MethodTr"] = []

    def method(self, name: str, at=None) -> ast.FunctionDef:
        found = [st for st in self.node.body if isinstance(st, ast.FunctionDef) and st.name == name]
        if len(found) != 1:
            if at is not None:
                fail(at, f"call of self.{name}: {len(found)} definitions of {CLASS}.{name}")
            raise Unsupported(f"{REL_SOURCE}: {len(found)} definitions of {CLASS}.{name} (expected one)")
        fn = found[0]
        if fn.decorator_list:
            fail(fn, f"decorator on {CLASS}.{name}")
        a = fn.args
        if a.vararg or a.kwarg or a.kwonlyargs or a.posonlyargs or a.defaults or not a.args or a.args[0].arg != "self":
            fail(fn, f"parameter list of {CLASS}.{name} (only `self` and plain positional parameters)")
        return fn

    def field(self, name: str):
        for f, t in self.fields:
            if f == name:
                return t
        return None

    def ann_type(self, a, node):
        if a is None:
            fail(node, "entry-point parameter without annotation")
        if isinstance(a, ast.Name) and a.id == "int":
            return INT
        if isinstance(a, ast.Name) and a.id == "bool":
            return BOOL
        if isinstance(a, ast.Name) and a.id in AGENT_CLASSES:
            return AGENT
        if isinstance(a, ast.Name) and a.id in self.aliases:
            return self.ann_type(self.aliases[a.id], node)
        if isinstance(a, ast.Subscript) and isinstance(a.value, ast.Name) and a.value.id in ("List", "list"):
            return ("list", self.ann_type(a.slice, node))
        fail(node, f"annotation `{ast.unparse(a)}`")

    def translate_method(self, name: str, arg_types, at=None) -> "MethodTr":
        if name in self.done:
            m = self.done[name]
            if arg_types is not None:
                if len(arg_types) != len(m.param_types):
                    fail(at, f"call of self.{name} with {len(arg_types)} argument(s)")
                for x, y in zip(arg_types, m.param_types):
                    unify(at, x, y, f"argument of self.{name} (all call sites must agree)")
            return m
        if name in self.active:
            fail(at, f"recursive call of self.{name}")
        fn = self.method(name, at)
        params = fn.args.args[1:]
        if arg_types is None:
            arg_types = [self.ann_type(p.annotation, p) for p in params]
        elif len(arg_types) != len(params):
            fail(at, f"call of self.{name} with {len(arg_types)} argument(s), it takes {len(params)}")
        self.active.append(name)
        m = MethodTr(self, fn, list(arg_types))
        m.translate()
        self.active.pop()
        self.done[name] = m
        self.order.append(m)
        return m

    def run(self) -> str:
        self.translate_method("__init__", None)
        for name in ENTRY:
            self.translate_method(name, None)
        for name in TARGETS:
            if name not in self.done:
                raise Unsupported(f"{REL_SOURCE}: {CLASS}.{name} is never called from "
                                  f"{' / '.join(ENTRY)}: the types of its parameters are not determined")
        out = [PRELUDE]
        out += [f"/-- the fields `{CLASS}.__init__` sets -/", f"structure {CLASS} where"]
        out += [f"  {f} : {lean_ty(t)}" for f, t in self.fields]
        out += ["deriving Repr, DecidableEq", ""]
        for m in self.order:
            out += m.lines + [""]
        text = "\n".join(out).rstrip() + "\n\nend TournGen\n"
        # patch the element types of lists that started as `[]`
        while "\x00" in text:
            i = text.index("\x00")
            j = text.index("\x00", i + 1)
            tv = next(v for v in MethodTr.tvars if v.id == int(text[i + 1:j]))
            t = resolve(tv)
            if isinstance(t, TVar):
                fail(tv.node, "empty list whose element type is never determined (no append)")
            text = text[:i] + lean_ty(t, True) + text[j + 1:]
        return text


# ---------------------------------------------------------------------------------------------- method
class MethodTr:
    tvars: list[TVar] = []

    def __init__(self, cl: ClassTr, fn: ast.FunctionDef, param_types: list):
        self.cl, self.fn, self.name = cl, fn, fn.name
        self.is_init = fn.name == "__init__"
        self.param_types = param_types
        self.types: dict[str, object] = {}
        self.lean: dict[str, str] = {}
        for k, (p, t) in enumerate(zip(fn.args.args[1:], param_types)):
            self.types[p.arg] = t
            self.lean[p.arg] = f"a{k}"
        self.nparams = len(param_types)
        self.sorts: list[str] = []
        self.draws: list[tuple[str, bool]] = []           # (name, indexed by a loop iteration)
        self.needs_ops = False
        self.binds: list[tuple] | None = None
        self.bind_count = 0
        self.counters = {"v": 0, "x": 0, "r": 0, "j": 0, "s": 0, "l": 0}
        self.loop_index: str | None = None                 # lean name of the enclosing loop's variable
        self.ret_type = None
        self.init_fields: list[tuple[str, str, object]] = []
        self.lines: list[str] = []

    def fresh(self, kind: str) -> str:
        n = self.counters[kind]
        self.counters[kind] += 1
        return f"{kind}{n}"

    # ---------------- variables
    def local(self, node, name: str) -> str:
        """lean name of the local `name` (allocated at its first assignment)"""
        if name == "self":
            fail(node, "assignment to self")
        if name not in self.lean:
            self.lean[name] = self.fresh("v")
        return self.lean[name]

    def assigned_names(self, stmts) -> list[str]:
        """names assigned in `stmts` (also by append), in order of first occurrence"""
        out: list[str] = []

        def add(x):
            if x not in out:
                out.append(x)
        for st in stmts:
            for n in ast.walk(st):
                if isinstance(n, ast.Assign):
                    for t in n.targets:
                        for e in (t.elts if isinstance(t, ast.Tuple) else [t]):
                            if isinstance(e, ast.Name):
                                add(e.id)
                elif isinstance(n, (ast.AugAssign, ast.AnnAssign)) and isinstance(n.target, ast.Name):
                    add(n.target.id)
                elif isinstance(n, ast.Expr) and self.append_call(n.value) is not None:
                    add(self.append_call(n.value)[0])
                elif isinstance(n, ast.For) and isinstance(n.target, ast.Name):
                    add(n.target.id)
                elif isinstance(n, (ast.NamedExpr, ast.With, ast.Delete, ast.Global, ast.Nonlocal, ast.While,
                                    ast.Try, ast.FunctionDef, ast.Lambda, ast.ClassDef, ast.AsyncFor,
                                    ast.Import, ast.ImportFrom, ast.Raise, ast.Match)):
                    fail(n, type(n).__name__)
        return out

    @staticmethod
    def append_call(v):
        """`name.append(e)` → (name, e)"""
        if isinstance(v, ast.Call) and isinstance(v.func, ast.Attribute) and v.func.attr == "append" \
                and isinstance(v.func.value, ast.Name) and len(v.args) == 1 and not v.keywords \
                and not isinstance(v.args[0], ast.Starred):
            return v.func.value.id, v.args[0]
        return None

    def definitely_assigned(self, stmts) -> set[str]:
        out: set[str] = set()
        for st in stmts:
            if isinstance(st, ast.Assign):
                for t in st.targets:
                    out |= {e.id for e in (t.elts if isinstance(t, ast.Tuple) else [t]) if isinstance(e, ast.Name)}
            elif isinstance(st, ast.AugAssign) and isinstance(st.target, ast.Name):
                out.add(st.target.id)
            elif isinstance(st, ast.If):
                out |= self.definitely_assigned(st.body) & self.definitely_assigned(st.orelse)
        return out

    def always_returns(self, stmts) -> bool:
        if not stmts:
            return False
        last = stmts[-1]
        if isinstance(last, ast.Return):
            return True
        if isinstance(last, ast.If):
            return self.always_returns(last.body) and self.always_returns(last.orelse)
        return False

    # ---------------- numbers
    def as_int(self, node, txt: str, ty) -> str:
        ty = resolve(ty)
        if ty == NAT:
            return f"({txt} : Int)"
        if ty in (INT, LIT):
            return txt
        fail(node, f"an integer is needed here, found {show_ty(ty)}")

    def is_num(self, ty) -> bool:
        return resolve(ty) in (INT, NAT, LIT)

    def as_cond(self, node, txt: str, ty) -> str:
        if resolve(ty) not in (BOOL, PROP):
            fail(node, f"a truth value is needed here, found {show_ty(ty)} (truthiness of other objects is not translated)")
        return txt

    def as_bool(self, node, txt: str, ty) -> str:
        ty = resolve(ty)
        if ty == BOOL:
            return txt
        if ty == PROP:
            return f"(decide {txt})"
        fail(node, f"a bool is needed here, found {show_ty(ty)}")

    # ---------------- expressions
    def ex(self, n, top: bool = False):
        """(lean text, type); the text is atomic (parenthesised if compound) unless `top`"""
        par = (lambda s: s) if top else (lambda s: f"({s})")
        if isinstance(n, ast.Constant):
            if n.value is True or n.value is False:
                return ("true" if n.value else "false"), BOOL
            if type(n.value) is int:
                return (str(n.value) if n.value >= 0 else f"({n.value})"), LIT
            if n.value is None:
                return "none", NONE
            fail(n, f"constant {n.value!r}")
        if isinstance(n, ast.Name):
            if n.id not in self.types:
                fail(n, f"name {n.id} (not a parameter or a local assigned before)")
            return self.lean[n.id], self.types[n.id]
        if isinstance(n, ast.Attribute):
            if self_attr(n):
                if self.is_init:
                    fail(n, f"reading self.{n.attr} inside __init__")
                t = self.cl.field(n.attr)
                if t is None:
                    fail(n, f"self.{n.attr} is not a field set by __init__")
                return f"self.{n.attr}", t
            v, tv = self.ex(n.value)
            if resolve(tv) == AGENT and n.attr in AGENT_ATTRS:
                self.needs_ops = True
                return par(f"ops.{n.attr} {v}"), AGENT_ATTRS[n.attr]
            fail(n, f"attribute .{n.attr} of a {show_ty(tv)}")
        if isinstance(n, ast.Tuple):
            parts = [self.value(e, self.ex(e, top=True)) for e in n.elts]
            if len(parts) < 2:
                fail(n, "tuple with fewer than two elements")
            return "(" + ", ".join(t for t, _ in parts) + ")", ("tuple", tuple(t for _, t in parts))
        if isinstance(n, ast.List):
            if not n.elts:
                tv = TVar(n)
                MethodTr.tvars.append(tv)
                return "[]", ("list", tv)
            parts = [self.value(e, self.ex(e, top=True)) for e in n.elts]
            t = parts[0][1]
            for _, u in parts[1:]:
                t = unify(n, t, u, "list display")
            return "[" + ", ".join(x for x, _ in parts) + "]", ("list", t)
        if isinstance(n, ast.UnaryOp) and isinstance(n.op, ast.USub):
            if isinstance(n.operand, ast.Constant) and type(n.operand.value) is int:
                return f"(-{n.operand.value})", LIT
            t, ty = self.ex(n.operand)
            return par(f"-{self.as_int(n, t, ty)}"), INT
        if isinstance(n, ast.UnaryOp) and isinstance(n.op, ast.Not):
            t, ty = self.ex(n.operand)
            return par(f"¬ {self.as_cond(n, t, ty)}"), PROP
        if isinstance(n, ast.BinOp):
            (a, ta), (b, tb) = self.ex(n.left), self.ex(n.right)
            ta, tb = resolve(ta), resolve(tb)
            if not (self.is_num(ta) and self.is_num(tb)):
                fail(n, f"operator {type(n.op).__name__} on {show_ty(ta)} and {show_ty(tb)}")
            if ta == LIT and tb == LIT:
                fail(n, "arithmetic on two integer literals")
            sym = {ast.Add: "+", ast.Sub: "-", ast.Mult: "*"}.get(type(n.op))
            if sym is None:
                fail(n, f"operator {type(n.op).__name__}")
            if sym != "-" and INT not in (ta, tb):
                return par(f"{a} {sym} {b}"), NAT
            return par(f"{self.as_int(n, a, ta)} {sym} {self.as_int(n, b, tb)}"), INT
        if isinstance(n, ast.Compare):
            parts, (ltxt, lt) = [], self.ex(n.left)
            for o, r in zip(n.ops, n.comparators):
                op = CMPOPS.get(type(o)) or fail(n, f"comparison {type(o).__name__}")
                rtxt, rt = self.ex(r)
                lt, rt = resolve(lt), resolve(rt)
                if not (self.is_num(lt) and self.is_num(rt)):
                    fail(n, f"comparison of {show_ty(lt)} and {show_ty(rt)}")
                if lt == LIT and rt == LIT:
                    fail(n, "comparison of two integer literals")
                if INT in (lt, rt):
                    parts.append(f"{self.as_int(n, ltxt, lt)} {op} {self.as_int(n, rtxt, rt)}")
                else:
                    parts.append(f"{ltxt} {op} {rtxt}")
                ltxt, lt = rtxt, rt
            return par(" ∧ ".join(parts)), PROP
        if isinstance(n, ast.BoolOp):
            vs = []
            for v in n.values:
                t, ty = self.ex(v)
                vs.append(self.as_cond(v, t, ty))
            return par((" ∧ " if isinstance(n.op, ast.And) else " ∨ ").join(vs)), PROP
        if isinstance(n, ast.Subscript):
            v, tv = self.ex(n.value)
            tv = resolve(tv)
            if not (isinstance(tv, tuple) and tv[0] == "list"):
                fail(n, f"subscript of a {show_ty(tv)}")
            if isinstance(n.slice, ast.Slice):
                s = n.slice
                if s.upper is not None or s.step is not None or s.lower is None:
                    fail(n, "slice other than `xs[a:]`")
                a, ta = self.ex(s.lower)
                return par(f"pySliceFrom {v} {self.as_int(n, a, ta)}"), tv
            i, ti = self.ex(n.slice)
            r = self.fresh("r")
            self.bind(n, ("match", r, f"pyIndex {v} {self.as_int(n, i, ti)}"))
            return r, tv[1]
        if isinstance(n, (ast.ListComp, ast.GeneratorExp)):
            return self.comprehension(n, par)
        if isinstance(n, ast.Call):
            return self.call(n, par)
        fail(n, type(n).__name__)

    def value(self, node, tt):
        """an expression used as a value (stored / passed): a Prop becomes a Bool, a literal an Int"""
        txt, ty = tt
        ty = resolve(ty)
        if ty == PROP:
            return f"(decide {txt})", BOOL
        if ty == LIT:
            return txt, INT
        if ty == NONE:
            fail(node, "None used as a value")
        return txt, ty

    def bind(self, n, entry):
        if self.binds is None:
            fail(n, "subscript / call that can raise in a position where it cannot be bound")
        self.binds.append(entry)

    def with_binds(self, build) -> list[str]:
        """run `build()` (it translates expressions, then the continuation) inside the binds it made"""
        saved, self.binds = self.binds, []
        lines = build()
        binds, self.binds = self.binds, saved
        self.bind_count += len(binds)
        for b in reversed(binds):
            if b[0] == "match":
                lines = [f"match {b[2]} with", "| none => none", f"| some {b[1]} =>"] + ind(lines)
            else:
                lines = [f"if {b[1]} then"] + ind(lines) + ["else none"]
        return lines

    def comprehension(self, n, par):
        if len(n.generators) != 1:
            fail(n, "comprehension with several `for` clauses")
        g = n.generators[0]
        if g.ifs or g.is_async or not isinstance(g.target, ast.Name):
            fail(n, "comprehension with `if` / a target other than one name")
        xs, txs = self.ex(g.iter)
        txs = resolve(txs)
        if not (isinstance(txs, tuple) and txs[0] == "list"):
            fail(n, f"comprehension over a {show_ty(txs)}")
        name = g.target.id
        if name in self.types:
            fail(n, f"comprehension variable {name} shadows a local")
        x = self.fresh("x")
        self.types[name], self.lean[name] = txs[1], x
        saved, self.binds = self.binds, []
        elt, te = self.value(n.elt, self.ex(n.elt, top=True))
        inner, self.binds = self.binds, saved
        del self.types[name], self.lean[name]
        binder = f"fun ({x} : {lean_ty(txs[1])}) =>"
        if not inner:
            return par(f"{xs}.map ({binder} {elt})"), ("list", te)
        # the element expression can raise: one-line chain of matches
        body = f"some {elt}" if " " not in elt or elt.startswith("(") else f"some ({elt})"
        for b in reversed(inner):
            if b[0] == "match":
                body = f"match {b[2]} with | none => none | some {b[1]} => {body}"
            else:
                body = f"if {b[1]} then {body} else none"
        if len(inner) == 1 and inner[0][0] == "match" and elt == inner[0][1]:
            body = inner[0][2]                      # `match e with | none => none | some r => some r` is `e`
        r = self.fresh("r")
        self.bind(n, ("match", r, f"compM ({binder} {body}) {xs}"))
        return r, ("list", te)

    def plain_args(self, n: ast.Call, k: int, what: str, kw: tuple = ()):
        if len(n.args) != k or any(isinstance(a, ast.Starred) for a in n.args):
            fail(n, f"{what} with other than {k} positional argument(s)")
        for key in n.keywords:
            if key.arg is None or key.arg not in kw:
                fail(n, f"{what} with keyword {key.arg}")
        return n.args

    def new_sort(self, n) -> str:
        if self.loop_index is not None:
            fail(n, "np.argsort inside a loop")
        name = f"sort{len(self.sorts)}"
        self.sorts.append(name)
        return name

    def new_draw(self, n) -> str:
        """the text of a fresh draw: a parameter, indexed by the iteration number inside a loop"""
        k = len(self.draws)
        if self.loop_index is not None:
            self.draws.append((f"draws{k}", True))
            return f"(draws{k} {self.loop_index})"
        self.draws.append((f"draw{k}", False))
        return f"draw{k}"

    def list_of(self, n, ty, what: str):
        ty = resolve(ty)
        if not (isinstance(ty, tuple) and ty[0] == "list"):
            fail(n, f"{what} of a {show_ty(ty)}")
        return resolve(ty[1])

    def argsort(self, n, xs: str, txs):
        el = self.list_of(n, txs, "argsort")
        le = {KEY: "keyLe", NAT: "natLe"}.get(el) or fail(n, f"argsort of a list of {show_ty(el)}")
        s = self.new_sort(n)
        self.bind(n, ("guard", f"isArgsort {le} {xs} {s}"))
        return s, ("list", NAT)

    def call(self, n: ast.Call, par):
        f = n.func
        if is_call_of(n, "np", "random", "randint"):
            lo, hi = self.plain_args(n, 2, "np.random.randint", ("size",))
            if len(n.keywords) != 1:
                fail(n, "np.random.randint without size=")
            (a, ta), (b, tb), (c, tc) = self.ex(lo), self.ex(hi), self.ex(n.keywords[0].value)
            d = self.new_draw(n)
            self.bind(n, ("guard", f"isDraw {self.as_int(n, a, ta)} {self.as_int(n, b, tb)} {self.as_int(n, c, tc)} {d}"))
            return d, ("list", NAT)
        if is_call_of(n, "np", "argsort"):
            a, = self.plain_args(n, 1, "np.argsort")
            xs, txs = self.ex(a)
            return self.argsort(n, xs, txs)
        if isinstance(f, ast.Attribute) and f.attr == "argsort":
            self.plain_args(n, 0, ".argsort()")
            xs, txs = self.ex(f.value)
            return self.argsort(n, xs, txs)
        if is_call_of(n, "np", "argmax"):
            a, = self.plain_args(n, 1, "np.argmax")
            xs, txs = self.ex(a)
            if self.list_of(n, txs, "np.argmax") != NAT:
                fail(n, f"np.argmax of a {show_ty(txs)}")
            r = self.fresh("r")
            self.bind(n, ("match", r, f"npArgmax {xs}"))
            return r, NAT
        if is_call_of(n, "np", "mean"):
            a, = self.plain_args(n, 1, "np.mean")
            xs, txs = self.ex(a)
            if self.list_of(n, txs, "np.mean") != RAT:
                fail(n, f"np.mean of a {show_ty(txs)}")
            return par(f"npMean {xs}"), KEY
        if isinstance(f, ast.Name) and f.id == "max":
            a, = self.plain_args(n, 1, "max")
            xs, txs = self.ex(a)
            if self.list_of(n, txs, "max") != INT:
                fail(n, f"max of a {show_ty(txs)}")
            r = self.fresh("r")
            self.bind(n, ("match", r, f"pyMaxList {xs}"))
            return r, INT
        if isinstance(f, ast.Name) and f.id == "len":
            a, = self.plain_args(n, 1, "len")
            xs, txs = self.ex(a)
            self.list_of(n, txs, "len")
            return f"{xs}.length", NAT
        if isinstance(f, ast.Name) and f.id == "int":
            a, = self.plain_args(n, 1, "int")
            t, ty = self.ex(a)
            if resolve(ty) not in (INT, NAT):
                fail(n, f"int(<{show_ty(ty)}>)")
            return t, ty
        if isinstance(f, ast.Name) and f.id == "isinstance":
            a, b = self.plain_args(n, 2, "isinstance")
            _, ty = self.ex(a)
            ok = {"bool": (BOOL,), "int": (INT, NAT, BOOL, LIT)}
            if not (isinstance(b, ast.Name) and b.id in ok and resolve(ty) in ok[b.id]):
                fail(n, f"isinstance(<{show_ty(ty)}>, {ast.unparse(b)})")
            return "True", PROP
        if isinstance(f, ast.Attribute) and f.attr == "clone":
            v, tv = self.ex(f.value)
            if resolve(tv) != AGENT:
                fail(n, f".clone() of a {show_ty(tv)}")
            if len(n.args) > 2 or any(isinstance(a, ast.Starred) for a in n.args):
                fail(n, ".clone() with more than two positional arguments")
            given = dict(zip(("index", "wrap"), n.args))
            for key in n.keywords:
                if key.arg not in ("index", "wrap") or key.arg in given:
                    fail(n, f".clone() with keyword {key.arg}")
                given[key.arg] = key.value
            idx = "none"
            if "index" in given:
                t, ty = self.ex(given["index"])
                idx = "none" if resolve(ty) == NONE else f"(some {self.as_int(n, t, ty)})"
            wrap = "true"
            if "wrap" in given:
                t, ty = self.ex(given["wrap"])
                wrap = self.as_bool(n, t, ty)
            self.needs_ops = True
            return par(f"ops.clone {v} {idx} {wrap}"), AGENT
        if self_attr(f):
            if n.keywords or any(isinstance(a, ast.Starred) for a in n.args):
                fail(n, f"call of self.{f.attr} with keyword / starred arguments")
            args = [self.value(a, self.ex(a)) for a in n.args]
            m = self.cl.translate_method(f.attr, [t for _, t in args], at=n)
            if m.is_init:
                fail(n, "call of self.__init__")
            extra = []
            for _ in m.sorts:
                extra.append(self.new_sort(n))
            for _, indexed in m.draws:
                if indexed and self.loop_index is not None:
                    fail(n, f"self.{f.attr} contains a loop with a random draw and is called inside a loop")
                if indexed:
                    k = len(self.draws)
                    self.draws.append((f"draws{k}", True))
                    extra.append(f"draws{k}")
                else:
                    extra.append(self.new_draw(n))
            self.needs_ops = self.needs_ops or m.needs_ops
            txt = " ".join([f"self.{f.attr}"] + (["ops"] if m.needs_ops else []) + [a for a, _ in args] + extra)
            r = self.fresh("r")
            self.bind(n, ("match", r, txt))
            return r, m.ret_type
        fail(n, f"call of {ast.unparse(f)}")

    # ---------------- statements
    def assign(self, st, name: str, txt: str, ty) -> list[str]:
        """`let v : T := txt` for the local `name`"""
        if name in self.types:
            ty = unify(st, self.types[name], ty, f"variable {name} changes its type")
        v = self.local(st, name)
        self.types[name] = ty
        return [f"let {v} : {lean_ty(ty)} := {txt}"]

    def block(self, stmts, k, tail: bool) -> list[str]:
        """translate `stmts`; `k()` gives the lines of what follows (tail: nothing follows but the method end)"""
        if not stmts:
            return k()
        st, rest = stmts[0], stmts[1:]
        cont = lambda: self.block(rest, k, tail)          # noqa: E731
        if is_docstring(st):
            return cont()
        if isinstance(st, ast.AugAssign):
            if not isinstance(st.target, ast.Name):
                fail(st, "augmented assignment to other than a local")
            load = ast.copy_location(ast.Name(id=st.target.id, ctx=ast.Load()), st)
            st = ast.copy_location(ast.Assign(targets=[st.target], value=ast.copy_location(
                ast.BinOp(left=load, op=st.op, right=st.value), st)), st)
        if isinstance(st, ast.Assign):
            if len(st.targets) != 1:
                fail(st, "chained assignment")
            tg = st.targets[0]
            if self_attr(tg):
                if not self.is_init or not tail:
                    fail(st, f"assignment to self.{tg.attr} outside the top level of __init__")
                if any(f == tg.attr for f, _, _ in self.init_fields):
                    fail(st, f"self.{tg.attr} assigned twice")

                def build():
                    txt, ty = self.value(st.value, self.ex(st.value, top=True))
                    self.init_fields.append((tg.attr, txt, ty))
                    return cont()
                return self.with_binds(build)
            if isinstance(tg, ast.Name):
                def build():
                    txt, ty = self.value(st.value, self.ex(st.value, top=True))
                    return self.assign(st, tg.id, txt, ty) + cont()
                return self.with_binds(build)
            if isinstance(tg, ast.Tuple) and all(isinstance(e, ast.Name) for e in tg.elts):
                names = [e.id for e in tg.elts]
                if len(set(names)) != len(names):
                    fail(st, "a name twice in one unpacking")

                def build():
                    txt, ty = self.ex(st.value, top=True)
                    ty = resolve(ty)
                    if not (isinstance(ty, tuple) and ty[0] == "tuple" and len(ty[1]) == len(names)):
                        fail(st, f"unpacking a {show_ty(ty)} into {len(names)} names")
                    lines = []
                    if not txt.isidentifier():
                        r = self.fresh("r")
                        lines.append(f"let {r} : {lean_ty(ty)} := {txt}")
                        txt = r
                    for i, (nm, t) in enumerate(zip(names, ty[1])):
                        lines += self.assign(st, nm, proj(txt, i, len(names)), t)
                    return lines + cont()
                return self.with_binds(build)
            fail(st, f"assignment target {type(tg).__name__}")
        if isinstance(st, ast.Expr):
            ap = self.append_call(st.value)
            if ap is None:
                fail(st, "expression statement other than `xs.append(e)`")
            name, e = ap
            if name not in self.types:
                fail(st, f"{name}.append: {name} is not a local assigned before")

            def build():
                txt, ty = self.value(e, self.ex(e, top=True))
                lt = unify(st, self.types[name], ("list", ty), f"{name}.append")
                return self.assign(st, name, f"{self.lean[name]} ++ [{txt}]", lt) + cont()
            return self.with_binds(build)
        if isinstance(st, ast.Assert):
            def build():
                c, ty = self.ex(st.test, top=True)
                return [f"if {self.as_cond(st, c, ty)} then"] + ind(cont()) + ["else none"]
            return self.with_binds(build)
        if isinstance(st, ast.Return):
            if rest:
                fail(rest[0], "statement after return")
            if not tail:
                fail(st, "return inside a loop / a branch that is followed by other statements")
            if st.value is None or self.is_init:
                fail(st, "bare return / return in __init__")

            def build():
                txt, ty = self.value(st.value, self.ex(st.value, top=True))
                self.ret_type = ty if self.ret_type is None else unify(st, self.ret_type, ty, "returns of different types")
                return [f"some {txt}" if txt.startswith("(") or " " not in txt else f"some ({txt})"]
            return self.with_binds(build)
        if isinstance(st, ast.If):
            return self.if_stmt(st, rest, k, tail)
        if isinstance(st, ast.For):
            return self.for_stmt(st, rest, k, tail)
        fail(st, type(st).__name__)

    def fix_ret(self, lines: list[str], option: bool) -> list[str]:
        return [ln.replace(RET, "some " if option else "") if RET in ln else ln for ln in lines]

    def if_stmt(self, st: ast.If, rest, k, tail: bool) -> list[str]:
        def cond():
            c, ty = self.ex(st.test, top=True)
            return self.as_cond(st, c, ty)
        if self.always_returns(st.body):
            if not tail:
                fail(st, "return inside a loop / a branch that is followed by other statements")
            if st.orelse and self.always_returns(st.orelse) and rest:
                fail(rest[0], "statement after an if whose branches all return")

            def build():
                c = cond()
                snap_t, snap_l = dict(self.types), dict(self.lean)
                a = self.block(st.body, k, True)
                self.types, self.lean = dict(snap_t), dict(snap_l)
                b = self.block(list(st.orelse) + list(rest), k, True)
                return [f"if {c} then"] + ind(a) + ["else"] + ind(b)
            return self.with_binds(build)
        for n in ast.walk(st):
            if isinstance(n, ast.Return):
                fail(n, "return in only some branches of an if")
        keys = self.assigned_names(list(st.body) + list(st.orelse))
        if not keys:
            fail(st, "if without effect (its branches assign nothing)")
        da = self.definitely_assigned(st.body) & self.definitely_assigned(st.orelse)
        for key in keys:
            if key not in self.types and key not in da:
                fail(st, f"variable {key} is assigned in only some paths of this if and not before it")

        def build():
            c = cond()
            for key in keys:
                self.local(st, key)
            snap = dict(self.types)
            names = [self.lean[x] for x in keys]
            tup = names[0] if len(names) == 1 else "(" + ", ".join(names) + ")"
            n0 = self.bind_count

            def branch(stmts):
                return self.block(stmts, lambda: [RET + tup], False)
            a = branch(st.body)
            ta = [self.types.get(x) for x in keys]
            self.types = dict(snap)
            b = branch(st.orelse)
            tb = [self.types.get(x) for x in keys]
            tys = [unify(st, u, v, f"{x} after the two branches") for x, u, v in zip(keys, ta, tb)]
            for x, t in zip(keys, tys):
                self.types[x] = t
            option = self.bind_count > n0
            expr = self.fix_ret([f"if {c} then"] + ind(a) + ["else"] + ind(b), option)
            tty = " × ".join(lean_ty(t, True) for t in tys) if len(tys) > 1 else lean_ty(tys[0])
            j = self.fresh("j")
            after = [f"let {nm} : {lean_ty(t)} := {proj(j, i, len(names))}" for i, (nm, t) in enumerate(zip(names, tys))] \
                + self.block(rest, k, tail)
            if option:
                return ["match (", *ind(expr), f"  : Option ({tty})) with", "| none => none", f"| some {j} =>"] + ind(after)
            return [f"let {j} : {tty} :="] + ind(expr) + after
        return self.with_binds(build)

    def for_stmt(self, st: ast.For, rest, k, tail: bool) -> list[str]:
        if st.orelse:
            fail(st, "for … else")
        if self.loop_index is not None:
            fail(st, "nested loop")
        if not isinstance(st.target, ast.Name):
            fail(st, "loop target other than one name")
        if not (isinstance(st.iter, ast.Call) and isinstance(st.iter.func, ast.Name) and st.iter.func.id == "range"):
            fail(st, f"loop over `{ast.unparse(st.iter)}` (only `range(n)`)")
        for n in ast.walk(st):
            if isinstance(n, (ast.Break, ast.Continue, ast.Return)):
                fail(n, f"{type(n).__name__.lower()} inside a for loop")
        bound, = self.plain_args(st.iter, 1, "range")
        var = st.target.id
        if var in self.types:
            fail(st, f"loop variable {var} shadows a local")
        assigned = [x for x in self.assigned_names(st.body) if x != var]
        if var in self.assigned_names(st.body):
            fail(st, f"assignment to the loop variable {var}")
        state = [x for x in assigned if x in self.types]
        if not state:
            fail(st, "loop without effect (its body assigns no variable defined before the loop)")

        def build():
            b, tb = self.ex(bound, top=True)
            tb = resolve(tb)
            if tb == NAT:
                rng = f"(List.range {b})" if " " not in b else f"(List.range ({b}))"
            elif tb in (INT, LIT):
                rng = f"(List.range {b}.toNat)" if " " not in b else f"(List.range ({b}).toNat)"
            else:
                fail(st, f"range(<{show_ty(tb)}>)")
            x, s, l = self.fresh("x"), self.fresh("s"), self.fresh("l")
            names = [self.lean[v] for v in state]
            tys0 = [self.types[v] for v in state]
            tup = names[0] if len(names) == 1 else "(" + ", ".join(names) + ")"
            before_t, before_l = dict(self.types), dict(self.lean)
            self.types[var], self.lean[var] = NAT, x
            self.loop_index = x
            saved, self.binds = self.binds, None
            try:
                body = self.block(st.body, lambda: [f"some {tup}"], False)
            finally:
                self.loop_index = None
                self.binds = saved
            tys = [unify(st, t0, self.types[v], f"{v} changes its type in the loop") for v, t0 in zip(state, tys0)]
            # loop-local variables and the loop variable end here
            self.types = {key: val for key, val in self.types.items() if key in before_t}
            self.lean = {key: val for key, val in self.lean.items() if key in before_l}
            sty = " × ".join(lean_ty(t, True) for t in tys) if len(tys) > 1 else lean_ty(tys[0])
            unpack_in = [f"let {nm} : {lean_ty(t)} := {proj(s, i, len(names))}" for i, (nm, t) in enumerate(zip(names, tys))]
            unpack_out = [f"let {nm} : {lean_ty(t)} := {proj(l, i, len(names))}" for i, (nm, t) in enumerate(zip(names, tys))]
            head = [f"match pyFor (fun ({x} : Nat) ({s} : {sty}) =>"] + ind(unpack_in + body, 4)
            head[-1] += f") {rng} {tup} with"
            return head + ["| none => none", f"| some {l} =>"] + ind(unpack_out + self.block(rest, k, tail))
        return self.with_binds(build)

    # ---------------- the definition
    def translate(self):
        body_stmts = [s for s in self.fn.body if not is_docstring(s)]
        self.assigned_names(body_stmts)                       # rejects statement kinds outside the subset early

        def end():
            if not self.is_init:
                fail(self.fn, f"{CLASS}.{self.name}: a path reaches the end without `return`")
            if not self.init_fields:
                fail(self.fn, "__init__ sets no field")
            return ["some { " + ", ".join(f"{f} := {txt}" for f, txt, _ in self.init_fields) + " }"]
        saved = self.binds
        self.binds = None
        body = self.block(body_stmts, end, True)
        self.binds = saved
        if self.is_init:
            self.cl.fields = [(f, t) for f, _, t in self.init_fields]
            self.ret_type = SELF
        if self.ret_type is None:
            fail(self.fn, f"{CLASS}.{self.name} never returns a value")
        sig_types = list(self.param_types) + [self.ret_type]
        generic = self.needs_ops or any(mentions_agent(t) for t in sig_types)
        params = (" {Agent : Type}" if generic else "") + (" (ops : AgentOps Agent)" if self.needs_ops else "") \
            + ("" if self.is_init else f" (self : {CLASS})") \
            + "".join(f" (a{k} : {lean_ty(t)})" for k, t in enumerate(self.param_types)) \
            + "".join(f" ({s} : List Nat)" for s in self.sorts) \
            + "".join(f" ({d} : {'Nat → List Nat' if indexed else 'List Nat'})" for d, indexed in self.draws)
        what = []
        if self.sorts:
            what.append(f"{', '.join(self.sorts)}: the results of the `np.argsort` calls in source order")
        if self.draws:
            what.append(f"{', '.join(d for d, _ in self.draws)}: the `np.random.randint` draws"
                        + (" (per loop iteration)" if any(i for _, i in self.draws) else ""))
        doc = f"/-- `{CLASS}.{self.name}`; `none` = an exception" \
            + ("".join("; " + w for w in what)) + " -/"
        self.lines = [doc, f"def {CLASS}.{self.name}{params} : Option {lean_ty(self.ret_type, True)} :="] + ind(body)


# ----------------------------------------------------------------------------------------------
def repo_dir(arg: str | None = None) -> Path:
    if arg:
        return Path(arg)
    return Path(os.environ.get("VERIF_REPO", "/repo"))


def translate(repo: Path) -> tuple[str, str]:
    """returns (lean text, sha256 of the source); raises Unsupported"""
    path = Path(repo) / REL_SOURCE
    try:
        raw = path.read_bytes()
    except OSError as e:
        raise Unsupported(f"cannot read {path}: {e}") from e
    sha = hashlib.sha256(raw).hexdigest()
    TVar.count = 0
    MethodTr.tvars = []
    try:
        body = ClassTr(raw.decode("utf-8")).run()
    except SyntaxError as e:
        raise Unsupported(f"{REL_SOURCE}:{e.lineno}: not parseable: {e.msg}") from e
    header = "\n".join([
        "/-",
        f"  Gen/TournGen.lean — GENERATED by harness/py2lean_tourn.py from class `{CLASS}`",
        f"  ({', '.join(TARGETS)}) of {REL_SOURCE}; do not edit.  Core Lean only.",
        "  `Proofs/TournGenEq.lean` proves the definitions equal to their counterparts in `Model/Tournament.lean`.",
        "-/",
        SHA_PREFIX + sha,
        "set_option linter.unusedVariables false",
        "",
    ])
    return header + "\n" + body, sha


def strip_sha(text: str) -> str:
    return "\n".join(ln for ln in text.split("\n") if not ln.startswith(SHA_PREFIX))


def write_if_changed(text: str, out: Path, force: bool = False) -> bool:
    """writes `text` unless the file already holds the same translation (sha line ignored)"""
    out = Path(out)
    old = out.read_text() if out.exists() else None
    if old is not None and not force and strip_sha(old) == strip_sha(text):
        return False
    if old == text:
        return False
    out.parent.mkdir(parents=True, exist_ok=True)
    tmp = out.with_suffix(".lean.tmp")
    tmp.write_text(text)
    os.replace(tmp, out)
    return True


def main(argv: list[str]) -> int:
    import argparse
    ap = argparse.ArgumentParser()
    ap.add_argument("--repo", default=None)
    ap.add_argument("--out", default=str(DEFAULT_OUT))
    ap.add_argument("--stdout", action="store_true")
    ap.add_argument("--force", action="store_true", help="rewrite even if only the sha256 line differs")
    a = ap.parse_args(argv)
    try:
        text, sha = translate(repo_dir(a.repo))
    except Unsupported as e:
        print(f"py2lean_tourn: {e}", file=sys.stderr)
        return 1
    if a.stdout:
        sys.stdout.write(text)
        return 0
    changed = write_if_changed(text, Path(a.out), a.force)
    print(f"{a.out}: {'written' if changed else 'unchanged'} (source sha256 {sha[:16]}…, "
          f"translation sha256 {hashlib.sha256(strip_sha(text).encode()).hexdigest()[:16]}…)")
    return 0


if __name__ == "__main__":
    sys.exit(main(sys.argv[1:]))
