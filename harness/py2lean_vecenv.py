#!/usr/bin/env python3
"""
py2lean_vecenv.py — translate the decision logic of the vectorised PettingZoo environment (property C12) into Lean 4:

  * REPO/agilerl/wrappers/pettingzoo_wrappers.py   `PettingZooAutoResetParallelWrapper.reset` / `.step`
  * REPO/agilerl/vector/pz_vec_env.py              `PettingZooVecEnv.step` (action de-batching, int conversion)
  * REPO/agilerl/vector/pz_async_vec_env.py        `AsyncPettingZooVecEnv.reset` / `.reset_async` / `.step_async`
                                                   (seeding, the messages put on the pipes), `get_placeholder_value`,
                                                   `process_transition`, `_async_worker` (command dispatch and the
                                                   "reset" / "step" branches)

    python3 harness/py2lean_vecenv.py [--repo DIR] [--out FILE] [--stdout] [--force]

Reads the *source text* only (Python `ast`; agilerl is never imported) and writes lean/Gen/VecEnvGen.lean (namespace
VecEnvGen, core Lean only).  `Proofs/VecEnvGenEq.lean` proves the generated definitions equal to the hand-written
model `Model/VecEnv.lean` (`wrapperStep`, `workerStep`, `fill`, `fillReset`, `transposeActs`, the `seed + i` of
`vecReset`, `stepResults`); `Props/C12.lean` restates the C12 theorems over the generated definitions.

Representation (the hand model's, stated once)
  * an agent is its position in `possible_agents` (a `Nat`); a dict keyed by agent is `PyDict β = List (Option β)`
    indexed by that position, `none` = key absent; `d[k]` is `pyGet d k : Option β` (`none` = KeyError), `d.keys()`
    is `pyKeys d` (position order), `{k: v for …}` is `pyDictOfPairs` (assignments in evaluation order);
  * the wrapped environment is an explicit parameter `env : PyEnv S A O R I Ω` — a record of functions
    `reset : S → seed? → options? → S × (obs dict × info dict)`, `step : S → action dict → S × (obs, reward,
    terminated, truncated, info dicts)`, `observation_space : agent → PySpace`; its state `st : S` is threaded through
    every call in statement order; `env.reset()` without arguments is `env.reset st none none` (ParallelEnv defaults);
  * an observation is an opaque `O`; the three containers `get_placeholder_value` builds (dict display, `tuple(…)`,
    ndarray) are the explicit constructors `C : ObsCtor α O`; `np.ones(shape)` of a member is `List.replicate size 1`
    (an observation member is its flat chunk), unary minus is element-wise; `space.shape` of a Dict / Tuple space,
    `.items()` of a non-Dict, iterating a non-Tuple are `none`;
  * a Python exception anywhere is `none`; a function none of whose statements can raise is a plain function.

What is translated, and where the translation cuts
  * wrapper: `reset` and `step` completely (`self.np_random, _ = …` and `self.agents = …` only store attributes that
    no translated method reads: skipped, listed as comments);
  * `PettingZooVecEnv.step`: everything up to `self.step_async(X)`; the value is the message list of `step_async`;
    `return self.step_wait()` is the cut (the parent's receive side: gathering replies, `_add_info`, the
    shared-memory read — hand model + correspondence only);
  * `AsyncPettingZooVecEnv.step_async` / `reset_async` / `reset`: the seed list, its length assert, and the loop
    `for pipe, x in zip(self.parent_pipes, X): pipe.send((COMMAND, DATA))` as the list of messages
    `(pipe index, COMMAND, DATA)`; `self.parent_pipes` is `List.range num_envs` (pipe i is connected to worker i by
    `__init__`, not translated).  `self._assert_is_running()`, the `self._state` test / raise / assignments are the
    call protocol (property C13) and skipped;
  * `_async_worker`: the statements before `try:`, then inside `try: while True:` the receive
    `command, data = pipe.recv()` and the `if command == "…" / elif` chain.  The chain becomes `worker_branch`
    (command string → position of the first test that holds); the branch that calls `env.step` becomes `worker_step`,
    the branch that calls `env.reset(**data)` becomes `worker_reset`; the type of `data` in a branch is the type of
    the payload the parent sends with that command string (that link IS the pipe: `pipe.send` / `pipe.recv` are the
    function-call boundary).  `write_to_shared_memory(index, observation, shared_memory, observation_space)` is
    recorded as the output "(index, observation) written" (its slice arithmetic is the hand model's `writeSlice`),
    `pipe.send((payload, True))` as the output "payload sent"; the write must precede the send.  The `except` /
    `finally` clauses, the "close" / "_call" / "_setattr" branches are not translated (only their command strings
    enter `worker_branch`);
  * `process_transition` is specialised at each call site on the literal list of transition names (the
    `for transition, name in zip(transitions, transition_names)` loop is unrolled over that literal, the list it
    appends to becomes a tuple); `get_placeholder_value` is specialised on the literal name (`match` on a constant);
  * `vec_step` / `vec_reset` at the end of the output are fixed glue over the generated names: message `(i, c, d)` is
    delivered to worker `i`, which runs the branch `worker_branch c`; every worker must get exactly one message.

Supported subset (anything else raises `Unsupported` naming construct and line — never a guess)
  * statements: docstring; `x = e`; `a, b, _ = e` (tuple / env result); `if / elif / else` (a branch may re-assign
    variables: joined as a tuple; a branch may `return`; `x is None` on an Optional parameter becomes a `match` that
    refines the type); `for x in e:` as structural recursion carrying the variables it re-assigns or mutates, with the
    two special forms above (send loop, unrolled zip); `assert e`; `return e`; `match <const>: case "lit":`;
    `x.append(e)`, `x[i].append(e)`; the calls named above;
  * expressions: `True/False/None`, ints, strings, names, `self.agents`, `self.num_envs`, `self.env`,
    `self.parent_pipes`; `d[k]`, `l[i]`, `t[<const>]`; `and / or / not` (short-circuit, also over operands that can
    raise), `|`, `&`, `+`, `==`, `!=`, `in <dict>.keys()`, `e1 if c else e2`; `all / any` of a generator (stops at
    the first decisive element) or of a list (built first); list / dict comprehensions and generators with one `for`;
    `list(…)`, `tuple(<generator>)`, `len`, `range`, `enumerate`, `zip`, `.keys()`, `.values()`, `.items()`,
    `isinstance` (of an action: an explicit predicate parameter named after the classes; of a space:
    `spaces.Dict` / `spaces.Tuple`; of an `int`-typed value against `int`: true), `int(a)`,
    `np.array(a).squeeze()`, `np.ones(n)`, unary minus, dict displays with string keys (keyword records).

Assumptions (external / runtime calls become explicit parameters)
  * `isinstance(action, (int, np.integer))`, `isinstance(action, int)` are predicates `isinstance_int_np_integer`,
    `isinstance_int : A → Bool`; `int(action)` is `py_int : A → A`, `np.array(action).squeeze()` is
    `np_squeeze : A → A` (the equalities assume `py_int` keeps the value of an integer and `np_squeeze` keeps the
    value); `{}` as a placeholder info is `emptyInfo : I`; the literal reward `0` is `(0 : R)`;
  * seeds are naturals (`Option Nat`, as in the model);
  * pipe i ↔ worker i ↔ `index = i`; messages on one pipe arrive in order.

Shape of the output: one `def` per translated function (`Wrapper.reset`, `Wrapper.step`,
`AsyncPettingZooVecEnv.step_async/reset_async/reset`, `PettingZooVecEnv.step` + `_loopK`,
`get_placeholder_value_<name>`, `process_transition_<names>`, `worker_branch`, `worker_reset`, `worker_step`,
constants `worker_{reset,step}_branch`, `{reset,step}_async_command`), then `vec_reset` / `vec_step`.  Parameters are
`a0, a1, …` by position, locals `v0, v1, …` in order of first binding, bound results `r0, …`, joins `j0, …`: renaming
a local does not change the text.  The header carries the sha256 of the three sources; `write_if_changed` ignores
those lines.
"""
from __future__ import annotations

import ast
import hashlib
import os
import sys
from pathlib import Path

HERE = Path(__file__).resolve().parent
DEFAULT_OUT = HERE.parent / "lean" / "Gen" / "VecEnvGen.lean"
REL_WRAP = "agilerl/wrappers/pettingzoo_wrappers.py"
REL_VEC = "agilerl/vector/pz_vec_env.py"
REL_ASYNC = "agilerl/vector/pz_async_vec_env.py"
REL_SOURCES = (REL_WRAP, REL_VEC, REL_ASYNC)
REL_SOURCE = "agilerl/{wrappers/pettingzoo_wrappers,vector/pz_vec_env,vector/pz_async_vec_env}.py"   # messages only
SHA_PREFIX = "-- sha256("


class Unsupported(Exception):
    pass


# ----------------------------------------------------------------------------------------------- types
class Ty:
    def __init__(self, kind, *args):
        self.kind, self.args = kind, tuple(args)

    def __eq__(self, o):
        return isinstance(o, Ty) and self.kind == o.kind and self.args == o.args

    def __hash__(self):
        return hash((self.kind, self.args))

    def __repr__(self):
        return self.kind + (repr(list(self.args)) if self.args else "")

    def lean(self) -> str:
        k = self.kind
        if k in ATOMS:
            return ATOMS[k]
        if k == "opt":
            return f"Option {patom(self.args[0].lean())}"
        if k == "list":
            return f"List {patom(self.args[0].lean())}"
        if k == "dict":
            return f"PyDict {patom(self.args[0].lean())}"
        if k in ("tuple", "rec"):
            ts = self.args[0] if k == "tuple" else self.args[1]
            if not ts:
                return "Unit"
            return " × ".join(patom(t.lean()) if t.kind in ("tuple", "rec") and i < len(ts) - 1 else t.lean()
                              for i, t in enumerate(ts))
        raise AssertionError(f"no Lean type for {self!r}")


ATOMS = {"bool": "Bool", "nat": "Nat", "str": "String", "act": "A", "rew": "R", "info": "I", "opts": "Ω",
         "obs": "O", "chunk": "List α", "space": "PySpace", "member": "Nat"}
BOOL, NAT, STR, ACT, REW, INFO, OPTS, OBS, CHUNK, SPACE, MEMBER = (Ty(k) for k in ATOMS)
NONE, NUMLIT, EMPTYLIST, EMPTYDICT = Ty("none"), Ty("numlit"), Ty("emptylist"), Ty("emptydict")
ENV, PIPE, PIPES, SHM, ENVFN, OTHER = Ty("env"), Ty("pipe"), Ty("pipes"), Ty("shm"), Ty("envfn"), Ty("other")


def opt(t): return Ty("opt", t)
def lst(t): return Ty("list", t)
def dct(t): return Ty("dict", t)
def tup(*ts): return Ty("tuple", tuple(ts))
def rec(keys, ts): return Ty("rec", tuple(keys), tuple(ts))


STEP_RESULT = tup(dct(OBS), dct(REW), dct(BOOL), dct(BOOL), dct(INFO))
RESET_RESULT = tup(dct(OBS), dct(INFO))
MSG = lambda payload: lst(tup(NAT, STR, payload))        # noqa: E731


def balanced_outer(s: str) -> bool:
    if not (s.startswith("(") and s.endswith(")")):
        return False
    d = 0
    for i, c in enumerate(s):
        d += c == "("
        d -= c == ")"
        if d == 0 and i < len(s) - 1:
            return False
    return True


def patom(s: str) -> str:
    """parenthesise a Lean term / type unless it is atomic"""
    if " " not in s or balanced_outer(s) or (s.startswith("[") and s.endswith("]") and s.count("[") == 1):
        return s
    return f"({s})"


def proj(txt: str, k: int, n: int) -> str:
    """component k of a right-nested n-tuple"""
    if n == 1:
        return txt
    base = patom(txt)
    return base + ".2" * k + (".1" if k < n - 1 else "")


class Val:
    """a translated expression: `txt` is a plain Lean term once the `binds` (name, Option-valued term) have been
    evaluated in order; `raw` = `txt` itself is Option-valued (normalised away by `Fn.norm`)"""

    def __init__(self, txt, ty, raw=False, const=None, binds=None):
        self.txt, self.ty, self.raw, self.const, self.binds = txt, ty, raw, const, list(binds or [])

    @property
    def fall(self) -> bool:
        return self.raw or bool(self.binds)

    def o(self) -> str:
        """the value in Option mode"""
        if self.raw:
            return self.txt
        if not self.binds:
            return f"some {patom(self.txt)}"
        binds = list(self.binds)
        if binds[-1][0] == self.txt:
            inner = binds.pop()[1]
        else:
            inner = f"some {patom(self.txt)}"
        for r, e in reversed(binds):
            inner = f"Option.bind {patom(e)} (fun {r} => {inner})"
        return inner


# explicit / instance parameters a generated definition may need, in signature order
EXT_ORDER = ["instNeg", "instOne", "instZeroR", "isinstance_int", "isinstance_int_np_integer", "py_int", "np_squeeze",
             "emptyInfo", "C"]
EXT_DECL = {"instNeg": "[Neg α]", "instOne": "[OfNat α 1]", "instZeroR": "[OfNat R 0]",
            "isinstance_int": "(isinstance_int : A → Bool)",
            "isinstance_int_np_integer": "(isinstance_int_np_integer : A → Bool)",
            "py_int": "(py_int : A → A)", "np_squeeze": "(np_squeeze : A → A)",
            "emptyInfo": "(emptyInfo : I)", "C": "(C : ObsCtor α O)"}


def ext_decl(exts) -> str:
    return "".join(" " + EXT_DECL[e] for e in EXT_ORDER if e in exts)


def ext_args(exts) -> str:
    return "".join(" " + e for e in EXT_ORDER if e in exts and not e.startswith("inst"))


PRELUDE = r'''
/-! ### Python semantics used by the translation (fixed text) -/

/-- a dict keyed by agent: position = index of the agent in `possible_agents`, `none` = key absent -/
abbrev PyDict (β : Type) := List (Option β)

/-- `d[k]` (`none` = KeyError) -/
def pyGet (d : PyDict β) (k : Nat) : Option β := (d[k]?).join

/-- `d.keys()` -/
def pyKeys (d : PyDict β) : List Nat := (List.range d.length).filter (fun k => (pyGet d k).isSome)

/-- `d.values()` -/
def pyValues (d : PyDict β) : List β := d.filterMap id

/-- `l[i]` for `i ≥ 0` (`none` = IndexError) -/
def pyIdx (l : List β) (i : Nat) : Option β := l[i]?

/-- `d[k] = v` -/
def pySet (d : PyDict β) (k : Nat) (v : β) : PyDict β :=
  if k < d.length then d.set k (some v) else d ++ List.replicate (k - d.length) none ++ [some v]

/-- `{k: v for …}` from its (key, value) pairs in evaluation order (a later pair of a key overwrites) -/
def pyDictOfPairs (ps : List (Nat × β)) : PyDict β := ps.foldl (fun d p => pySet d p.1 p.2) []

/-- a list whose elements are evaluated in order; the first exception aborts -/
def pySeq : List (Option β) → Option (List β)
  | [] => some []
  | none :: _ => none
  | some x :: r => (pySeq r).map (fun xs => x :: xs)

/-- `all(<generator>)`: stops at the first `False`; an exception before that propagates -/
def pyAllGen : List (Option Bool) → Option Bool
  | [] => some true
  | none :: _ => none
  | some false :: _ => some false
  | some true :: r => pyAllGen r

/-- `any(<generator>)` -/
def pyAnyGen : List (Option Bool) → Option Bool
  | [] => some false
  | none :: _ => none
  | some true :: _ => some true
  | some false :: r => pyAnyGen r

/-- `all([...])` / `any([...])`: the list is built first -/
def pyAllList (l : List (Option Bool)) : Option Bool := (pySeq l).map (fun bs => bs.all id)
def pyAnyList (l : List (Option Bool)) : Option Bool := (pySeq l).map (fun bs => bs.any id)

/-- `a or b` / `a and b` (the right operand is evaluated only when needed) -/
def pyOr : Option Bool → Option Bool → Option Bool
  | none, _ => none
  | some true, _ => some true
  | some false, y => y
def pyAnd : Option Bool → Option Bool → Option Bool
  | none, _ => none
  | some false, _ => some false
  | some true, y => y

/-- `a | b` / `a & b` on booleans (both operands are evaluated) -/
def pyBitOr : Option Bool → Option Bool → Option Bool
  | some a, some b => some (a || b)
  | _, _ => none
def pyBitAnd : Option Bool → Option Bool → Option Bool
  | some a, some b => some (a && b)
  | _, _ => none

/-- `enumerate(l)` -/
def pyEnumerate (l : List β) : List (Nat × β) := l.zipIdx.map (fun p => (p.2, p.1))

/-- `l[i].append(x)` on a list of lists (`none` = IndexError) -/
def pyAppendAt (l : List (List β)) (i : Nat) (x : β) : Option (List (List β)) :=
  (l[i]?).map (fun row => l.set i (row ++ [x]))

/-- `np.ones(n)` as a flat chunk; unary minus of an array -/
def npOnes [OfNat α 1] (n : Nat) : List α := List.replicate n 1
def pyNeg [Neg α] (l : List α) : List α := l.map (fun x => -x)

/-- an observation space: the flat sizes of its members (`int(np.prod(subspace.shape))`) -/
inductive PySpace where
  | dict (members : List Nat)
  | tuple (members : List Nat)
  | box (size : Nat)
deriving Repr, DecidableEq

def PySpace.isDict : PySpace → Bool
  | .dict _ => true
  | _ => false
def PySpace.isTuple : PySpace → Bool
  | .tuple _ => true
  | _ => false
/-- `space.items()` as (key position, member) pairs (`none` = AttributeError) -/
def PySpace.items : PySpace → Option (List (Nat × Nat))
  | .dict ms => some (pyEnumerate ms)
  | _ => none
/-- `for s in space` (`none` = TypeError) -/
def PySpace.iter : PySpace → Option (List Nat)
  | .tuple ms => some ms
  | _ => none
/-- `space.shape` (`None` for Dict / Tuple spaces, on which `np.ones` raises) -/
def PySpace.shape : PySpace → Option Nat
  | .box n => some n
  | _ => none

/-- the three containers a placeholder observation is built with -/
structure ObsCtor (α O : Type) where
  ofDict : PyDict (List α) → O
  ofTuple : List (List α) → O
  ofArray : List α → O

/-- the wrapped PettingZoo `ParallelEnv`, its state threaded explicitly -/
structure PyEnv (S A O R I Ω : Type) where
  reset : S → Option Nat → Option Ω → S × (PyDict O × PyDict I)
  step : S → PyDict A → S × (PyDict O × PyDict R × PyDict Bool × PyDict Bool × PyDict I)
  observation_space : Nat → PySpace
'''


def ind(lines, n=2):
    return [" " * n + ln for ln in lines]


def is_docstring(st) -> bool:
    return isinstance(st, ast.Expr) and isinstance(st.value, ast.Constant) and isinstance(st.value.value, str)


def dotted(n):
    if isinstance(n, ast.Name):
        return n.id
    if isinstance(n, ast.Attribute):
        b = dotted(n.value)
        return None if b is None else f"{b}.{n.attr}"
    return None


def self_attr(n, attr=None) -> bool:
    return isinstance(n, ast.Attribute) and isinstance(n.value, ast.Name) and n.value.id == "self" \
        and (attr is None or n.attr == attr)


def lean_str(s: str) -> str:
    if any(c in s for c in '"\\\n'):
        raise Unsupported(f"string literal {s!r}")
    return f'"{s}"'


# ----------------------------------------------------------------------------------------------- one function
RET, LRET = "«RET»", "«LRET»"
EXTDECL, EXTARGS = "«EXTDECL»", "«EXTARGS»"


class Fn:
    """translation context of one Python function (or one specialisation / one worker branch)"""

    def __init__(self, tr, rel: str, lean_name: str, threads: bool, ctx_params=(), selfmap=None):
        self.tr, self.rel, self.lean_name, self.threads = tr, rel, lean_name, threads
        self.ctx_params = list(ctx_params)          # [(lean name, Ty)] context parameters (env, agents, num_envs …)
        self.selfmap = selfmap or {}                # self.<attr> -> Val
        self.vars: dict[str, Val] = {}              # python name -> current value
        self.k_local = self.k_bind = self.k_join = self.k_loop = 0
        self.exts: set[str] = set()
        self.cur_fall = False                       # a fallible construct was emitted
        self.fall = True                            # the function returns Option
        self.ret_ty = None
        self.ret_expect = None
        self.pre_defs: list[list[str]] = []
        self.msgs: Val | None = None                # messages sent (send loop / call of a sending method)
        self.written = None                         # worker branch: (index text, observation text)
        self.sent: Val | None = None
        self.in_lambda = 0
        self.builders: dict[str, list] = {}     # lists built by `.append` at the top level of the function

    # ------------------------------------------------------------ helpers
    def fail(self, node, what: str):
        raise Unsupported(f"{self.rel}:{getattr(node, 'lineno', '?')}: unsupported construct: {what}")

    def fresh(self, kind="v") -> str:
        k = getattr(self, {"v": "k_local", "r": "k_bind", "j": "k_join"}[kind])
        setattr(self, {"v": "k_local", "r": "k_bind", "j": "k_join"}[kind], k + 1)
        return f"{kind}{k}"

    def use(self, *exts):
        self.exts.update(exts)

    def ctx_decl(self) -> str:
        return "".join(f" ({n} : {self.ctx_lean(t)})" for n, t in self.ctx_params)

    def ctx_args(self) -> str:
        return "".join(f" {n}" for n, _ in self.ctx_params)

    @staticmethod
    def ctx_lean(t) -> str:
        return "PyEnv S A O R I Ω" if t == ENV else "S" if t.kind == "state" else t.lean()

    def norm(self, v: Val) -> Val:
        if not v.raw:
            return v
        r = self.fresh("r")
        return Val(r, v.ty, binds=list(v.binds) + [(r, v.txt)])

    def lift(self, vals, build) -> Val:
        """evaluate `vals` left to right (each may raise), then `build(texts) -> Val`"""
        binds, texts = [], []
        for v in vals:
            v = self.norm(v)
            binds += v.binds
            texts.append(v.txt)
        res = self.norm(build(texts))
        return Val(res.txt, res.ty, const=None if binds else res.const, binds=binds + res.binds)

    # ------------------------------------------------------------ expressions
    def ex(self, n) -> Val:
        m = getattr(self, "ex_" + type(n).__name__, None)
        if m is None:
            self.fail(n, f"expression {type(n).__name__}")
        return self.norm(m(n))

    def ex_Constant(self, n):
        v = n.value
        if type(v) is bool:
            return Val("true" if v else "false", BOOL, const=v)
        if type(v) is int and v >= 0:
            return Val(str(v), NUMLIT, const=v)
        if v is None:
            return Val("none", NONE)
        if type(v) is str:
            return Val(lean_str(v), STR, const=v)
        self.fail(n, f"constant {v!r}")

    def ex_Name(self, n):
        if n.id not in self.vars:
            self.fail(n, f"name {n.id} (not a parameter / local assigned before on every path)")
        return self.vars[n.id]

    def ex_Attribute(self, n):
        if self_attr(n):
            if n.attr in self.selfmap:
                return self.selfmap[n.attr]
            self.fail(n, f"attribute self.{n.attr}")
        if n.attr == "shape":
            v = self.ex(n.value)
            if v.ty == MEMBER:
                return Val(v.txt, NAT)
            if v.ty == SPACE:
                return self.lift([v], lambda t: Val(f"PySpace.shape {patom(t[0])}", NAT, True))
            self.fail(n, f".shape of a value of type {v.ty!r}")
        self.fail(n, f"attribute .{n.attr}")

    def ex_Subscript(self, n):
        base = self.ex(n.value)
        if base.ty.kind in ("tuple", "rec"):
            ts = base.ty.args[0] if base.ty.kind == "tuple" else base.ty.args[1]
            if not (isinstance(n.slice, ast.Constant) and type(n.slice.value) is int and 0 <= n.slice.value < len(ts)):
                self.fail(n, "subscript of a tuple other than a constant index in range")
            k = n.slice.value
            return self.lift([base], lambda t: Val(proj(t[0], k, len(ts)), ts[k]))
        idx = self.ex(n.slice)
        if base.ty.kind == "dict" and idx.ty in (NAT, NUMLIT):
            return self.lift([base, idx], lambda t: Val(f"pyGet {patom(t[0])} {patom(t[1])}", base.ty.args[0], True))
        if base.ty.kind == "list" and idx.ty in (NAT, NUMLIT):
            return self.lift([base, idx], lambda t: Val(f"pyIdx {patom(t[0])} {patom(t[1])}", base.ty.args[0], True))
        self.fail(n, f"subscript [{idx.ty!r}] of a value of type {base.ty!r}")

    def ex_Tuple(self, n):
        vs = [self.ex(e) for e in n.elts]
        for v, e in zip(vs, n.elts):
            if v.ty.kind in ("none", "numlit", "emptylist", "emptydict", "env", "pipe", "pipes", "shm", "envfn", "other"):
                self.fail(e, f"tuple element of type {v.ty!r}")
        return self.lift(vs, lambda t: Val("(" + ", ".join(t) + ")", tup(*[v.ty for v in vs])))

    def ex_List(self, n):
        if not n.elts:
            return Val("[]", EMPTYLIST)
        vs = [self.ex(e) for e in n.elts]
        if all(v.ty == STR and v.const is not None for v in vs):
            return Val("[" + ", ".join(v.txt for v in vs) + "]", lst(STR), const=[v.const for v in vs])
        self.fail(n, "list display other than [] or a list of string literals")

    def ex_Dict(self, n):
        if not n.keys:
            return Val("()", EMPTYDICT)
        keys = []
        for k in n.keys:
            if not (isinstance(k, ast.Constant) and type(k.value) is str):
                self.fail(n, "dict display with a key that is not a string literal")
            keys.append(k.value)
        if len(set(keys)) != len(keys):
            self.fail(n, "dict display with a repeated key")
        vs = [self.ex(v) for v in n.values]
        for v, e in zip(vs, n.values):
            if v.ty.kind not in ("opt", "nat", "bool", "act", "list", "dict"):
                self.fail(e, f"dict display value of type {v.ty!r}")
        return self.lift(vs, lambda t: Val("(" + ", ".join(t) + ")" if len(t) > 1 else t[0],
                                           rec(keys, [v.ty for v in vs])))

    def ex_BoolOp(self, n):
        vs = [self.ex(v) for v in n.values]
        for v, e in zip(vs, n.values):
            if v.ty != BOOL:
                self.fail(e, f"operand of and / or of type {v.ty!r}")
        is_or = isinstance(n.op, ast.Or)
        if not any(v.fall for v in vs):
            return Val("(" + (" || " if is_or else " && ").join(v.txt for v in vs) + ")", BOOL)
        txt = vs[-1].o()
        for v in reversed(vs[:-1]):
            txt = f"{'pyOr' if is_or else 'pyAnd'} {patom(v.o())} {patom(txt)}"
        return Val(txt, BOOL, True)

    def ex_BinOp(self, n):
        a, b = self.ex(n.left), self.ex(n.right)
        if isinstance(n.op, (ast.BitOr, ast.BitAnd)):
            if a.ty != BOOL or b.ty != BOOL:
                self.fail(n, f"| / & on values of type {a.ty!r}, {b.ty!r}")
            is_or = isinstance(n.op, ast.BitOr)
            if not (a.fall or b.fall):
                return Val(f"({a.txt} {'||' if is_or else '&&'} {b.txt})", BOOL)
            return Val(f"{'pyBitOr' if is_or else 'pyBitAnd'} {patom(a.o())} {patom(b.o())}", BOOL, True)
        if isinstance(n.op, ast.Add):
            if a.ty not in (NAT, NUMLIT) or b.ty not in (NAT, NUMLIT):
                self.fail(n, f"+ on values of type {a.ty!r}, {b.ty!r}")
            return self.lift([a, b], lambda t: Val(f"({t[0]} + {t[1]})", NAT))
        self.fail(n, f"operator {type(n.op).__name__}")

    def ex_UnaryOp(self, n):
        v = self.ex(n.operand)
        if isinstance(n.op, ast.Not):
            if v.ty != BOOL:
                self.fail(n, f"not of a value of type {v.ty!r}")
            return self.lift([v], lambda t: Val(f"(!{patom(t[0])})", BOOL))
        if isinstance(n.op, ast.USub):
            if v.ty != CHUNK:
                self.fail(n, f"unary minus of a value of type {v.ty!r}")
            self.use("instNeg")
            return self.lift([v], lambda t: Val(f"pyNeg {patom(t[0])}", CHUNK))
        self.fail(n, f"unary operator {type(n.op).__name__}")

    def ex_Compare(self, n):
        if len(n.ops) != 1:
            self.fail(n, "chained comparison")
        op, left, right = n.ops[0], n.left, n.comparators[0]
        if isinstance(op, (ast.In, ast.NotIn)):
            a, b = self.ex(left), self.ex(right)
            if a.ty != NAT or b.ty != lst(NAT):
                self.fail(n, f"`in` on values of type {a.ty!r}, {b.ty!r}")
            neg = "!" if isinstance(op, ast.NotIn) else ""
            return self.lift([a, b], lambda t: Val(f"({neg}{patom(t[1])}.contains {patom(t[0])})", BOOL))
        if isinstance(op, (ast.Eq, ast.NotEq)):
            a, b = self.ex(left), self.ex(right)
            ok = (a.ty in (NAT, NUMLIT) and b.ty in (NAT, NUMLIT)) or (a.ty == STR and b.ty == STR)
            if not ok:
                self.fail(n, f"== / != on values of type {a.ty!r}, {b.ty!r}")
            if a.const is not None and b.const is not None:
                c = (a.const == b.const) == isinstance(op, ast.Eq)
                return Val("true" if c else "false", BOOL, const=c)
            o = "==" if isinstance(op, ast.Eq) else "!="
            return self.lift([a, b], lambda t: Val(f"({t[0]} {o} {t[1]})", BOOL))
        self.fail(n, f"comparison {type(op).__name__}")

    def ex_IfExp(self, n):
        c = self.ex(n.test)
        is_ph = lambda e: isinstance(e, ast.Call) and dotted(e.func) == "get_placeholder_value"    # noqa: E731
        saved = self.expect
        if is_ph(n.orelse) and not is_ph(n.body):
            a = self.ex(n.body)
            self.expect = a.ty
            b = self.ex(n.orelse)
        elif is_ph(n.body) and not is_ph(n.orelse):
            b = self.ex(n.orelse)
            self.expect = b.ty
            a = self.ex(n.body)
        else:
            a, b = self.ex(n.body), self.ex(n.orelse)
        self.expect = saved
        if c.ty != BOOL:
            self.fail(n.test, f"condition of type {c.ty!r}")
        a, b = self.unify(n, a, b)
        if not (a.fall or b.fall):
            body = lambda t: Val(f"(if {t[0]} then {a.txt} else {b.txt})", a.ty)       # noqa: E731
        else:
            body = lambda t: Val(f"(if {t[0]} then {a.o()} else {b.o()})", a.ty, True)  # noqa: E731
        return self.lift([c], body)

    def unify(self, node, a: Val, b: Val):
        """both branches of a conditional at one type (literals take the type of the other branch)"""
        if a.ty == b.ty:
            return a, b
        for x, y in ((a, b), (b, a)):          # [None, …] and [n, …]: a list of Optional[int]
            if x.ty == lst(NONE) and y.ty.kind == "list" and y.ty.args[0] in (NAT, NUMLIT):
                t = lst(opt(NAT))
                x2 = self.lift([x], lambda tx: Val(f"({tx[0]} : {t.lean()})", t))
                y2 = self.lift([y], lambda tx: Val(f"{patom(tx[0])}.map some", t))
                return (x2, y2) if x is a else (y2, x2)
        for x, y, first in ((a, b, True), (b, a, False)):
            cx = self.coerce(node, x, y.ty, soft=True)
            if cx is not None:
                return (cx, y) if first else (y, cx)
        self.fail(node, f"branches of types {a.ty!r} and {b.ty!r}")

    def coerce(self, node, v: Val, want: Ty, soft=False):
        if v.ty == want:
            return v
        if v.ty == NUMLIT and want == NAT:
            return Val(v.txt, NAT, const=v.const, binds=v.binds)
        if v.ty == NUMLIT and want == REW and v.const == 0:
            self.use("instZeroR")
            return Val("(0 : R)", REW)
        if v.ty == EMPTYDICT and want == INFO:
            self.use("emptyInfo")
            return Val("emptyInfo", INFO)
        if want == OBS and v.ty in (dct(CHUNK), lst(CHUNK), CHUNK):
            self.use("C")
            f = {"dict": "C.ofDict", "list": "C.ofTuple", "chunk": "C.ofArray"}[v.ty.kind]
            return self.lift([v], lambda t: Val(f"{f} {patom(t[0])}", OBS))
        if want.kind == "opt" and v.ty == NONE:
            return Val(f"(none : {want.lean()})", want)
        if want.kind == "opt":
            inner = self.coerce(node, v, want.args[0], soft=True)
            if inner is not None:
                return self.lift([inner], lambda t: Val(f"some {patom(t[0])}", want))
        if want.kind == "list" and v.ty == EMPTYLIST:
            return Val(f"([] : {want.lean()})", want)
        if soft:
            return None
        self.fail(node, f"a value of type {v.ty!r} where {want!r} is expected")

    # ---- comprehensions
    def comp_open(self, n):
        """one `for target in iter` clause: returns (iter Val, lambda variable, saved scope)"""
        if len(n.generators) != 1:
            self.fail(n, "comprehension with more than one `for`")
        g = n.generators[0]
        if g.ifs or g.is_async:
            self.fail(n, "comprehension with `if` / async")
        it = self.ex(g.iter)
        if it.ty == SPACE:
            it = self.lift([it], lambda t: Val(f"PySpace.iter {patom(t[0])}", lst(MEMBER), True))
        if it.ty.kind != "list":
            self.fail(g.iter, f"iteration over a value of type {it.ty!r}")
        saved = dict(self.vars)
        p = self.bind_target(g.target, it.ty.args[0], None)
        return it, p, saved

    def bind_target(self, tg, ty: Ty, lines):
        """bind a loop / comprehension target to an element; returns the lambda / pattern variable.
        `lines` is None inside a lambda (components are projections), else receives `let` lines."""
        if isinstance(tg, ast.Name):
            if tg.id == "_":
                return "_"
            p = self.fresh("v")
            self.vars[tg.id] = Val(p, ty)
            return p
        if isinstance(tg, ast.Tuple) and ty.kind == "tuple" and len(tg.elts) == len(ty.args[0]):
            p = self.fresh("v")
            ts = ty.args[0]
            for k, e in enumerate(tg.elts):
                if not isinstance(e, ast.Name):
                    self.fail(e, "nested loop target")
                if e.id == "_":
                    continue
                if lines is None:
                    self.vars[e.id] = Val(proj(p, k, len(ts)), ts[k])
                else:
                    v = self.fresh("v")
                    lines.append(f"let {v} := {proj(p, k, len(ts))}")
                    self.vars[e.id] = Val(v, ts[k])
            return p
        self.fail(tg, f"loop target for elements of type {ty!r}")

    def comp_list(self, n, elt: Val, it: Val, p: str) -> Val:
        if elt.ty.kind in ("env", "pipe", "pipes", "shm", "envfn", "other", "numlit", "emptydict"):
            self.fail(n, f"comprehension element of type {elt.ty!r}")
        if elt.fall:
            return self.lift([it], lambda t: Val(f"pySeq ({patom(t[0])}.map (fun {p} => {elt.o()}))", lst(elt.ty), True))
        return self.lift([it], lambda t: Val(f"{patom(t[0])}.map (fun {p} => {elt.txt})", lst(elt.ty)))

    def ex_ListComp(self, n):
        it, p, saved = self.comp_open(n)
        self.in_lambda += 1
        elt = self.ex(n.elt)
        self.in_lambda -= 1
        self.vars = saved
        return self.comp_list(n, elt, it, p)

    def ex_DictComp(self, n):
        it, p, saved = self.comp_open(n)
        self.in_lambda += 1
        k, v = self.ex(n.key), self.ex(n.value)
        self.in_lambda -= 1
        self.vars = saved
        if k.ty != NAT:
            self.fail(n.key, f"dict comprehension key of type {k.ty!r} (agents / member positions are supported)")
        pair = self.lift([k, v], lambda t: Val(f"({t[0]}, {t[1]})", tup(NAT, v.ty)))
        pairs = self.comp_list(n, pair, it, p)
        return self.lift([pairs], lambda t: Val(f"pyDictOfPairs {patom(t[0])}", dct(v.ty)))

    def ex_GeneratorExp(self, n):
        self.fail(n, "generator expression outside all(…) / any(…) / tuple(…)")

    # ---- calls
    def plain_args(self, n, k):
        if n.keywords or len(n.args) != k or any(isinstance(a, ast.Starred) for a in n.args):
            self.fail(n, f"arguments of {ast.unparse(n.func)}")
        return n.args

    def ex_Call(self, n):
        f, name = n.func, dotted(n.func)
        if name in ("all", "any"):
            (a,) = self.plain_args(n, 1)
            if not isinstance(a, (ast.GeneratorExp, ast.ListComp)):
                self.fail(n, f"{name}(…) of something other than a generator / list comprehension")
            it, p, saved = self.comp_open(a)
            self.in_lambda += 1
            elt = self.ex(a.elt)
            self.in_lambda -= 1
            self.vars = saved
            if elt.ty != BOOL:
                self.fail(a.elt, f"{name}(…) over elements of type {elt.ty!r}")
            fn = "py" + name.capitalize() + ("Gen" if isinstance(a, ast.GeneratorExp) else "List")
            return self.lift([it], lambda t: Val(f"{fn} ({patom(t[0])}.map (fun {p} => {elt.o()}))", BOOL, True))
        if name == "list":
            (a,) = self.plain_args(n, 1)
            v = self.ex(a)
            if v.ty.kind != "list":
                self.fail(n, f"list(…) of a value of type {v.ty!r}")
            return v
        if name == "tuple":
            (a,) = self.plain_args(n, 1)
            if not isinstance(a, ast.GeneratorExp):
                self.fail(n, "tuple(…) of something other than a generator")
            it, p, saved = self.comp_open(a)
            self.in_lambda += 1
            elt = self.ex(a.elt)
            self.in_lambda -= 1
            self.vars = saved
            return self.comp_list(a, elt, it, p)
        if name == "len":
            (a,) = self.plain_args(n, 1)
            v = self.ex(a)
            if v.ty.kind != "list":
                self.fail(n, f"len of a value of type {v.ty!r}")
            return self.lift([v], lambda t: Val(f"{patom(t[0])}.length", NAT))
        if name == "range":
            (a,) = self.plain_args(n, 1)
            v = self.ex(a)
            if v.ty not in (NAT, NUMLIT):
                self.fail(n, f"range of a value of type {v.ty!r}")
            return self.lift([v], lambda t: Val(f"List.range {patom(t[0])}", lst(NAT)))
        if name == "enumerate":
            (a,) = self.plain_args(n, 1)
            v = self.ex(a)
            if v.ty.kind != "list":
                self.fail(n, f"enumerate of a value of type {v.ty!r}")
            return self.lift([v], lambda t: Val(f"pyEnumerate {patom(t[0])}", lst(tup(NAT, v.ty.args[0]))))
        if name == "zip":
            a, b = (self.ex(x) for x in self.plain_args(n, 2))
            if a.ty.kind != "list" or b.ty.kind != "list":
                self.fail(n, f"zip of values of type {a.ty!r}, {b.ty!r}")
            return self.lift([a, b], lambda t: Val(f"List.zip {patom(t[0])} {patom(t[1])}",
                                                   lst(tup(a.ty.args[0], b.ty.args[0]))))
        if name == "isinstance":
            a, c = self.plain_args(n, 2)
            v = self.ex(a)
            classes = [dotted(e) for e in c.elts] if isinstance(c, ast.Tuple) else [dotted(c)]
            if any(x is None for x in classes):
                self.fail(n, "isinstance with a class expression")
            if v.ty == ACT:
                ext = "isinstance_" + "_".join(x.replace(".", "_").replace("numpy", "np") for x in classes)
                if ext not in EXT_DECL:
                    self.fail(n, f"isinstance of an action against {classes} (int / (int, np.integer) are supported)")
                self.use(ext)
                return self.lift([v], lambda t: Val(f"{ext} {patom(t[0])}", BOOL))
            if v.ty == SPACE and classes in (["spaces.Dict"], ["spaces.Tuple"]):
                fn = "PySpace.isDict" if classes == ["spaces.Dict"] else "PySpace.isTuple"
                return self.lift([v], lambda t: Val(f"{fn} {patom(t[0])}", BOOL))
            if v.ty == NAT and classes == ["int"]:
                return Val("true", BOOL, const=True)
            self.fail(n, f"isinstance of a value of type {v.ty!r} against {classes}")
        if name == "int":
            (a,) = self.plain_args(n, 1)
            v = self.ex(a)
            if v.ty != ACT:
                self.fail(n, f"int(…) of a value of type {v.ty!r}")
            self.use("py_int")
            return self.lift([v], lambda t: Val(f"py_int {patom(t[0])}", ACT))
        if isinstance(f, ast.Attribute) and f.attr == "squeeze" and isinstance(f.value, ast.Call) \
                and dotted(f.value.func) in ("np.array", "numpy.array", "np.asarray"):
            self.plain_args(n, 0)
            (a,) = self.plain_args(f.value, 1)
            v = self.ex(a)
            if v.ty != ACT:
                self.fail(n, f"np.array(…).squeeze() of a value of type {v.ty!r}")
            self.use("np_squeeze")
            return self.lift([v], lambda t: Val(f"np_squeeze {patom(t[0])}", ACT))
        if name in ("np.ones", "numpy.ones"):
            (a,) = self.plain_args(n, 1)
            v = self.ex(a)
            if v.ty != NAT:
                self.fail(n, f"np.ones of a value of type {v.ty!r} (the flat size of a member)")
            self.use("instOne")
            return self.lift([v], lambda t: Val(f"npOnes {patom(t[0])}", CHUNK))
        if name == "get_placeholder_value":
            return self.call_placeholder(n)
        if name == "process_transition":
            return self.call_process_transition(n)
        if isinstance(f, ast.Attribute):
            recv = self.ex(f.value)
            if f.attr in ("keys", "values") and recv.ty.kind == "dict":
                self.plain_args(n, 0)
                if f.attr == "keys":
                    return self.lift([recv], lambda t: Val(f"pyKeys {patom(t[0])}", lst(NAT)))
                return self.lift([recv], lambda t: Val(f"pyValues {patom(t[0])}", lst(recv.ty.args[0])))
            if f.attr == "items" and recv.ty == SPACE:
                self.plain_args(n, 0)
                return self.lift([recv], lambda t: Val(f"PySpace.items {patom(t[0])}", lst(tup(NAT, MEMBER)), True))
            if f.attr == "observation_space" and recv.ty == ENV:
                (a,) = self.plain_args(n, 1)
                v = self.ex(a)
                if v.ty != NAT:
                    self.fail(n, f"observation_space of a value of type {v.ty!r}")
                return self.lift([v], lambda t: Val(f"{recv.txt}.observation_space {patom(t[0])}", SPACE))
        self.fail(n, f"call of {name or ast.unparse(f)}")

    def call_generated(self, node, sig, args: list) -> Val:
        """a call of a generated definition; `args` are Vals for its parameters in order"""
        self.exts.update(sig.exts)
        coerced = [self.coerce(node, a, t) for a, (_, t) in zip(args, sig.params)]
        ctx = "".join(f" {self.ctx_value(node, n, t)}" for n, t in sig.ctx_params)

        def build(t):
            return Val(f"{sig.lean_name}{ext_args(sig.exts)}{ctx}" + "".join(" " + patom(x) for x in t), sig.ret_ty, sig.fall)
        return self.lift(coerced, build)

    def ctx_value(self, node, name, ty) -> str:
        for n, t in self.ctx_params:
            if n == name and t == ty:
                return n
        self.fail(node, f"callee needs the context parameter {name} which is not available here")

    def call_placeholder(self, n) -> Val:
        args = self.plain_args(n, 3)
        name = self.ex(args[1])
        if name.ty != STR or name.const is None:
            self.fail(n, "get_placeholder_value with a transition name that is not a known string constant")
        if self.expect is None:
            self.fail(n, "get_placeholder_value outside `<dict>[agent] if … else get_placeholder_value(…)` "
                         "(the other branch fixes the type of the placeholder)")
        sig = self.tr.placeholder(name.const, self.expect, n)
        return self.call_generated(n, sig, [self.ex(args[0]), self.ex(args[2])])

    def call_process_transition(self, n) -> Val:
        args = self.plain_args(n, 4)
        names = self.ex(args[2])
        if names.ty != lst(STR) or names.const is None:
            self.fail(n, "process_transition with transition names that are not a literal list of strings")
        t, spaces, agents = self.ex(args[0]), self.ex(args[1]), self.ex(args[3])
        if t.ty.kind != "tuple":
            self.fail(n, f"process_transition of a value of type {t.ty!r}")
        sig = self.tr.process_transition(tuple(names.const), t.ty, n)
        return self.call_generated(n, sig, [t, spaces, agents])

    expect = None

    # ------------------------------------------------------------ statements
    def bind(self, v: Val, lines: list) -> str:
        """make `v` available as a plain term; what can raise is bound with `match`"""
        v = self.norm(v)
        if v.binds and self.in_lambda:
            raise AssertionError("statement-level bind inside a lambda")
        for r, e in v.binds:
            self.cur_fall = True
            lines += [f"match {e} with", "| none => none", f"| some {r} =>"]
        return v.txt

    def retline(self, txt: str) -> str:
        inner = f"(st, {txt})" if self.threads else txt
        return f"some {patom(inner)}" if self.fall else inner

    def returns(self, stmts) -> bool:
        stmts = [s for s in stmts if not is_docstring(s)]
        if not stmts:
            return False
        last = stmts[-1]
        if isinstance(last, (ast.Return, ast.Raise)):
            return True
        if isinstance(last, ast.If):
            return bool(last.orelse) and self.returns(last.body) and self.returns(last.orelse)
        if isinstance(last, ast.Match):
            return all(self.returns(c.body) for c in last.cases)
        return False

    def is_env_call(self, n) -> bool:
        if not (isinstance(n, ast.Call) and isinstance(n.func, ast.Attribute) and n.func.attr in ("step", "reset")):
            return False
        v = n.func.value
        if self_attr(v):
            return self.selfmap.get(v.attr) is not None and self.selfmap[v.attr].ty == ENV
        return isinstance(v, ast.Name) and v.id in self.vars and self.vars[v.id].ty == ENV

    def has_env_call(self, node) -> bool:
        return any(self.is_env_call(x) for x in ast.walk(node))

    def skippable(self, st):
        src = " ".join(ast.unparse(st).split())
        if len(src) > 90:
            src = src[:87] + "…"
        if isinstance(st, ast.Assign) and not self.has_env_call(st):
            flat = []
            for t in st.targets:
                flat += list(t.elts) if isinstance(t, ast.Tuple) else [t]
            if any(self_attr(t) for t in flat) and all(
                    (self_attr(t) and t.attr not in self.selfmap) or (isinstance(t, ast.Name) and t.id == "_") for t in flat):
                return f"`{src}`: stores attributes no translated method reads"
        if isinstance(st, ast.Expr) and isinstance(st.value, ast.Call):
            c = st.value
            if self_attr(c.func, "_assert_is_running") and not c.args and not c.keywords:
                return f"`{src}`: call protocol (property C13)"
            if isinstance(c.func, ast.Attribute) and c.func.attr == "close" and isinstance(c.func.value, ast.Name) \
                    and c.func.value.id in self.vars and self.vars[c.func.value.id].ty == PIPE and not c.args:
                return f"`{src}`: the worker's copy of the parent end of the pipe"
        if isinstance(st, ast.If) and not st.orelse and len(st.body) == 1 and isinstance(st.body[0], ast.Raise) \
                and any(self_attr(x, "_state") for x in ast.walk(st.test)) \
                and not any(isinstance(x, ast.Name) and x.id in self.vars for x in ast.walk(st.test)):
            return f"`if {' '.join(ast.unparse(st.test).split())}: raise …`: call protocol (property C13)"
        return None

    def block(self, stmts, k) -> list:
        if not stmts:
            return k()
        st, rest = stmts[0], stmts[1:]
        cont = lambda: self.block(rest, k)          # noqa: E731
        if is_docstring(st):
            return cont()
        why = self.skippable(st)
        if why:
            return [f"-- {why}"] + cont()
        if isinstance(st, ast.Assign):
            if len(st.targets) != 1:
                self.fail(st, "chained assignment")
            return self.assign(st, st.targets[0], cont)
        if isinstance(st, ast.Expr):
            return self.expr_stmt(st, cont)
        if isinstance(st, ast.If):
            return self.if_stmt(st, rest, k)
        if isinstance(st, ast.For):
            return self.for_stmt(st, cont)
        if isinstance(st, ast.Assert):
            c = self.ex(st.test)
            if c.ty != BOOL:
                self.fail(st, f"assert of a value of type {c.ty!r}")
            lines = []
            t = self.bind(c, lines)
            self.cur_fall = True
            return lines + [f"if !{patom(t)} then none else"] + cont()
        if isinstance(st, ast.Return):
            if rest:
                self.fail(rest[0], "statement after return")
            return self.return_stmt(st)
        if isinstance(st, ast.Match):
            subj = self.ex(st.subject)
            if subj.ty != STR or subj.const is None:
                self.fail(st, "match on something other than a known string constant")
            for c in st.cases:
                if c.guard is not None:
                    self.fail(c.pattern, "case with a guard")
                if isinstance(c.pattern, ast.MatchValue) and isinstance(c.pattern.value, ast.Constant) \
                        and type(c.pattern.value.value) is str:
                    if c.pattern.value.value == subj.const:
                        return self.block(list(c.body) + ([] if self.returns(c.body) else rest), k)
                elif isinstance(c.pattern, ast.MatchAs) and c.pattern.pattern is None:
                    return self.block(list(c.body) + ([] if self.returns(c.body) else rest), k)
                else:
                    self.fail(c.pattern, "case pattern other than a string literal / `_`")
            self.fail(st, f"no case for {subj.const!r} (the function would return None)")
        self.fail(st, f"statement {type(st).__name__}")

    # ---- env.step / env.reset
    def env_call(self, call, lines) -> Val:
        if not self.threads:
            self.fail(call, "call of the wrapped environment in a function that does not own it")
        recv = self.ex(call.func.value)
        r = self.fresh("r")
        if call.func.attr == "step":
            (a,) = self.plain_args(call, 1)
            v = self.ex(a)
            if v.ty != dct(ACT):
                self.fail(call, f"env.step of a value of type {v.ty!r}")
            lines += [f"let {r} := {recv.txt}.step st {patom(self.bind(v, lines))}", f"let st := {r}.1"]
            return Val(f"{r}.2", STEP_RESULT)
        kw = {}
        if call.args:
            self.fail(call, "positional arguments of env.reset")
        for k in call.keywords:
            if k.arg is None:
                d = self.ex(k.value)
                if d.ty.kind != "rec":
                    self.fail(call, f"env.reset(**x) where x has type {d.ty!r} (a keyword record is supported)")
                keys, ts = d.ty.args
                for i, (key, t) in enumerate(zip(keys, ts)):
                    if key in kw:
                        self.fail(call, f"keyword {key} given twice")
                    kw[key] = Val(proj(d.txt, i, len(keys)), t)
            else:
                if k.arg in kw:
                    self.fail(call, f"keyword {k.arg} given twice")
                kw[k.arg] = self.ex(k.value)
        if set(kw) - {"seed", "options"}:
            self.fail(call, f"env.reset with keywords {sorted(set(kw) - {'seed', 'options'})} (ParallelEnv.reset has seed, options)")
        seed = self.coerce(call, kw["seed"], opt(NAT)) if "seed" in kw else Val("none", opt(NAT))
        opts = self.coerce(call, kw["options"], opt(OPTS)) if "options" in kw else Val("none", opt(OPTS))
        lines += [f"let {r} := {recv.txt}.reset st {patom(self.bind(seed, lines))} {patom(self.bind(opts, lines))}",
                  f"let st := {r}.1"]
        return Val(f"{r}.2", RESET_RESULT)

    def assign(self, st, tg, cont) -> list:
        lines = []
        val = st.value
        if self.is_env_call(val):
            v = self.env_call(val, lines)
        elif isinstance(val, ast.Call) and isinstance(val.func, ast.Name) and val.func.id in self.vars \
                and self.vars[val.func.id].ty == ENVFN and not val.args and not val.keywords and isinstance(tg, ast.Name):
            self.vars[tg.id] = Val("env", ENV)
            return [f"-- `{ast.unparse(st)}`: the wrapped environment `env` (its initial state is `st`)"] + cont()
        else:
            v = self.ex(val)
        if isinstance(tg, ast.Name):
            if v.ty in (EMPTYLIST,):
                self.vars[tg.id] = Val("[]", EMPTYLIST)
                self.builders[tg.id] = []
                return lines + cont()
            if v.ty.kind in ("none", "numlit", "emptydict", "env", "pipe", "pipes", "shm", "envfn", "other"):
                self.fail(st, f"local variable of type {v.ty!r}")
            t = self.bind(v, lines)
            x = self.fresh("v")
            lines.append(f"let {x} := {t}")
            self.vars[tg.id] = Val(x, v.ty, const=v.const)
            self.builders.pop(tg.id, None)
            return lines + cont()
        if isinstance(tg, ast.Tuple):
            if v.ty.kind not in ("tuple", "rec"):
                self.fail(st, f"unpacking a value of type {v.ty!r}")
            ts = v.ty.args[0] if v.ty.kind == "tuple" else v.ty.args[1]
            if len(ts) != len(tg.elts):
                self.fail(st, f"unpacking {len(ts)} values into {len(tg.elts)} targets")
            t = self.bind(v, lines)
            if not t.replace(".", "").replace("_", "").isalnum():
                r = self.fresh("r")
                lines.append(f"let {r} := {t}")
                t = r
            for i, e in enumerate(tg.elts):
                if not isinstance(e, ast.Name):
                    self.fail(e, "unpacking target other than a name")
                if e.id == "_":
                    continue
                x = self.fresh("v")
                lines.append(f"let {x} := {proj(t, i, len(ts))}")
                self.vars[e.id] = Val(x, ts[i])
                self.builders.pop(e.id, None)
            return lines + cont()
        self.fail(st, f"assignment to {ast.unparse(tg)}")

    def expr_stmt(self, st, cont) -> list:
        c = st.value
        if not isinstance(c, ast.Call):
            self.fail(st, "expression statement")
        f, lines = c.func, []
        if isinstance(f, ast.Attribute) and f.attr == "append":
            (a,) = self.plain_args(c, 1)
            if isinstance(f.value, ast.Name) and f.value.id in self.builders:
                v = self.ex(a)
                x = self.fresh("v")
                lines.append(f"let {x} := {self.bind(v, lines)}")
                self.builders[f.value.id].append(Val(x, v.ty))
                return lines + cont()
            if isinstance(f.value, ast.Subscript) and isinstance(f.value.value, ast.Name):
                name = f.value.value.id
                base, i, v = self.ex(f.value.value), self.ex(f.value.slice), self.ex(a)
                if not (base.ty.kind == "list" and (base.ty.args[0] == EMPTYLIST or base.ty.args[0] == lst(v.ty))
                        and i.ty in (NAT, NUMLIT)):
                    self.fail(st, f"x[i].append(e) with x : {base.ty!r}, i : {i.ty!r}, e : {v.ty!r}")
                ti, tv = self.bind(i, lines), self.bind(v, lines)
                x = self.fresh("v")
                self.cur_fall = True
                lines += [f"match pyAppendAt {patom(base.txt)} {patom(ti)} {patom(tv)} with", "| none => none", f"| some {x} =>"]
                self.vars[name] = Val(x, lst(lst(v.ty)))
                return lines + cont()
            self.fail(st, "append on something other than a list built here / an element of a list of lists")
        if isinstance(f, ast.Attribute) and f.attr == "send" and isinstance(f.value, ast.Name) \
                and f.value.id in self.vars and self.vars[f.value.id].ty == PIPE:
            if self.sent is not None:
                self.fail(st, "a second pipe.send in one worker branch")
            if self.written is None:
                self.fail(st, "the reply is sent before the observation is written to shared memory")
            (a,) = self.plain_args(c, 1)
            if not (isinstance(a, ast.Tuple) and len(a.elts) == 2 and isinstance(a.elts[1], ast.Constant)
                    and a.elts[1].value is True):
                self.fail(st, "pipe.send(x) where x is not `(payload, True)`")
            v = self.ex(a.elts[0])
            x = self.fresh("v")
            lines.append(f"let {x} := {self.bind(v, lines)}")
            self.sent = Val(x, v.ty)
            return lines + cont()
        if isinstance(f, ast.Name) and f.id == "write_to_shared_memory":
            if self.written is not None or self.sent is not None:
                self.fail(st, "a second write_to_shared_memory / a write after the reply")
            a = self.plain_args(c, 4)
            idx, obs, shm, sp = (self.ex(x) for x in a)
            if idx.ty != NAT or obs.ty != dct(OBS) or shm.ty != SHM or sp.ty != dct(SPACE):
                self.fail(st, f"write_to_shared_memory({idx.ty!r}, {obs.ty!r}, {shm.ty!r}, {sp.ty!r})")
            x = self.fresh("v")
            lines.append(f"let {x} := ({self.bind(idx, lines)}, {self.bind(obs, lines)})")
            self.written = Val(x, tup(NAT, dct(OBS)))
            return lines + cont()
        if self_attr(f) and f.attr in self.tr.senders:
            if self.msgs is not None:
                self.fail(st, "a second call that sends messages")
            sig = self.tr.sig_of_method(f.attr, c)
            args = self.bind_call_args(c, sig)
            v = self.call_generated(c, sig, args)
            x = self.fresh("v")
            lines.append(f"let {x} := {self.bind(v, lines)}")
            self.msgs = Val(x, sig.ret_ty)
            return lines + cont()
        self.fail(st, f"call of {ast.unparse(f)} as a statement")

    def bind_call_args(self, c, sig) -> list:
        vals = {}
        if len(c.args) > len(sig.pynames) or any(isinstance(a, ast.Starred) for a in c.args):
            self.fail(c, "arguments of the call")
        for name, a in zip(sig.pynames, c.args):
            vals[name] = self.ex(a)
        for kw in c.keywords:
            if kw.arg is None or kw.arg not in sig.pynames or kw.arg in vals:
                self.fail(c, f"keyword argument {kw.arg}")
            vals[kw.arg] = self.ex(kw.value)
        out = []
        for name, (_, t) in zip(sig.pynames, sig.params):
            if name in vals:
                out.append(vals[name])
            elif t.kind == "opt":
                out.append(Val("none", NONE))
            else:
                self.fail(c, f"missing argument {name}")
        return out

    def return_stmt(self, st) -> list:
        lines = []
        val = st.value
        if isinstance(val, ast.Call) and self_attr(val.func) and val.func.attr in ("step_wait", "reset_wait") \
                and not val.args and not val.keywords:
            if self.msgs is None:
                self.fail(st, f"return self.{val.func.attr}() without a call that sends the messages first")
            v = self.msgs
            lines.append(f"-- `return self.{val.func.attr}()`: the parent's receive side is not translated; "
                         "the value is the list of messages sent")
        elif val is None:
            self.fail(st, "bare return")
        elif isinstance(val, ast.Name) and val.id in self.builders:
            items = self.builders[val.id]
            v = Val("(" + ", ".join(i.txt for i in items) + ")" if len(items) != 1 else items[0].txt,
                    tup(*[i.ty for i in items]))
        else:
            v = self.ex(val)
        if v.ty == NONE and self.ret_expect is not None and self.ret_expect.kind != "opt":
            self.cur_fall = True
            return lines + ["none"]
        if self.ret_expect is not None:
            v = self.coerce(st, v, self.ret_expect)
        if v.ty.kind in ("none", "numlit", "emptylist", "emptydict", "env", "pipe", "pipes", "shm", "envfn", "other"):
            self.fail(st, f"return of a value of type {v.ty!r}")
        if self.ret_ty is not None and self.ret_ty != v.ty:
            self.fail(st, f"returns of different types ({self.ret_ty!r}, {v.ty!r})")
        self.ret_ty = v.ty
        return lines + [self.retline(self.bind(v, lines))]

    # ---- if
    def none_test(self, test):
        """`x is None` / `x is not None` on a variable of Optional type -> (name, then-branch-is-None)"""
        if isinstance(test, ast.Compare) and len(test.ops) == 1 and isinstance(test.ops[0], (ast.Is, ast.IsNot)) \
                and isinstance(test.left, ast.Name) and isinstance(test.comparators[0], ast.Constant) \
                and test.comparators[0].value is None:
            v = self.vars.get(test.left.id)
            if v is None or v.ty.kind != "opt" or not v.txt.isidentifier():
                self.fail(test, f"`is None` on {test.left.id} (an Optional parameter is supported)")
            return test.left.id, isinstance(test.ops[0], ast.Is)
        if any(isinstance(x, (ast.Is, ast.IsNot)) for x in ast.walk(test)):
            self.fail(test, "`is` inside a larger condition")
        return None

    def assigned_names(self, stmts) -> list:
        out = []

        def add(n):
            if n not in out and n != "_":
                out.append(n)
        for st in stmts:
            for x in ast.walk(st):
                tgs = x.targets if isinstance(x, ast.Assign) else [x.target] if isinstance(x, (ast.AugAssign, ast.AnnAssign)) else []
                for t in tgs:
                    for e in (t.elts if isinstance(t, ast.Tuple) else [t]):
                        if isinstance(e, ast.Name):
                            add(e.id)
                if isinstance(x, ast.Call) and isinstance(x.func, ast.Attribute) and x.func.attr == "append":
                    b = x.func.value
                    if isinstance(b, ast.Subscript):
                        b = b.value
                    if isinstance(b, ast.Name):
                        add(b.id)
        return out

    def scoped(self, stmts, k, refine=None):
        """compile `stmts` in a copy of the scope; returns (lines, scope at the end of the fall-through path)"""
        saved_vars, saved_b = dict(self.vars), {n: list(v) for n, v in self.builders.items()}
        if refine is not None:
            name, inner = refine
            self.vars[name] = Val(self.vars[name].txt, inner)
        end = {}

        def k2():
            end.update(self.vars)
            return k()
        lines = self.block(list(stmts), k2)
        self.vars, self.builders = saved_vars, saved_b
        return lines, end

    def if_stmt(self, st, rest, k) -> list:
        cont = lambda: self.block(rest, k)          # noqa: E731
        nt = self.none_test(st.test)
        head, pre = [], []
        if nt is None:
            c = self.ex(st.test)
            if c.ty != BOOL:
                self.fail(st.test, f"condition of type {c.ty!r}")
            if c.const is not None:
                taken = st.body if c.const else st.orelse
                return [f"-- `{' '.join(ast.unparse(st.test).split())}` is {c.const} here"] + self.block(list(taken) + rest, k)
            t = self.bind(c, pre)
            open_then, open_else, ref_then, ref_else = f"if {t} then", "else", None, None
        else:
            name, then_none = nt
            x = self.vars[name]
            head.append(f"match {x.txt} with")
            arm_none, arm_some = "| none =>", f"| some {x.txt} =>"
            open_then, open_else = (arm_none, arm_some) if then_none else (arm_some, arm_none)
            ref_then, ref_else = (None, (name, x.ty.args[0])) if then_none else ((name, x.ty.args[0]), None)
        body_ret, else_ret = self.returns(st.body), self.returns(st.orelse)
        if body_ret or else_ret or not rest and False:
            dead = lambda: self.fail(st, "internal: continuation of a branch that returns")     # noqa: E731
            a, _ = self.scoped(st.body, dead if body_ret else cont, ref_then)
            b, _ = self.scoped(st.orelse, dead if else_ret else cont, ref_else)
            return pre + head + [open_then] + ind(a) + [open_else] + ind(b)
        # neither branch returns: the variables (re)assigned in a branch are joined as a tuple
        before = set(self.vars)
        ab, ae = self.assigned_names(st.body), self.assigned_names(st.orelse)
        joined = [n for n in ab + [m for m in ae if m not in ab] if n in before or (n in ab and n in ae)]
        if any(n in self.builders for n in joined):
            self.fail(st, "append to a list under a condition")
        with_st = self.threads and (self.has_env_call(ast.Module(body=list(st.body) + list(st.orelse), type_ignores=[])))
        if not joined and not with_st:
            self.fail(st, "if statement that assigns nothing visible afterwards")
        saved_fall, self.cur_fall = self.cur_fall, False
        a, end_a = self.scoped(st.body, lambda: [], ref_then)
        b, end_b = self.scoped(st.orelse, lambda: [], ref_else)
        branch_fall, self.cur_fall = self.cur_fall, saved_fall or self.cur_fall
        comps_a, comps_b, tys = (["st"] if with_st else []), (["st"] if with_st else []), []
        for n in joined:
            va, vb = end_a.get(n), end_b.get(n)
            if va is None or vb is None:
                self.fail(st, f"variable {n} is not defined on both paths")
            va, vb = self.unify(st, va, vb)
            if va.fall or vb.fall:
                self.fail(st, f"internal: fallible coercion of {n} at a join")
            comps_a.append(va.txt)
            comps_b.append(vb.txt)
            tys.append(va.ty)
        wrap = "some " if branch_fall else ""
        tuple_txt = lambda cs: wrap + ("(" + ", ".join(cs) + ")" if len(cs) > 1 else patom(cs[0]) if wrap else cs[0])  # noqa: E731
        a.append(tuple_txt(comps_a))
        b.append(tuple_txt(comps_b))
        j = self.fresh("j")
        lines = head + [open_then] + ind(a) + [open_else] + ind(b)
        if branch_fall:
            lines = [f"match ("] + ind(lines) + [") with", "| none => none", f"| some {j} =>"]
        else:
            lines = [f"let {j} :="] + ind(lines)
        n = len(comps_a)
        i = 0
        if with_st:
            lines.append(f"let st := {proj(j, 0, n)}")
            i = 1
        for name, ty in zip(joined, tys):
            x = self.fresh("v")
            lines.append(f"let {x} := {proj(j, i, n)}")
            self.vars[name] = Val(x, ty)
            i += 1
        return pre + lines + cont()

    # ---- for
    def for_stmt(self, st, cont) -> list:
        if st.orelse:
            self.fail(st, "for … else")
        for x in ast.walk(st):
            if isinstance(x, (ast.Break, ast.Continue, ast.Return)):
                self.fail(x, f"{type(x).__name__.lower()} inside a for loop")
        # (1) `for pipe, x in zip(self.parent_pipes, X): …; pipe.send((COMMAND, DATA))`
        last = st.body[-1]
        if isinstance(last, ast.Expr) and isinstance(last.value, ast.Call) and isinstance(last.value.func, ast.Attribute) \
                and last.value.func.attr == "send":
            return self.send_loop(st, cont)
        # (2) `for a, name in zip(<tuple>, <literal list>)`: unrolled
        if isinstance(st.iter, ast.Call) and dotted(st.iter.func) == "zip" and len(st.iter.args) == 2 and not st.iter.keywords:
            a, b = self.ex(st.iter.args[0]), self.ex(st.iter.args[1])
            if a.ty.kind == "tuple" and b.ty == lst(STR) and b.const is not None:
                if not (isinstance(st.target, ast.Tuple) and len(st.target.elts) == 2
                        and all(isinstance(e, ast.Name) for e in st.target.elts)):
                    self.fail(st, "target of the loop over zip(<tuple>, <literal list>)")
                lines = []
                t = self.bind(a, lines)
                ts = a.ty.args[0]
                n = min(len(ts), len(b.const))

                def unroll(i):
                    if i == n:
                        return cont()
                    self.vars[st.target.elts[0].id] = Val(proj(t, i, len(ts)), ts[i])
                    self.vars[st.target.elts[1].id] = Val(lean_str(b.const[i]), STR, const=b.const[i])
                    return [f"-- iteration {i}: {b.const[i]!r}"] + self.block(list(st.body), lambda: unroll(i + 1))
                return lines + unroll(0)
        # (3) structural recursion over the list
        lines = []
        it = self.ex(st.iter)
        if it.ty.kind != "list":
            self.fail(st.iter, f"iteration over a value of type {it.ty!r}")
        it_txt = self.bind(it, lines)
        before = dict(self.vars)
        carried = [n for n in self.assigned_names(st.body) if n in before]
        if len(carried) != 1:
            self.fail(st, f"a loop that carries {len(carried)} variables (exactly one is supported)")
        if self.has_env_call(st):
            self.fail(st, "call of the wrapped environment inside a loop")
        cname = carried[0]
        loads = []
        for x in ast.walk(ast.Module(body=list(st.body), type_ignores=[])):
            if isinstance(x, ast.Name) and x.id in before and x.id != cname and x.id not in loads:
                loads.append(x.id)
        free = [(n, before[n]) for n in loads if before[n].txt.isidentifier() and before[n].const is None]
        for n, v in free:
            if v.ty.kind in ("env", "pipe", "pipes", "shm", "envfn", "other", "none", "numlit", "emptylist", "emptydict"):
                self.fail(st, f"loop body uses {n} of type {v.ty!r}")
        free.sort(key=lambda p: (p[1].txt[0], int(p[1].txt[1:]) if p[1].txt[1:].isdigit() else 0))
        name = f"{self.lean_name}_loop{self.k_loop}"
        self.k_loop += 1
        saved_fall, self.cur_fall = self.cur_fall, False
        body_lines = []
        c_in = self.fresh("v")
        self.vars[cname] = Val(c_in, before[cname].ty)
        p = self.bind_target(st.target, it.ty.args[0], body_lines)
        end = {}
        free_args = "".join(f" {v.txt}" for _, v in free)

        def k_loop():
            end.update(self.vars)
            return [f"{name}{EXTARGS}{self.ctx_args()}{free_args} rest {self.vars[cname].txt}"]
        body_lines += self.block(list(st.body), k_loop)
        loop_fall, self.cur_fall = self.cur_fall, saved_fall or self.cur_fall
        cty = end[cname].ty
        if cty.kind in ("emptylist",) or (cty.kind == "list" and cty.args[0] == EMPTYLIST):
            self.fail(st, f"the element type of {cname} is never fixed")
        self.vars = before
        wrap = "some " if loop_fall else ""
        ret_ty = f"Option {patom(cty.lean())}" if loop_fall else cty.lean()
        free_decl = "".join(f" ({v.txt} : {v.ty.lean()})" for _, v in free)
        src = " ".join(ast.unparse(st.iter).split())
        d = [f"/-- the loop `for {ast.unparse(st.target)} in {src}` of `{self.lean_name}` -/",
             f"def {name}{EXTDECL}{self.ctx_decl()}{free_decl} : List {patom(it.ty.args[0].lean())} → {cty.lean()} → {ret_ty}",
             f"  | [], {c_in} => {wrap}{c_in}",
             f"  | {p} :: rest, {c_in} =>"] + ind(body_lines, 4) + [""]
        self.pre_defs.append(d)
        call = f"{name}{EXTARGS}{self.ctx_args()}{free_args} {patom(it_txt)} {before[cname].txt}"
        x = self.fresh("v")
        if loop_fall:
            self.cur_fall = True
            lines += [f"match {call} with", "| none => none", f"| some {x} =>"]
        else:
            lines.append(f"let {x} := {call}")
        self.vars[cname] = Val(x, cty)
        return lines + cont()

    def send_loop(self, st, cont) -> list:
        if self.msgs is not None:
            self.fail(st, "a second loop that sends messages")
        lines = []
        it = self.ex(st.iter)
        if it.ty.kind != "list":
            self.fail(st.iter, f"iteration over a value of type {it.ty!r}")
        it_txt = self.bind(it, lines)
        saved = dict(self.vars)
        self.in_lambda += 1
        p = self.bind_target(st.target, it.ty.args[0], None)
        for b in st.body[:-1]:
            if not (isinstance(b, ast.Assign) and len(b.targets) == 1 and isinstance(b.targets[0], ast.Name)):
                self.fail(b, "statement in a loop that sends messages (only `x = e` before `pipe.send(…)`)")
            v = self.ex(b.value)
            if v.fall:
                self.fail(b, "a value that can raise inside a loop that sends messages")
            self.vars[b.targets[0].id] = v
        c = st.body[-1].value
        pipe = self.ex(c.func.value)
        if pipe.ty != PIPE:
            self.fail(c, f".send on a value of type {pipe.ty!r}")
        (a,) = self.plain_args(c, 1)
        if not (isinstance(a, ast.Tuple) and len(a.elts) == 2):
            self.fail(c, "pipe.send(x) where x is not `(command, data)`")
        cmd, data = self.ex(a.elts[0]), self.ex(a.elts[1])
        self.in_lambda -= 1
        if cmd.ty != STR or cmd.const is None:
            self.fail(c, "a command that is not a string literal")
        if data.fall:
            self.fail(c, "message data that can raise")
        self.vars = saved
        self.tr.record_message(c, cmd.const, data.ty, self.lean_name)
        x = self.fresh("v")
        lines.append(f"let {x} := {patom(it_txt)}.map (fun {p} => ({pipe.txt}, {cmd.txt}, {data.txt}))")
        self.msgs = Val(x, MSG(data.ty))
        return lines + cont()

    def end(self) -> list:
        """the end of the function body is reached without `return`"""
        if self.msgs is not None:
            if self.ret_ty is not None and self.ret_ty != self.msgs.ty:
                raise Unsupported(f"{self.rel}: {self.lean_name}: paths with different results")
            self.ret_ty = self.msgs.ty
            return [self.retline(self.msgs.txt)]
        raise Unsupported(f"{self.rel}: {self.lean_name}: a path reaches the end of the function without a result "
                          "(no `return`, no messages sent)")


# ----------------------------------------------------------------------------------------------- the translator
class Sig:
    def __init__(self, lean_name, exts, ctx_params, params, pynames, fall, ret_ty, threads):
        self.lean_name, self.exts, self.ctx_params, self.params = lean_name, set(exts), list(ctx_params), list(params)
        self.pynames, self.fall, self.ret_ty, self.threads = list(pynames), fall, ret_ty, threads

    def result_lean(self) -> str:
        inner = self.ret_ty.lean()
        if self.threads:
            inner = f"S × {inner}"
        return f"Option {patom(inner)}" if self.fall else inner


STATE = Ty("state")
ATOMS["state"] = "S"
ATOMS["env"] = "PyEnv S A O R I Ω"


class Translator:
    def __init__(self, sources: dict):
        self.mods, self.funcs, self.classes = {}, {}, {}
        for rel, src in sources.items():
            try:
                mod = ast.parse(src)
            except SyntaxError as e:
                raise Unsupported(f"{rel}:{e.lineno}: not parseable: {e.msg}") from e
            self.mods[rel] = mod
            for st in mod.body:
                if isinstance(st, ast.FunctionDef):
                    self.funcs[(rel, st.name)] = st
                elif isinstance(st, ast.ClassDef):
                    self.classes[(rel, st.name)] = st
        self.out: list[str] = []
        self.sigs: dict[str, Sig] = {}
        self.senders: dict[str, Sig] = {}
        self.messages: dict[str, tuple] = {}       # command -> (payload type, sender lean name)
        self.spec_cache: dict = {}

    # ---- lookup
    def function(self, rel, name):
        f = self.funcs.get((rel, name))
        if f is None:
            raise Unsupported(f"{rel}: function {name} not found at module level")
        if f.decorator_list:
            raise Unsupported(f"{rel}:{f.lineno}: unsupported construct: decorator on {name}")
        return f

    def method(self, rel, cls, name):
        c = self.classes.get((rel, cls))
        if c is None:
            raise Unsupported(f"{rel}: class {cls} not found at module level")
        found = [s for s in c.body if isinstance(s, ast.FunctionDef) and s.name == name]
        if len(found) != 1:
            raise Unsupported(f"{rel}: method {cls}.{name} defined {len(found)} times")
        if found[0].decorator_list:
            raise Unsupported(f"{rel}:{found[0].lineno}: unsupported construct: decorator on {cls}.{name}")
        return found[0]

    def record_message(self, node, cmd: str, ty: Ty, sender: str):
        old = self.messages.get(cmd)
        if old is not None and (old[0] != ty or old[1] != sender):
            raise Unsupported(f"{REL_ASYNC}:{node.lineno}: unsupported construct: command {cmd!r} is sent from two places")
        self.messages[cmd] = (ty, sender)

    def sig_of_method(self, name, node) -> Sig:
        return self.senders[name]

    # ---- one definition
    def compile_def(self, *, node, rel, lean_name, doc, ptypes, method, threads=False, ctx_params=(), selfmap=None,
                    ret_expect=None) -> Sig:
        a = node.args
        if a.vararg or a.kwarg or a.posonlyargs:
            raise Unsupported(f"{rel}:{node.lineno}: unsupported construct: parameter list of {node.name}")
        pos = list(a.args) + list(a.kwonlyargs)
        if method:
            if not pos or pos[0].arg != "self":
                raise Unsupported(f"{rel}:{node.lineno}: unsupported construct: method {node.name} without self")
            pos = pos[1:]
        if len(pos) != len(ptypes):
            raise Unsupported(f"{rel}:{node.lineno}: unsupported construct: {node.name} has {len(pos)} parameters, "
                              f"{len(ptypes)} are expected")
        for fall in (True, False):
            fn = Fn(self, rel, lean_name, threads, ctx_params, selfmap)
            fn.fall, fn.ret_expect = fall, ret_expect
            params, pynames = [], []
            for i, (p, t) in enumerate(zip(pos, ptypes)):
                if isinstance(t, tuple) and t[0] == "const":
                    v = t[1]
                    fn.vars[p.arg] = Val(lean_str(v), STR, const=v) if isinstance(v, str) else \
                        Val("[" + ", ".join(lean_str(x) for x in v) + "]", lst(STR), const=list(v))
                else:
                    fn.vars[p.arg] = Val(f"a{i}", t)
                    if t.kind in ATOMS or t.kind in ("opt", "list", "dict", "tuple", "rec"):
                        params.append((f"a{i}", t))
                        pynames.append(p.arg)
            lines = fn.block(list(node.body), fn.end)
            if fn.cur_fall or not fall:
                break
        return self.emit(fn, doc, params, pynames, lines)

    def emit(self, fn: Fn, doc: str, params, pynames, lines) -> Sig:
        sig = Sig(fn.lean_name, fn.exts, fn.ctx_params, params, pynames, fn.fall, fn.ret_ty, fn.threads)
        if fn.lean_name in self.sigs:
            raise Unsupported(f"{fn.rel}: two definitions named {fn.lean_name}")
        fix = lambda ln: ln.replace(EXTDECL, ext_decl(fn.exts)).replace(EXTARGS, ext_args(fn.exts))   # noqa: E731
        for d in fn.pre_defs:
            self.out += [fix(ln) for ln in d]
        pdecl = "".join(f" ({n} : {t.lean()})" for n, t in params)
        self.out += [f"/-- {doc} -/",
                     f"def {fn.lean_name}{ext_decl(fn.exts)}{fn.ctx_decl()}{pdecl} :",
                     f"    {sig.result_lean()} :="]
        self.out += ind([fix(ln) for ln in lines]) + [""]
        self.sigs[fn.lean_name] = sig
        return sig

    # ---- specialisations
    def placeholder(self, name: str, expect: Ty, node) -> Sig:
        key = ("ph", name)
        if key in self.spec_cache:
            sig, ex0 = self.spec_cache[key]
            if ex0 != expect:
                raise Unsupported(f"{REL_ASYNC}:{node.lineno}: unsupported construct: placeholder {name!r} is used at "
                                  f"two types ({ex0!r}, {expect!r})")
            return sig
        if not name.isidentifier():
            raise Unsupported(f"{REL_ASYNC}:{node.lineno}: unsupported construct: transition name {name!r}")
        f = self.function(REL_ASYNC, "get_placeholder_value")
        sig = self.compile_def(node=f, rel=REL_ASYNC, lean_name=f"get_placeholder_value_{name}",
                               doc=f"`get_placeholder_value(agent, \"{name}\", obs_spaces)`",
                               ptypes=[NAT, ("const", name), opt(dct(SPACE))], method=False, ret_expect=expect)
        self.spec_cache[key] = (sig, expect)
        return sig

    def process_transition(self, names: tuple, tty: Ty, node) -> Sig:
        key = ("pt", names, tty)
        if key in self.spec_cache:
            return self.spec_cache[key]
        if not all(n.isidentifier() for n in names):
            raise Unsupported(f"{REL_ASYNC}:{node.lineno}: unsupported construct: transition names {names!r}")
        f = self.function(REL_ASYNC, "process_transition")
        sig = self.compile_def(node=f, rel=REL_ASYNC, lean_name="process_transition_" + "_".join(names),
                               doc="`process_transition(transitions, obs_spaces, [" + ", ".join(f'\"{n}\"' for n in names)
                                   + "], agents)`: the loop over `zip(transitions, transition_names)` unrolled",
                               ptypes=[tty, dct(SPACE), ("const", list(names)), lst(NAT)], method=False)
        self.spec_cache[key] = sig
        return sig

    # ---- the worker
    def worker(self):
        rel = REL_ASYNC
        node = self.function(rel, "_async_worker")
        a = node.args
        if a.vararg or a.kwarg or a.posonlyargs or a.kwonlyargs or len(a.args) != 7:
            raise Unsupported(f"{rel}:{node.lineno}: unsupported construct: parameter list of _async_worker "
                              "(index, env_fn, pipe, parent_pipe, shared_memory, error_queue, agents expected)")
        pnames = [p.arg for p in a.args]
        ptys = [NAT, ENVFN, PIPE, PIPE, SHM, OTHER, lst(NAT)]
        body = [s for s in node.body if not is_docstring(s)]
        if not body or not isinstance(body[-1], ast.Try) or any(isinstance(s, ast.Try) for s in body[:-1]):
            raise Unsupported(f"{rel}:{node.lineno}: unsupported construct: _async_worker is not `<statements>; try: …`")
        pre, tr = body[:-1], body[-1]
        if len(tr.body) != 1 or not isinstance(tr.body[0], ast.While) or tr.orelse:
            raise Unsupported(f"{rel}:{tr.lineno}: unsupported construct: the try block is not a single `while True:`")
        w = tr.body[0]
        if not (isinstance(w.test, ast.Constant) and w.test.value is True) or w.orelse or len(w.body) != 2:
            raise Unsupported(f"{rel}:{w.lineno}: unsupported construct: the message loop is not "
                              "`while True: command, data = pipe.recv(); if command == …`")
        recv, chain = w.body
        ok = isinstance(recv, ast.Assign) and len(recv.targets) == 1 and isinstance(recv.targets[0], ast.Tuple) \
            and len(recv.targets[0].elts) == 2 and all(isinstance(e, ast.Name) for e in recv.targets[0].elts) \
            and isinstance(recv.value, ast.Call) and isinstance(recv.value.func, ast.Attribute) \
            and recv.value.func.attr == "recv" and isinstance(recv.value.func.value, ast.Name) \
            and recv.value.func.value.id == pnames[2] and not recv.value.args and not recv.value.keywords
        if not ok:
            raise Unsupported(f"{rel}:{recv.lineno}: unsupported construct: the first statement of the message loop is not "
                              "`command, data = pipe.recv()` on the worker's own pipe")
        cvar, dvar = (e.id for e in recv.targets[0].elts)
        envvar = None
        for s in pre:
            if isinstance(s, ast.Assign) and isinstance(s.value, ast.Call) and isinstance(s.value.func, ast.Name) \
                    and s.value.func.id == pnames[1] and len(s.targets) == 1 and isinstance(s.targets[0], ast.Name):
                envvar = s.targets[0].id
        if envvar is None:
            raise Unsupported(f"{rel}:{node.lineno}: unsupported construct: no `env = env_fn()` before the try block")
        branches, cur = [], chain
        while True:
            if not isinstance(cur, ast.If):
                raise Unsupported(f"{rel}:{cur.lineno}: unsupported construct: the dispatch is not an if / elif chain")
            t = cur.test
            lit = None
            if isinstance(t, ast.Compare) and len(t.ops) == 1 and isinstance(t.ops[0], ast.Eq):
                l, r = t.left, t.comparators[0]
                for x, y in ((l, r), (r, l)):
                    if isinstance(x, ast.Name) and x.id == cvar and isinstance(y, ast.Constant) and type(y.value) is str:
                        lit = y.value
            if lit is None:
                raise Unsupported(f"{rel}:{t.lineno}: unsupported construct: dispatch test `{ast.unparse(t)}` "
                                  "(only `command == \"<literal>\"`)")
            branches.append((lit, cur))
            if len(cur.orelse) == 1 and isinstance(cur.orelse[0], ast.If):
                cur = cur.orelse[0]
                continue
            if cur.orelse and not (len(cur.orelse) == 1 and isinstance(cur.orelse[0], ast.Raise)):
                raise Unsupported(f"{rel}:{cur.orelse[0].lineno}: unsupported construct: the final else of the dispatch "
                                  "is not a single raise")
            break

        def calls(b, attr):
            return any(isinstance(x, ast.Call) and isinstance(x.func, ast.Attribute) and x.func.attr == attr
                       and isinstance(x.func.value, ast.Name) and x.func.value.id == envvar
                       for s in b.body for x in ast.walk(s))
        step_b = [i for i, (_, b) in enumerate(branches) if calls(b, "step")]
        reset_b = [i for i, (_, b) in enumerate(branches) if calls(b, "reset") and not calls(b, "step")]
        if len(step_b) != 1 or len(reset_b) != 1:
            raise Unsupported(f"{rel}:{chain.lineno}: unsupported construct: {len(step_b)} branches call env.step, "
                              f"{len(reset_b)} call only env.reset (one of each expected)")
        self.out += ["/-- the `if command == … / elif …` chain of `_async_worker`: the position of the first test that holds",
                     f"    ({len(branches)} = the final `else`, which raises) -/",
                     "def worker_branch (command : String) : Nat :="]
        for i, (lit, _) in enumerate(branches):
            self.out.append(f"  {'if' if i == 0 else 'else if'} command == {lean_str(lit)} then {i}")
        self.out += [f"  else {len(branches)}", "",
                     "/-- the branch that calls `env.reset(**data)` / the branch that calls `env.step` -/",
                     f"def worker_reset_branch : Nat := {reset_b[0]}",
                     f"def worker_step_branch : Nat := {step_b[0]}", ""]
        skipped = ", ".join(f'"{lit}"' for i, (lit, _) in enumerate(branches) if i not in (step_b[0], reset_b[0]))
        self.out += [f"-- not translated: the branches for {skipped}; the `except` / `finally` clauses of the worker", ""]
        for kind, bi in (("reset", reset_b[0]), ("step", step_b[0])):
            lit, b = branches[bi]
            if lit not in self.messages:
                raise Unsupported(f"{rel}:{b.lineno}: unsupported construct: the worker branch for {lit!r} calls "
                                  f"env.{kind} but no translated parent method sends that command")
            payload = self.messages[lit][0]
            for fall in (True, False):
                fn = Fn(self, rel, f"worker_{kind}", True, [("env", ENV)], {})
                fn.fall = fall
                for i, (p, t) in enumerate(zip(pnames, ptys)):
                    fn.vars[p] = Val(f"a{i}", t)
                fn.vars[cvar] = Val(lean_str(lit), STR, const=lit)
                fn.vars[dvar] = Val("msg", payload)

                def k_end(fn=fn):
                    if fn.written is None or fn.sent is None:
                        raise Unsupported(f"{rel}:{b.lineno}: unsupported construct: the {lit!r} branch does not both "
                                          "write the observation to shared memory and send a reply")
                    fn.ret_ty = tup(fn.written.ty, fn.sent.ty)
                    return [fn.retline(f"({fn.written.txt}, {fn.sent.txt})")]
                lines = fn.block(list(pre) + list(b.body), k_end)
                if fn.cur_fall or not fall:
                    break
            params = [("a0", NAT), ("a6", lst(NAT)), ("st", STATE), ("msg", payload)]
            self.emit(fn, f"`_async_worker`, the branch `command == \"{lit}\"`: new state of the sub-environment, "
                          "(index, observation) written to shared memory, payload sent back",
                      params, ["index", "agents", "st", "msg"], lines)

    # ---- everything
    def run(self) -> list:
        o = self.out
        env_ctx = [("env", ENV), ("st", STATE)]
        wsm = {"env": Val("env", ENV)}
        o += [f"/-! ### `PettingZooAutoResetParallelWrapper` ({REL_WRAP}) -/", ""]
        cls = "PettingZooAutoResetParallelWrapper"
        self.compile_def(node=self.method(REL_WRAP, cls, "reset"), rel=REL_WRAP, lean_name="Wrapper.reset",
                         doc=f"`{cls}.reset`", ptypes=[opt(NAT), opt(OPTS)], method=True, threads=True,
                         ctx_params=env_ctx, selfmap=wsm)
        self.compile_def(node=self.method(REL_WRAP, cls, "step"), rel=REL_WRAP, lean_name="Wrapper.step",
                         doc=f"`{cls}.step`", ptypes=[dct(ACT)], method=True, threads=True,
                         ctx_params=env_ctx, selfmap=wsm)
        o += [f"/-! ### `AsyncPettingZooVecEnv`: what the parent puts on the pipes ({REL_ASYNC}) -/", ""]
        cls = "AsyncPettingZooVecEnv"
        asm = {"num_envs": Val("num_envs", NAT), "parent_pipes": Val("(List.range num_envs)", lst(PIPE))}
        actx = [("num_envs", NAT)]
        for name, ptypes in (("step_async", [lst(lst(ACT))]), ("reset_async", [opt(NAT), opt(OPTS)])):
            sig = self.compile_def(node=self.method(REL_ASYNC, cls, name), rel=REL_ASYNC, lean_name=f"{cls}.{name}",
                                   doc=f"`{cls}.{name}`: the messages `(pipe index, command, data)` in the order sent",
                                   ptypes=ptypes, method=True, ctx_params=actx, selfmap=asm)
            if sig.ret_ty.kind != "list":
                raise Unsupported(f"{REL_ASYNC}: {cls}.{name} does not send messages")
            self.senders[name] = sig
            cmds = [c for c, (_, s) in self.messages.items() if s == sig.lean_name]
            if len(cmds) != 1:
                raise Unsupported(f"{REL_ASYNC}: {cls}.{name} sends {len(cmds)} different commands")
            o += [f"/-- the command string `{cls}.{name}` sends -/",
                  f"def {name}_command : String := {lean_str(cmds[0])}", ""]
        self.compile_def(node=self.method(REL_ASYNC, cls, "reset"), rel=REL_ASYNC, lean_name=f"{cls}.reset",
                         doc=f"`{cls}.reset` up to `return self.reset_wait()`", ptypes=[opt(NAT), opt(OPTS)],
                         method=True, ctx_params=actx, selfmap=asm)
        o += [f"/-! ### `PettingZooVecEnv.step`: de-batching of the action dict ({REL_VEC}) -/", ""]
        vsm = {"num_envs": Val("num_envs", NAT), "agents": Val("agents", lst(NAT))}
        self.compile_def(node=self.method(REL_VEC, "PettingZooVecEnv", "step"), rel=REL_VEC,
                         lean_name="PettingZooVecEnv.step",
                         doc="`PettingZooVecEnv.step` up to `return self.step_wait()` (`self.step_async` is the method of "
                             "`AsyncPettingZooVecEnv`)",
                         ptypes=[dct(lst(ACT))], method=True, ctx_params=[("agents", lst(NAT)), ("num_envs", NAT)],
                         selfmap=vsm)
        o += [f"/-! ### the worker process ({REL_ASYNC}) -/", ""]
        self.worker()
        self.glue()
        return o

    def glue(self):
        o = self.out
        ws, wr = self.sigs["worker_step"], self.sigs["worker_reset"]
        ps, pr = self.sigs["PettingZooVecEnv.step"], self.sigs["AsyncPettingZooVecEnv.reset"]
        o += ["/-! ### the pipe boundary (fixed glue over the generated names)",
              "", "Message `(i, command, data)` is received by worker `i` (whose `index` is `i`), which runs the branch",
              "`worker_branch command`; every worker must receive exactly one message. -/", ""]
        for name, psig, wsig, branch, pargs in (
                ("vec_reset", pr, wr, "worker_reset_branch", "(seed : Option Nat) (options : Option Ω)"),
                ("vec_step", ps, ws, "worker_step_branch", "(actions : PyDict (List A))")):
            if psig.ret_ty != MSG(wsig.params[3][1]):
                raise Unsupported(f"{REL_ASYNC}: the messages of {psig.lean_name} do not have the type the worker branch expects")
            exts = psig.exts | wsig.exts
            if name == "vec_reset":
                call = f"{psig.lean_name}{ext_args(psig.exts)} sts.length seed options"
            else:
                call = f"{psig.lean_name}{ext_args(psig.exts)} agents sts.length actions"
            if not psig.fall:
                call = f"some ({call})"
            wcall = f"{wsig.lean_name}{ext_args(wsig.exts)} (envs m.1) m.1 agents st m.2.2"
            if not wsig.fall:
                wcall = f"some ({wcall})"
            res = f"S × {wsig.ret_ty.lean()}"
            o += [f"def {name}{ext_decl(exts)} (envs : Nat → PyEnv S A O R I Ω) (agents : List Nat) (sts : List S) {pargs} :",
                  f"    Option (List ({res})) :=",
                  f"  match {call} with",
                  "  | none => none",
                  "  | some msgs =>",
                  "    if msgs.map (fun m => m.1) != List.range sts.length then none else",
                  "    pySeq (msgs.map (fun m =>",
                  "      match sts[m.1]? with",
                  "      | none => none",
                  "      | some st =>",
                  f"        if worker_branch m.2.1 == {branch} then {wcall} else none))", ""]


# ----------------------------------------------------------------------------------------------- driver
def repo_dir(arg: str | None) -> Path:
    if arg:
        return Path(arg)
    return Path(os.environ.get("VERIF_REPO", "/repo"))


def translate(repo: Path) -> tuple[str, str]:
    """returns (lean text, sha256 over the three source files); raises Unsupported"""
    shas, sources = [], {}
    for rel in REL_SOURCES:
        path = repo / rel
        try:
            raw = path.read_bytes()
        except OSError as e:
            raise Unsupported(f"cannot read {path}: {e}") from e
        shas.append((rel, hashlib.sha256(raw).hexdigest()))
        try:
            sources[rel] = raw.decode("utf-8")
        except UnicodeDecodeError as e:
            raise Unsupported(f"{rel}: not utf-8: {e}") from e
    try:
        body = Translator(sources).run()
    except RecursionError as e:
        raise Unsupported(f"{REL_SOURCE}: nesting too deep for the translator") from e
    sha = hashlib.sha256("".join(s for _, s in shas).encode()).hexdigest()
    header = [
        "/-",
        "  Gen/VecEnvGen.lean — GENERATED by harness/py2lean_vecenv.py from",
        f"  {REL_WRAP} (PettingZooAutoResetParallelWrapper.reset / .step),",
        f"  {REL_VEC} (PettingZooVecEnv.step) and",
        f"  {REL_ASYNC} (AsyncPettingZooVecEnv.reset / .reset_async / .step_async,",
        "  get_placeholder_value, process_transition, _async_worker); do not edit.  Core Lean only.",
        "  `Proofs/VecEnvGenEq.lean` proves these definitions equal to their counterparts in `Model/VecEnv.lean`.",
        "-/",
    ] + [f"{SHA_PREFIX}{rel}) = {s}" for rel, s in shas] + [
        "set_option linter.unusedVariables false",
        "",
        "namespace VecEnvGen",
        "",
        "section",
        "variable {S A α O R I Ω β : Type}",
    ]
    text = "\n".join(header) + "\n" + PRELUDE + "\n" + "\n".join(body).rstrip() + "\n\nend\n\nend VecEnvGen\n"
    return text, sha


def strip_sha(text: str) -> str:
    return "\n".join(ln for ln in text.split("\n") if not ln.startswith(SHA_PREFIX))


def write_if_changed(text: str, out: Path, force: bool = False) -> bool:
    """writes `text` unless the file already holds the same translation (sha lines ignored)"""
    old = out.read_text() if out.exists() else None
    if old is not None and not force and strip_sha(old) == strip_sha(text):
        return False
    if old == text:
        return False
    out.parent.mkdir(parents=True, exist_ok=True)
    tmp = out.with_suffix(".lean.tmp")
    tmp.write_text(text)
    os.replace(tmp, out)
    return True


def main(argv: list[str]) -> int:
    import argparse
    ap = argparse.ArgumentParser()
    ap.add_argument("--repo", default=None)
    ap.add_argument("--out", default=str(DEFAULT_OUT))
    ap.add_argument("--stdout", action="store_true")
    ap.add_argument("--force", action="store_true", help="rewrite even if only the sha256 lines differ")
    a = ap.parse_args(argv)
    try:
        text, sha = translate(repo_dir(a.repo))
    except Unsupported as e:
        print(f"py2lean_vecenv: {e}", file=sys.stderr)
        return 1
    if a.stdout:
        sys.stdout.write(text)
        return 0
    changed = write_if_changed(text, Path(a.out), a.force)
    print(f"{a.out}: {'written' if changed else 'unchanged'} (sources sha256 {sha[:16]}…, "
          f"translation sha256 {hashlib.sha256(strip_sha(text).encode()).hexdigest()[:16]}…)")
    return 0


if __name__ == "__main__":
    sys.exit(main(sys.argv[1:]))
